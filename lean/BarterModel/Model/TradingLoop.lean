import BarterModel.Model.SysHandle
import BarterModel.Model.Position
import BarterModel.Model.Stale
import BarterModel.Model.MockExchange
import BarterModel.Model.ExecManager
import BarterModel.Model.MockInstruments
/-
The end-to-end trading loop (sub-check C20E, registered under C20): the running `System` of
`Model/SysHandle.lean` (C20S: handle, two forwarders, engine runner, one FIFO feed, every scheduling
decision an explicit action) with its ABSTRACT engine and execution records instantiated by the
CONCRETE models that exist already. Nothing is modelled from scratch here; this file is glue:

  engine  = `Model/Engine.lean`   (C03 / C19: `Engine::process`, `action`, `send_requests`, in-flight marks)
          + `Model/Orders.lean`   (C01: the order table inside every instrument state)
          + `Model/Position.lean` (C02: `PositionManager::update_from_trade`, one per instrument)
          + `Model/Stale.lean`    (C09: the balance registers `AssetState::update_from_balance`)
  execution side = `Model/MockExchange.lean` (C08: `MockExchange::run` / `open_order`, the ledger)
          behind `ExecutionManager` (`Model/ExecManager.lean`, C07) and the `MockExecution` client
          (`Model/MockClient.lean`, C08C), seen through the index / name translation of
          `Model/ExecMap.lean` + `Model/MockInstruments.lean` (C04 / C04M): the exchange is addressed by
          ENGINE indices (instrument `i` = the engine's instrument `i`, asset `a` = the engine's asset
          `a`), which is exactly the "engine view" `MockInstruments.specCfg` that
          `Props.C04M.engine_view_refinement` proves the name-level exchange refines.

Rust the glue corresponds to:
  `barter/src/engine/state/mod.rs:101-165`     `EngineState::update_from_account` (routing of the five
                                               `AccountEventKind`s to asset / instrument states)
  `barter/src/engine/state/instrument/mod.rs:323-333` `InstrumentState::update_from_trade`
  `barter/src/engine/state/asset/mod.rs:116-129`      `AssetState::update_from_balance`
  `barter/src/execution/manager.rs:76-150, 221-416`   `ExecutionManager::{init, run, process_*}`
  `barter-execution/src/client/mock/mod.rs:108-237`   `MockExecution::{account_snapshot, cancel_order, open_order}`
  `barter-execution/src/exchange/mock/mod.rs:72-229`  `MockExchange::run`, `respond_with_latency`,
                                                      `send_notifications_with_latency`
  `barter/src/execution/builder.rs:88-129`            `add_mock` (`clock: move || clock.time()`)
  `barter/src/system/*`                               as in `Model/SysHandle.lean`

As in C20S the execution manager, the client, the exchange task and the latency sleeps are ONE step
(`respond`) whose outputs land in `Sys.pending` and may be delivered to the feed in ANY order
(`Act.fwdAccount k`): that every request yields exactly one response (C07), that the response is the
exchange's answer to that very request (C08C) and that keys survive the translation (C04 / C04M) is
what makes this summary legitimate; `Props/C20E.lean` restates those facts for the composition.

Second half: the abstract specification, written from the documented intent.
Core Lean only.
-/
namespace BarterModel.TradingLoop
open BarterModel.SysHandle
open BarterModel.Engine (Req OpenReq CancelReq Command Key)

/-! ## Glue between the three `Side` types -/

def sideX : Engine.Side → MockExchange.Side
  | .buy => .buy
  | .sell => .sell

def sidePosOfX : MockExchange.Side → Position.Side
  | .buy => .buy
  | .sell => .sell

def sideEngOfPos : Position.Side → Engine.Side
  | .buy => .buy
  | .sell => .sell

/-! ## Account events as the engine receives them (indexed) -/

/-- `AccountEvent<ExchangeIndex, AssetIndex, InstrumentIndex>` (`barter-execution/src/lib.rs:62-108`).
Balances are `(asset index, (time_exchange, (total, free)))`. -/
inductive AccEv where
  /-- `AccountEventKind::Snapshot`: the initial account snapshot (the mock exchange never holds resting
  orders, so `instruments` is empty) -/
  | snapshot (balances : List (Nat × Stale.Msg Stale.Bal))
  /-- `AccountEventKind::OrderSnapshot` for instrument `i`: the answer to an open request
  (`process_open_response`, manager.rs:363-397) -/
  | order (i : Nat) (s : Orders.Snap)
  /-- `AccountEventKind::OrderCancelled` for instrument `i` (`process_cancel_response`) -/
  | cancelled (i cid : Nat) (ok : Bool)
  /-- `AccountEventKind::BalanceSnapshot` -/
  | balance (asset : Nat) (m : Stale.Msg Stale.Bal)
  /-- `AccountEventKind::Trade` -/
  | trade (t : Position.Trade)
  deriving DecidableEq, Repr

abbrev LEv := Ev MktEv AccEv Command

/-! ## The concrete engine -/

/-- `Engine` + `EngineState` + what the harness's strategy keeps. `core.instruments[i].position` is the
`(side, quantity_abs)` summary of `pos[i]` that commands read (`close_positions`). -/
structure LEng where
  /-- trading state, execution links, delivered-request log, per instrument: orders (C01), price -/
  core : Engine.Eng
  /-- `InstrumentState.position` of every instrument with the `PositionExited` records returned so far (C02) -/
  pos : Position.Instruments
  /-- `AssetStates`: one balance register per asset index (C09) -/
  bal : Stale.Eng
  /-- market trades recorded so far (the recording clock sees every event first) -/
  trades : List MktEv
  /-- how many of them the strategy has answered -/
  answered : Nat
  /-- `on_disconnect` invocations -/
  disconnects : Nat

/-- `EngineState::update_from_account`, position half (state/mod.rs:153-158): only a `Trade` touches a
position, and only the one of `trade.instrument`. -/
def posAfter (p : Position.Instruments) : LEv → Position.Instruments
  | .account (.trade t) => p.step t
  | _ => p

/-- `EngineState::update_from_account`, balance half (state/mod.rs:113-134): only `Snapshot` (item by
item) and `BalanceSnapshot` touch the asset states. -/
def balAfter (b : Stale.Eng) : LEv → Stale.Eng
  | .account (.snapshot items) => b.fullSnapshot items
  | .account (.balance a m) => b.balance a m
  | _ => b

/-- The `(side, quantity_abs)` of instrument `i`'s open position as an update of the engine model. -/
def posSummary (p : Position.Instruments) (i : Nat) : Engine.Update :=
  match (p[i]?).bind (·.pm.current) with
  | some q => .position i (sideEngOfPos q.side) q.quantityAbs
  | none => .flat i

/-- The `Model/Engine.lean` event a feed event is; `p` is the position table AFTER the event. -/
def toEngineEvent (p : Position.Instruments) : LEv → Engine.Event
  | .shutdown => .shutdown
  | .command c => .command c
  | .trading on => .tradingState on
  | .market m => if m.marker then .update .other else .update (.price m.inst m.price)
  | .account (.order i s) => .update (.order i (.snapshot s))
  | .account (.cancelled i cid ok) => .update (.order i (.cancelResp cid ok))
  | .account (.trade t) => .update (posSummary p t.instrument)
  | .account (.snapshot _) => .update .other
  | .account (.balance _ _) => .update .other

def tradesAfter (trades : List MktEv) : LEv → List MktEv
  | .market m => if m.marker then trades else trades ++ [m]
  | _ => trades

/-- What the harness's strategy answers on this tick if asked (`SysHandle.stratOpens`). -/
def lOpens (s : LEng) (ev : LEv) : List OpenReq :=
  stratOpens s.core (tradesAfter s.trades ev) s.answered

/-- `Engine::process` (engine/mod.rs:143-186) of the real engine with the harness's strategy and
`DefaultRiskManager`: the state update (`update_from_account` / `update_from_market`), then the
engine model's tick (command actions, trading state, algo generation, request sending, in-flight
recording). -/
def lStep (s : LEng) (ev : LEv) : LEng × Engine.Audit :=
  let pos := posAfter s.pos ev
  let trades := tradesAfter s.trades ev
  let r := Engine.process s.core (toEngineEvent pos ev) [] (lOpens s ev) (fun _ => false)
  ({ core := r.1, pos := pos, bal := balAfter s.bal ev, trades := trades,
     answered := if r.2.generated.isSome then trades.length else s.answered,
     disconnects := s.disconnects + (match ev with | .market m => if m.marker then 1 else 0 | _ => 0) },
   r.2)

/-- State and the requests sent during the tick (the growth of the delivery log). -/
def lProcess (s : LEng) (ev : LEv) : LEng × List Req :=
  let r := lStep s ev
  (r.1, r.1.core.log.drop s.core.log.length)

def lEngine : Engine LEng MktEv AccEv Command Req :=
  { process := lProcess, fatal := fun s ev => (lStep s ev).2.fatal }

/-- `EngineStateBuilder` + `Engine::new` as `SystemBuilder::build` calls them for `k` spot instruments
on one exchange (instrument `j`: base asset `j`, quote asset `k`), execution link healthy, no
balances seeded (`balance: None`, asset/mod.rs:154-174). -/
def lMkEngine (k : Nat) (trading : Bool) : LEng :=
  { core := { enabled := trading, links := [.healthy], log := [],
              instruments := (List.range k).map (fun j => ⟨0, j, k, [], none, none⟩),
              disabledCalls := 0 },
    pos := Position.Instruments.init k,
    bal := Stale.Eng.init (k + 1) k,
    trades := [], answered := 0, disconnects := 0 }

/-! ## The concrete execution side -/

/-- `MockExchange` (ledger, trade log, id counter, exchange clock) + the number of requests the
`MockExecution` client has stamped so far (`time_request = (self.clock)()`, client/mock/mod.rs:86-88). -/
structure LExch where
  x : MockExchange.State
  n : Nat

/-- The open request as the exchange sees it (`indexer.order_request`, then `into_owned_request`):
instrument by ENGINE index (see the file header), always a market order (the engine's requests are
`OrderKind::Market`: the harness's, and `close_open_positions_with_market_orders`). -/
def toXReq (r : OpenReq) : MockExchange.Req :=
  { instr := r.key.instrument, strategy := 0, cid := r.key.cid, side := sideX r.side,
    price := r.price, qty := r.quantity, kind := .market }

/-- `AccountEventIndexer::trade` (indexer.rs:281-309): the fill under its instrument index. -/
def toPosTrade (t : MockExchange.Trade) : Position.Trade :=
  { id := t.id, instrument := t.instr, time := t.time, side := sidePosOfX t.side, price := t.price,
    quantity := t.qty, fees := t.fees }

/-- `IndexedAccountStream`: a broadcast notification as an indexed account event. -/
def notif : MockExchange.Event → AccEv
  | .balance a b => .balance a (b.time, (b.total, b.free))
  | .trade t => .trade (toPosTrade t)

/-- `process_open_response` (manager.rs:363-397): `Ok(open)` with nothing left to fill is
`fully_filled`, `Ok(open)` otherwise `active(open)`, `Err(_)` is `inactive(OpenFailed)`; key and static
fields are the request's (the client echoes them, C08C / C07 `EchoesKey`). -/
def responseState (r : OpenReq) : MockExchange.Result → Orders.OState
  | .accepted f =>
    if r.quantity - f.filled = 0 then .inactive .fullyFilled else .active (.opn ⟨f.id, f.time, f.filled⟩)
  | _ => .inactive .openFailed

def orderResponse (r : OpenReq) (res : MockExchange.Result) : AccEv :=
  .order r.key.instrument ⟨r.key.cid, r.quantity, r.price, responseState r res, r.key.exchange⟩

def resultOf : MockExchange.Response → MockExchange.Result
  | .order r => r
  | _ => .panic

/-- One engine request through execution manager, client and exchange, and everything that comes
back: an open request → `MockExchange::open_order` → the order response, then (accepted only) the
balance snapshot of the debited asset and the fill; a cancel request → logged by the exchange, its
responder dropped → `ExchangeOffline` → an `OrderCancelled` carrying an error
(exchange/mock/mod.rs:96-105, client/mock/mod.rs:180-188). `clk` is the client's clock: the `n`-th
request is stamped `clk n`. -/
def respond (clk : Nat → Int) (s : LExch) : Req → LExch × List AccEv
  | .cnl r =>
    let st := MockExchange.step s.x (clk s.n) .cancelOrder
    (⟨st.1, s.n + 1⟩, [.cancelled r.key.instrument r.key.cid false])
  | .opn r =>
    let st := MockExchange.step s.x (clk s.n) (.openOrder (toXReq r))
    (⟨st.1, s.n + 1⟩, orderResponse r (resultOf st.2.1) :: st.2.2.map notif)

def lExchange (clk : Nat → Int) : Exchange LExch Req AccEv := { respond := respond clk }

/-- The `MockExchangeRequestKind` an engine request becomes on the client's request channel. -/
def wire : Req → MockExchange.Request
  | .opn o => .openOrder (toXReq o)
  | .cnl _ => .cancelOrder

/-- The requests of the engine as the exchange's request loop sees them: the `j`-th request of the
client (counting from `n0`) is stamped `clk j`. -/
def exchOps (clk : Nat → Int) (n0 : Nat) (reqs : List Req) : List (Int × MockExchange.Request) :=
  (reqs.zipIdx n0).map fun (r, j) => (clk j, wire r)

/-- Everything the exchange has been asked since it was started: the manager's initial snapshot
query, then the engine's requests. -/
def exchHistory (clk : Nat → Int) (reqs : List Req) : List (Int × MockExchange.Request) :=
  (clk 0, .fetchSnapshot) :: exchOps clk 1 reqs

/-- `ExecutionManager::init` (manager.rs:94-127): the first item of the account stream is the full
account snapshot, fetched through the client (request number 0). -/
def snapshotItems (bs : List MockExchange.Bal) : List (Nat × Stale.Msg Stale.Bal) :=
  bs.zipIdx.map fun (b, a) => (a, (b.time, (b.total, b.free)))

def exchInit (clk : Nat → Int) (c : MockExchange.Cfg) : LExch × List AccEv :=
  let st := MockExchange.step (MockExchange.init c) (clk 0) .fetchSnapshot
  (⟨st.1, 1⟩, [.snapshot (snapshotItems st.1.balances)])

/-- The exchange configuration of the correspondence: `k` instruments (instrument `j`: base asset `j`,
quote asset `k`), `base` of every base asset, `quote` of the quote asset. -/
def lCfg (k : Nat) (quote base fee : Rat) (latency : Nat) : MockExchange.Cfg :=
  { latency := latency, fee := fee,
    init := List.replicate k (base, base) ++ [(quote, quote)],
    instruments := (List.range k).map fun j => ⟨j, k⟩ }

abbrev LSys := Sys LEng LExch MktEv AccEv Command Req

/-! ## The execution manager between engine and client (`Model/ExecManager.lean`, C07)

`respond` is the SUMMARY of what the execution manager, the client and the exchange do with one
request. The C07 model is the manager in detail (in-flight futures, polls, timeouts) with the client
as a script per request; these definitions say which script the mock client plays, so that the C07
theorems can be applied to the composition. -/

def managerKey (k : Key) : ExecManager.Key := ⟨k.exchange, k.instrument, 0, k.cid⟩

/-- Does the exchange (in state `x`) accept the open request? -/
def acceptedBy (clk : Nat → Int) (x : LExch) (r : OpenReq) : Bool :=
  match (MockExchange.step x.x (clk x.n) (.openOrder (toXReq r))).2.1 with
  | .order (.accepted _) => true
  | _ => false

/-- The request as the C07 manager takes it in, with the script the `MockExecution` client plays for
it: an open request is answered one exchange latency later, faithfully echoing key and static fields
(client/mock/mod.rs:193-237 returns the exchange's `Order`, built from the request itself,
exchange/mock/mod.rs:348-360, 422-438), `Ok(open)` with everything filled when accepted, an error
otherwise; a cancel request is answered with an error as soon as the exchange has dropped the
responder. -/
def managerSpec (clk : Nat → Int) (x : LExch) : Req → ExecManager.ReqSpec
  | .opn r =>
    ⟨.open, managerKey r.key, 1,
      ⟨some x.x.latency, if acceptedBy clk x r then .ok else .rejected, true, managerKey r.key, 1⟩⟩
  | .cnl r => ⟨.cancel, managerKey r.key, 0, ⟨some 0, .rejected, false, managerKey r.key, 0⟩⟩

/-- A response event of the composition as the C07 model writes it (`ex`: the manager's exchange). -/
def managerEvent (ex : Nat) : AccEv → Option ExecManager.Event
  | .order i s =>
    some ⟨.open, s.exchange, ⟨s.exchange, i, 0, s.cid⟩, 1,
      match s.state with
      | .inactive .fullyFilled => .full
      | .active _ => .ok
      | .inactive _ => .rejected⟩
  | .cancelled i cid ok => some ⟨.cancel, ex, ⟨ex, i, 0, cid⟩, 0, if ok then .ok else .rejected⟩
  | _ => none

/-- `SystemBuild::init` for the composition: the engine the builder built, the exchange after the
manager has fetched the initial snapshot, that snapshot as the first account event. -/
def lInit (clk : Nat → Int) (b : SystemBuild LEng) (c : MockExchange.Cfg) : LSys :=
  b.init (exchInit clk c).1 (exchInit clk c).2

/-! ## Observables of the two views -/

/-- Signed open quantity of instrument `i` in the engine's view (0 when flat or unknown). -/
def enginePos (e : LEng) (i : Nat) : Rat :=
  match e.pos[i]? with
  | some r => r.pm.signedQty
  | none => 0

/-- `(total, free)` the engine holds for asset `a`. -/
def engineBal (e : LEng) (a : Nat) : Option Stale.Bal :=
  match e.bal.assets[a]? with
  | some (some m) => some m.2
  | _ => none

/-- The fills of a list of account events, in order. -/
def tradesOf (l : List AccEv) : List Position.Trade :=
  l.filterMap fun | .trade t => some t | _ => none

/-- The balance items of a list of account events, in order (a snapshot contributes all its items). -/
def balItemsOf (l : List AccEv) : List (Nat × Stale.Msg Stale.Bal) :=
  l.flatMap fun | .snapshot items => items | .balance a m => [(a, m)] | _ => []

/-- Identity of a request / of the response to it: kind, instrument, client order id. -/
def reqIdent : Req → ExecManager.Kind × Nat × Nat
  | .opn r => (.open, r.key.instrument, r.key.cid)
  | .cnl r => (.cancel, r.key.instrument, r.key.cid)

def responseIdent : AccEv → Option (ExecManager.Kind × Nat × Nat)
  | .order i s => some (.open, i, s.cid)
  | .cancelled i cid _ => some (.cancel, i, cid)
  | _ => none

/-! ## The name-level execution side (`Model/MockInstruments.lean`, C04 / C04M)

In the code the exchange knows instruments and assets by NAME: the engine's request is translated by
the manager's `ExecutionInstrumentMap` (index → name), the mock exchange looks the name up in its own
instrument table and debits the balance carrying the asset NAME, and what comes back is translated
name → index by the `AccountEventIndexer`. `MockInstruments.mockOpen` is that path for one open
request. `respond` above talks indices directly; `Props.C20E.name_level_exchange_shows_this_exchange`
proves the two show the engine the same thing. -/

/-- The engine's open request as `MockInstruments` takes it. -/
def toOpen (r : OpenReq) : MockInstruments.Open :=
  ⟨r.key.exchange, r.key.instrument, r.key.cid, sideX r.side, .market, r.price, r.quantity⟩

def sideXOfPos : Position.Side → MockExchange.Side
  | .buy => .buy
  | .sell => .sell

/-- The balance notification among the outputs of one request, as `MockInstruments.Events` writes it. -/
def balanceOf (out : List AccEv) : Option (Nat × Rat × Rat) :=
  (balItemsOf out).head?.map fun am => (am.1, am.2.2.1, am.2.2.2)

/-- The fill among the outputs of one request, as `MockInstruments.Events` writes it. -/
def tradeOf (out : List AccEv) : Option (Nat × MockExchange.Side × Rat × Rat × Rat) :=
  (tradesOf out).head?.map fun t => (t.instrument, sideXOfPos t.side, t.price, t.quantity, t.fees)

/-! ## Abstract specification (from the documented intent; not from the code)

"The engine trades on an exchange through an execution link." What a user relies on:

* the exchange is a ledger: balances are the initial balances minus what the accepted orders spent,
  each accepted order is one fill (`MockExchange.Spec`, C08);
* a position is the NET of the fills on its instrument (`Position.net`, C02);
* a balance shown by the engine is the LATEST balance the exchange reported for that asset
  (`Stale.maxTime` / `valuesAtMax`, C09);
* an order is in flight from the moment its request is sent until its response has been processed,
  and a market order's response ends it (`Orders.Lifecycle`, C01);
* so, once everything the exchange has said has been heard, both sides tell the same story. -/
namespace Spec

/-- Signed quantity of a fill in the exchange's trade log. -/
def signed (t : MockExchange.Trade) : Rat :=
  match t.side with
  | .buy => t.qty
  | .sell => -t.qty

/-- Net of the fills the exchange accepted for instrument `i`. -/
def net (log : List MockExchange.Trade) (i : Nat) : Rat :=
  ((log.filter fun t => t.instr = i).map signed).sum

/-- The position an observer who has heard the notifications `ns` must show for instrument `i`: the
net of the fills among them. -/
def heardPos (ns : List AccEv) (i : Nat) : Rat :=
  Position.net ((tradesOf ns).filter fun t => t.instrument = i)

/-- The balance messages for asset `a` among the notifications `ns`. -/
def heardBalMsgs (ns : List AccEv) (a : Nat) : List (Stale.Msg Stale.Bal) :=
  ((balItemsOf ns).filter fun am => am.1 = a).map (·.2)

/-- "Both sides tell the same story": for every instrument the engine's signed position is the net
of the exchange's trade log, for every asset the engine holds exactly the exchange's ledger entry. -/
def Agree (e : LEng) (x : MockExchange.State) : Prop :=
  (∀ i, i < x.instruments.length → enginePos e i = net x.trades i) ∧
  (∀ a, a < x.balances.length → engineBal e a = (MockExchange.ledger x)[a]?)

/-- Executable form of `Agree`. -/
def agreeB (e : LEng) (x : MockExchange.State) : Bool :=
  (List.range x.instruments.length).all (fun i => enginePos e i == net x.trades i) &&
  (List.range x.balances.length).all (fun a => engineBal e a == (MockExchange.ledger x)[a]?)

end Spec

/-! ## Where the real engine panics (review B C20E-3 / C20S-2)

`rust_decimal` division panics on a zero divisor — also for `0 / 0`. Two divisions of the position code
have divisors that the fills determine:
  `approximate_remaining_exit_fees` (position.rs:517-523): `quantity_abs / quantity_abs_max`, reached
     through `update_pnl_unrealised` from EVERY arm of `Position::update_from_trade` (:262, :277, :287,
     :319) and from `InstrumentState::update_from_market` (instrument/mod.rs:339-356);
  `calculate_pnl_return` (position.rs:549-555): `pnl_realised / (price_entry_average * quantity_abs_max)`,
     reached when a position EXITS (`TearSheetGenerator::update_from_position`,
     statistic/summary/instrument.rs:70-83, pnl.rs:42-60).
`Rat` division gives 0 there and the model continues; these predicates say when the code does not. -/

/-- `PositionManager::update_from_trade` + `InstrumentState::update_from_trade` panic on this fill. -/
def tradePanics (pm : Position.PositionManager) (t : Position.Trade) : Bool :=
  match pm.current with
  | none => false
  | some p =>
    if p.instrument ≠ t.instrument then false
    else if p.side = t.side then
      -- increase arm: `quantity_abs_max` after the update is the divisor
      decide ((if p.quantityAbs + Position.abs t.quantity > p.quantityAbsMax
        then p.quantityAbs + Position.abs t.quantity else p.quantityAbsMax) = 0)
    else if p.quantityAbs > Position.abs t.quantity then decide (p.quantityAbsMax = 0)
    else
      -- exact close / flip: `update_pnl_unrealised`, then the exited position reaches `calculate_pnl_return`
      decide (p.quantityAbsMax = 0 ∨ p.priceEntryAverage = 0)

/-- The engine task panics while processing `ev` in state `s`: a fill on a position whose divisors
vanish, or a market price for an instrument whose open position has `quantity_abs_max = 0`. (Indices
out of range — `instrument_index_mut` — are not modelled: `none => false`.) -/
def tickPanics (s : LEng) : LEv → Bool
  | .account (.trade t) =>
    match s.pos[t.instrument]? with
    | some r => tradePanics r.pm t
    | none => false
  | .market m =>
    if m.marker then false
    else
      match (s.pos[m.inst]?).bind (·.pm.current) with
      | some p => decide (p.quantityAbsMax = 0)
      | none => false
  | _ => false

/-! ## The ops-level specification (review B C20E-1): what the SCRIPT alone determines

Written from the documentation of `System`, `Command`, `TradingState`, `AlgoStrategy` and of the
harness's strategy ("answer every recorded trade that asks for it once, with a market order, the first
time the strategy is consulted"), NOT from the engine model: a script is the sequence of handle events
and market items in the order they reach the engine; the specification says which requests must reach
the exchange for it, in which order. It is deliberately partial: it covers scripts whose requests are
determined by the script itself (`Det`: no `close_positions` / `cancel_orders` command — their
requests depend on what the engine has HEARD when they are processed —, every request addressed to
the one exchange and one of its instruments). Composed with the C08 specification (`MockExchange.Spec`:
accepted iff funds, exact debit, one fill per accepted order), the C02 specification (`Spec.net`) and
the C01 life cycle (a market order is closed by its response) it states, from the OPS alone, what
ledger, positions, balances, responses and order tables must be at quiescence. -/
namespace OpsSpec

/-- the user's book: trading state and the recorded trades the strategy has not been consulted about -/
structure St where
  trading : Bool
  unanswered : List MktEv

/-- the market order the harness's strategy answers trade `t` with (exchange 0: the only one) -/
def reaction (t : MktEv) : Option Req :=
  t.react.map fun sq => .opn ⟨⟨0, t.inst, reactCid t.id⟩, sq.1, t.price, sq.2⟩

/-- end of every tick: while trading is enabled the strategy is consulted and answers, in order, every
trade recorded since it was last consulted -/
def consult (st : St) (pre : List Req) : St × List Req :=
  if st.trading then ({ st with unanswered := [] }, pre ++ st.unanswered.filterMap reaction)
  else (st, pre)

/-- one script event: the requests that must be sent because of it, in send order (the command's
first, then the strategy's) -/
def step (st : St) : LEv → St × List Req
  | .command (.sendOpenRequests rs) => consult st (rs.map Req.opn)
  | .command (.sendCancelRequests rs) => consult st (rs.map Req.cnl)
  | .trading on => consult { st with trading := on } []
  | .market m => consult { st with unanswered := if m.marker then st.unanswered else st.unanswered ++ [m] } []
  | _ => (st, [])

def run (st : St) : List LEv → St × List Req
  | [] => (st, [])
  | ev :: rest =>
    let r := step st ev
    let q := run r.1 rest
    (q.1, r.2 ++ q.2)

/-- the requests the script makes the engine send -/
def requests (trading : Bool) (script : List LEv) : List Req := (run ⟨trading, []⟩ script).2

/-- the script of a processed history: its handle and market events, in order (account events are
the exchange's answers, not the user's doing) -/
def scriptOf (h : List LEv) : List LEv :=
  h.filter fun | .account _ => false | _ => true

/-- the class of script events the specification determines, for `k` instruments on exchange 0 -/
def DetEv (k : Nat) : LEv → Bool
  | .command (.sendOpenRequests rs) => rs.all fun r => r.key.exchange == 0 && decide (r.key.instrument < k)
  | .command (.sendCancelRequests rs) => rs.all fun r => r.key.exchange == 0 && decide (r.key.instrument < k)
  | .command (.closePositions _) => false
  | .command (.cancelOrders _) => false
  | .market m => m.marker || decide (m.inst < k)
  | _ => true

def Det (k : Nat) (script : List LEv) : Prop := ∀ ev ∈ script, DetEv k ev = true

instance (k : Nat) (script : List LEv) : Decidable (Det k script) := by
  unfold Det; infer_instance

/-- what the exchange must have done with the script's requests (C08 specification) -/
def accepted (c : MockExchange.Cfg) (clk : Nat → Int) (trading : Bool) (script : List LEv) : List MockExchange.Spec.Ev :=
  MockExchange.Spec.accepted c (MockExchange.opens c (exchHistory clk (requests trading script)))

/-- net position per instrument (C02 specification over the C08 specification's fills) -/
def net (c : MockExchange.Cfg) (clk : Nat → Int) (trading : Bool) (script : List LEv) (i : Nat) : Rat :=
  Spec.net (MockExchange.Spec.fills c (accepted c clk trading script)) i

/-- ledger `(total, free)` per asset (C08 specification) -/
def ledger (c : MockExchange.Cfg) (clk : Nat → Int) (trading : Bool) (script : List LEv) : List (Rat × Rat) :=
  MockExchange.Spec.ledger c (accepted c clk trading script)

/-- identities of the responses the engine must have processed: one per request -/
def responses (trading : Bool) (script : List LEv) : List (ExecManager.Kind × Nat × Nat) :=
  (requests trading script).map reqIdent

end OpsSpec

end BarterModel.TradingLoop
