/-
Model of `barter-instrument/src/index/builder.rs` (IndexedInstrumentsBuilder), the `find_*` lookups of
`barter-instrument/src/index/mod.rs`, and of the tables derived from an `IndexedInstruments`:
`generate_indexed_instrument_states` (barter/src/engine/state/instrument/mod.rs:419-452),
`generate_empty_indexed_asset_states` (engine/state/asset/mod.rs:154-174),
`generate_empty_indexed_connectivity_states` (engine/state/connectivity/mod.rs:196-210) and
`ExecutionBuilder::{add_execution,build}` (barter/src/execution/builder.rs:146-224).

Identifiers: `ExchangeId`, every `SmolStr` name, every `Decimal` and `DateTime` field is a `Nat`
(the harness maps a `Nat` to an `ExchangeId` / fixed-width string / integer decimal / millisecond
timestamp in an order-preserving way). The Rust `#[derive(Ord)]` orders (lexicographic in field
order, enum variants in declaration order) are modelled by an injective *sort key* `List Nat`
compared with the lexicographic order of core `List`: variant tag first, then the variant's fields
in declaration order, padded with zeros to a fixed length so that keys of equal tags line up.

Second half of the file: the abstract specification (written from the property text).
Core Lean only.
-/
namespace BarterModel.Index

/-- `Keyed<Key, Value>` (barter-instrument/src/lib.rs:48). -/
structure Keyed (K V : Type) where
  key : K
  value : V
  deriving DecidableEq, Repr

/-- `Asset` (asset/mod.rs:69): `name_internal`, `name_exchange` in this (derive-Ord) order. -/
structure Asset where
  nameInternal : Nat
  nameExchange : Nat
  deriving DecidableEq, Repr

/-- `ExchangeAsset<Asset>` (asset/mod.rs:36). -/
structure ExchangeAsset where
  exchange : Nat
  asset : Asset
  deriving DecidableEq, Repr

/-- `InstrumentKind<AssetKey>` (instrument/kind/mod.rs:22) with the contract structs inlined
(field order of `PerpetualContract`, `FutureContract`, `OptionContract`). `put`: Call = 0, Put = 1;
`exercise`: American = 0, Bermudan = 1, European = 2. -/
inductive Kind (A : Type) where
  | spot
  | perpetual (size : Nat) (settle : A)
  | future (size : Nat) (settle : A) (expiry : Nat)
  | option (size : Nat) (settle : A) (put : Nat) (exercise : Nat) (expiry : Nat) (strike : Nat)
  deriving DecidableEq, Repr

/-- `OrderQuantityUnits<AssetKey>` (instrument/spec.rs:33). -/
inductive Units (A : Type) where
  | asset (a : A)
  | contract
  | quote
  deriving DecidableEq, Repr

/-- `InstrumentSpec<AssetKey>` flattened: price (min, tick_size), quantity (unit, min, increment),
notional (min) (instrument/spec.rs:8-45). -/
structure Spec (A : Type) where
  priceMin : Nat
  tick : Nat
  unit : Units A
  qtyMin : Nat
  qtyInc : Nat
  notionalMin : Nat
  deriving DecidableEq, Repr

/-- `Instrument<ExchangeKey, AssetKey>` (instrument/mod.rs:66); `underlying` flattened to
`base`,`quote`; `quoteAsset`: UnderlyingBase = 0, UnderlyingQuote = 1. -/
structure Instrument (E A : Type) where
  exchange : E
  nameInternal : Nat
  nameExchange : Nat
  base : A
  quote : A
  quoteAsset : Nat
  kind : Kind A
  spec : Option (Spec A)
  deriving DecidableEq, Repr

/-- An instrument definition as handed to `add_instrument`. -/
abbrev Def := Instrument Nat Asset

/-- An indexed instrument as stored in `IndexedInstruments.instruments`. -/
abbrev IInstrument := Instrument (Keyed Nat Nat) Nat

/-- `IndexedInstruments` (index/mod.rs:30). -/
structure Indexed where
  exchanges : List (Keyed Nat Nat)
  assets : List (Keyed Nat ExchangeAsset)
  instruments : List (Keyed Nat IInstrument)
  deriving DecidableEq, Repr

/-! ## derive(Ord) as sort keys -/

def exchangeKey (e : Nat) : List Nat := [e]

def ExchangeAsset.sortKey (x : ExchangeAsset) : List Nat :=
  [x.exchange, x.asset.nameInternal, x.asset.nameExchange]

/-- length 8 -/
def Kind.sortKey : Kind Asset → List Nat
  | .spot => [0, 0, 0, 0, 0, 0, 0, 0]
  | .perpetual s a => [1, s, a.nameInternal, a.nameExchange, 0, 0, 0, 0]
  | .future s a e => [2, s, a.nameInternal, a.nameExchange, 0, 0, e, 0]
  | .option s a p x e k => [3, s, a.nameInternal, a.nameExchange, p, x, e, k]

/-- length 3 -/
def Units.sortKey : Units Asset → List Nat
  | .asset a => [0, a.nameInternal, a.nameExchange]
  | .contract => [1, 0, 0]
  | .quote => [2, 0, 0]

/-- `Option<InstrumentSpec>`: `None < Some`; length 9 -/
def specSortKey : Option (Spec Asset) → List Nat
  | none => [0, 0, 0, 0, 0, 0, 0, 0, 0]
  | some s => [1, s.priceMin, s.tick] ++ s.unit.sortKey ++ [s.qtyMin, s.qtyInc, s.notionalMin]

def Instrument.sortKey (d : Def) : List Nat :=
  [d.exchange, d.nameInternal, d.nameExchange, d.base.nameInternal, d.base.nameExchange,
    d.quote.nameInternal, d.quote.nameExchange, d.quoteAsset] ++ d.kind.sortKey ++ specSortKey d.spec

/-- `a <= b` of the derived order. -/
def leKey {α : Type} (key : α → List Nat) (a b : α) : Bool := decide (key a ≤ key b)

/-- `Vec::dedup`: removes consecutive repeated elements. -/
def dedup {α : Type} [DecidableEq α] : List α → List α
  | [] => []
  | [a] => [a]
  | a :: b :: t => if a = b then dedup (b :: t) else a :: dedup (b :: t)

/-- `v.sort(); v.dedup();` -/
def sortDedup {α : Type} [DecidableEq α] (key : α → List Nat) (l : List α) : List α :=
  dedup (l.mergeSort (leKey key))

/-- `.into_iter().enumerate().map(|(index, x)| Keyed::new(Index::new(index), x))` -/
def enumerate {α : Type} (l : List α) : List (Keyed Nat α) := l.mapIdx (fun i v => ⟨i, v⟩)

/-! ## Builder (index/builder.rs) -/

/-- `InstrumentKind::settlement_asset` (instrument/kind/mod.rs:45). -/
def Kind.settlementAsset {A : Type} : Kind A → Option A
  | .spot => none
  | .perpetual _ a => some a
  | .future _ a _ => some a
  | .option _ a _ _ _ _ => some a

def specUnitAsset {A : Type} : Option (Spec A) → Option A
  | some s => match s.unit with
    | .asset a => some a
    | _ => none
  | none => none

/-- The assets `add_instrument` pushes for one definition, in push order (builder.rs:26-54):
base, quote, settlement asset (non-spot), quantity-unit asset (if the spec is in asset units). -/
def Instrument.assetRefs {E A : Type} (d : Instrument E A) : List A :=
  [d.base, d.quote] ++ d.kind.settlementAsset.toList ++ (specUnitAsset d.spec).toList

def defAssets (d : Def) : List ExchangeAsset := d.assetRefs.map (fun a => ⟨d.exchange, a⟩)

/-- `IndexedInstrumentsBuilder` (builder.rs:12). -/
structure Builder where
  exchanges : List Nat := []
  instruments : List Def := []
  assets : List ExchangeAsset := []
  deriving Repr

/-- `add_instrument` (builder.rs:23-59). -/
def Builder.addInstrument (b : Builder) (d : Def) : Builder :=
  { exchanges := b.exchanges ++ [d.exchange],
    assets := b.assets ++ defAssets d,
    instruments := b.instruments ++ [d] }

/-- `find_exchange_by_exchange_id` (index/mod.rs:193-204): key of the first entry with that id. -/
def findExchangeByExchangeId (h : List (Keyed Nat Nat)) (needle : Nat) : Option Nat :=
  h.findSome? (fun x => if x.value = needle then some x.key else none)

/-- `find_asset_by_exchange_and_name_internal` (index/mod.rs:206-223). -/
def findAssetByExchangeAndNameInternal (h : List (Keyed Nat ExchangeAsset)) (e ni : Nat) : Option Nat :=
  h.findSome? (fun x => if x.value.exchange = e ∧ x.value.asset.nameInternal = ni then some x.key else none)

def Kind.mapOpt {A B : Type} (f : A → Option B) : Kind A → Option (Kind B)
  | .spot => some .spot
  | .perpetual s a => (f a).map (fun a' => .perpetual s a')
  | .future s a e => (f a).map (fun a' => .future s a' e)
  | .option s a p x e k => (f a).map (fun a' => .option s a' p x e k)

def Units.mapOpt {A B : Type} (f : A → Option B) : Units A → Option (Units B)
  | .asset a => (f a).map .asset
  | .contract => some .contract
  | .quote => some .quote

def specMapOpt {A B : Type} (f : A → Option B) : Option (Spec A) → Option (Option (Spec B))
  | none => some none
  | some s => (s.unit.mapOpt f).map (fun u =>
      some { priceMin := s.priceMin, tick := s.tick, unit := u, qtyMin := s.qtyMin,
             qtyInc := s.qtyInc, notionalMin := s.notionalMin })

/-- `map_exchange_key` (instrument/mod.rs:131-154). -/
def Instrument.mapExchangeKey {E E' A : Type} (i : Instrument E A) (e : E') : Instrument E' A :=
  { exchange := e, nameInternal := i.nameInternal, nameExchange := i.nameExchange, base := i.base,
    quote := i.quote, quoteAsset := i.quoteAsset, kind := i.kind, spec := i.spec }

/-- `map_asset_key_with_lookup` (instrument/mod.rs:157-245); `none` = the lookup's `Err` (`?`). -/
def Instrument.mapAssetKeyWithLookup {E A B : Type} (f : A → Option B) (i : Instrument E A) :
    Option (Instrument E B) :=
  match f i.base with
  | none => none
  | some b =>
  match f i.quote with
  | none => none
  | some q =>
  match i.kind.mapOpt f with
  | none => none
  | some k =>
  match specMapOpt f i.spec with
  | none => none
  | some s =>
    some { exchange := i.exchange, nameInternal := i.nameInternal, nameExchange := i.nameExchange,
           base := b, quote := q, quoteAsset := i.quoteAsset, kind := k, spec := s }

/-- `Iterator::map(..).collect()` where the closure may panic (`expect`): `none` = panic. -/
def traverse {α β : Type} (f : α → Option β) : List α → Option (List β)
  | [] => some []
  | a :: t =>
    match f a with
    | none => none
    | some b =>
      match traverse f t with
      | none => none
      | some bs => some (b :: bs)

/-- The closure of builder.rs:88-113 for one enumerated definition; `none` = one of the two
`expect`s panics. -/
def indexInstrument (exchanges : List (Keyed Nat Nat)) (assets : List (Keyed Nat ExchangeAsset))
    (x : Keyed Nat Def) : Option (Keyed Nat IInstrument) :=
  let exchangeId := x.value.exchange
  match findExchangeByExchangeId exchanges exchangeId with
  | none => none
  | some ek =>
    match (x.value.mapExchangeKey (⟨ek, exchangeId⟩ : Keyed Nat Nat)).mapAssetKeyWithLookup
        (fun a => findAssetByExchangeAndNameInternal assets exchangeId a.nameInternal) with
    | none => none
    | some i => some ⟨x.key, i⟩

/-- `IndexedInstrumentsBuilder::build` (builder.rs:61-121); `none` = panic. -/
def Builder.build (b : Builder) : Option Indexed :=
  let exchanges := enumerate (sortDedup exchangeKey b.exchanges)
  let assets := enumerate (sortDedup ExchangeAsset.sortKey b.assets)
  match traverse (indexInstrument exchanges assets) (enumerate (sortDedup Instrument.sortKey b.instruments)) with
  | none => none
  | some instruments => some { exchanges, assets, instruments }

/-- `IndexedInstruments::new` (index/mod.rs:48-59): fold `add_instrument`, then `build`. -/
def build (defs : List Def) : Option Indexed := (defs.foldl Builder.addInstrument {}).build

/-! ## Lookups (index/mod.rs:90-175) -/

/-- `find_exchange_index` -/
def Indexed.findExchangeIndex (ii : Indexed) (e : Nat) : Option Nat :=
  findExchangeByExchangeId ii.exchanges e

/-- `find_exchange` -/
def Indexed.findExchange (ii : Indexed) (k : Nat) : Option Nat :=
  (ii.exchanges.find? (fun x => x.key = k)).map (·.value)

/-- `find_asset_index` -/
def Indexed.findAssetIndex (ii : Indexed) (e ni : Nat) : Option Nat :=
  findAssetByExchangeAndNameInternal ii.assets e ni

/-- `find_asset` -/
def Indexed.findAsset (ii : Indexed) (k : Nat) : Option ExchangeAsset :=
  (ii.assets.find? (fun x => x.key = k)).map (·.value)

/-- `find_instrument_index` -/
def Indexed.findInstrumentIndex (ii : Indexed) (e ni : Nat) : Option Nat :=
  ii.instruments.findSome? (fun x =>
    if x.value.exchange.value = e ∧ x.value.nameInternal = ni then some x.key else none)

/-- `find_instrument` -/
def Indexed.findInstrument (ii : Indexed) (k : Nat) : Option IInstrument :=
  (ii.instruments.find? (fun x => x.key = k)).map (·.value)

/-! ## Derived tables -/

/-- `IndexMap::insert`: an existing key keeps its position and gets the new value; a new key is
appended. -/
def indexMapInsert {K V : Type} [DecidableEq K] (m : List (K × V)) (k : K) (v : V) : List (K × V) :=
  match m.findIdx? (fun e => e.1 = k) with
  | some i => m.set i (k, v)
  | none => m ++ [(k, v)]

/-- `iter.collect::<IndexMap<_,_>>()` -/
def indexMapCollect {K V : Type} [DecidableEq K] (l : List (K × V)) : List (K × V) :=
  l.foldl (fun m e => indexMapInsert m e.1 e.2) []

/-- Static part of an `InstrumentState`: (`key`, `instrument` with the exchange key mapped to its
`ExchangeIndex`). -/
abbrev InstrumentEntry := Nat × Instrument Nat Nat

/-- `generate_indexed_instrument_states` (engine/state/instrument/mod.rs:419-452): an `IndexMap`
keyed by `name_internal`. -/
def instrumentStates (ii : Indexed) : List (Nat × InstrumentEntry) :=
  indexMapCollect (ii.instruments.map (fun x =>
    (x.value.nameInternal, (x.key, x.value.mapExchangeKey x.value.exchange.key))))

/-- `generate_empty_indexed_asset_states` (engine/state/asset/mod.rs:154-174): `IndexMap` keyed by
`ExchangeAsset<AssetNameInternal>`, value carries the `Asset`. -/
def assetStates (ii : Indexed) : List ((Nat × Nat) × Asset) :=
  indexMapCollect (ii.assets.map (fun x =>
    ((x.value.exchange, x.value.asset.nameInternal), x.value.asset)))

/-- `generate_empty_indexed_connectivity_states` (connectivity/mod.rs:196-210): `IndexMap` keyed by
`ExchangeId` (the value is the default `ConnectivityState`, modelled in `Model/Connectivity`). -/
def connectivityStates (ii : Indexed) : List (Nat × Unit) :=
  indexMapCollect (ii.exchanges.map (fun x => (x.value, ())))

/-- `InstrumentStates::instrument_index` / `AssetStates::asset_index` /
`exchanges.get_index`: positional `get_index`. -/
def getIndex {K V : Type} (m : List (K × V)) (k : Nat) : Option V := m[k]?.map (·.2)

/-- `ExecutionBuilder::add_execution` (execution/builder.rs:146-190) reduced to its table:
`execution_txs : ExchangeId ↦ ExchangeIndex` (the transmitter itself is opaque).
`none` = `Err` (exchange not indexed, or added twice). -/
def execAdd (ii : Indexed) (txs : List (Nat × Nat)) (e : Nat) : Option (List (Nat × Nat)) :=
  match findExchangeByExchangeId ii.exchanges e with   -- generate_execution_instrument_map
  | none => none
  | some k => if txs.any (fun t => t.1 = e) then none else some (txs ++ [(e, k)])

def execAddAll (ii : Indexed) : List (Nat × Nat) → List Nat → Option (List (Nat × Nat))
  | txs, [] => some txs
  | txs, e :: es =>
    match execAdd ii txs e with
    | none => none
    | some txs' => execAddAll ii txs' es

/-- `ExecutionBuilder::build` (execution/builder.rs:198-224): one slot per indexed exchange, in
`exchanges()` order; `Some(tx)` iff an execution was added. Outer `none` = the `assert_eq!` panics. -/
def execBuild (ii : Indexed) (txs : List (Nat × Nat)) : Option (List (Nat × Bool)) :=
  (traverse (fun (x : Keyed Nat Nat) =>
    match txs.find? (fun t => t.1 = x.value) with
    | none => some (x.value, false)
    | some t => if x.key = t.2 then some (x.value, true) else none) ii.exchanges).map indexMapCollect

/-! ## Abstract specification (from the property text, not from the code)

An *indexing* of a collection of definitions is judged by resolving everything back to names:
* the distinct entities are those of the input, each listed exactly once (`specDistinct`, a plain
  "insert if absent" set, no sorting);
* `resolve` reads an indexed instrument back through the index tables – positions only – and must
  give the definition it came from. -/

/-- Insertion-ordered set of the distinct elements. -/
def specDistinct {α : Type} [DecidableEq α] (l : List α) : List α :=
  l.foldl (fun acc x => if x ∈ acc then acc else acc ++ [x]) []

def specExchanges (defs : List Def) : List Nat := specDistinct (defs.map (·.exchange))

def specAssets (defs : List Def) : List ExchangeAsset := specDistinct (defs.flatMap defAssets)

def specInstruments (defs : List Def) : List Def := specDistinct defs

/-- Within one exchange an asset's internal name determines the asset. -/
def WFAssets (defs : List Def) : Prop :=
  ∀ a ∈ defs.flatMap defAssets, ∀ b ∈ defs.flatMap defAssets,
    a.exchange = b.exchange → a.asset.nameInternal = b.asset.nameInternal → a = b

/-- Instrument internal names are unique over the collection ("unique across all exchanges",
instrument/name.rs). -/
def WFNames (defs : List Def) : Prop :=
  ∀ a ∈ defs, ∀ b ∈ defs, a.nameInternal = b.nameInternal → a = b

/-- Instrument internal names are unique WITHIN each exchange: what `find_instrument_index` keys on
(exchange id and internal name, index/mod.rs:142-157). Weaker than `WFNames`; enough for every
`IndexedInstruments` clause (`Props.C11.lookups_inverse_instrument_weak`, `resolve_by_name_weak`,
`rt_instruments_weak`); only the engine's name-keyed `InstrumentStates` needs the global form. The
same predicate as `Props.C11.WFNamesEx` (`Props.C11.wfNamesPerExchange_iff`). -/
def WFNamesPerExchange (defs : List Def) : Prop :=
  ∀ a ∈ defs, ∀ b ∈ defs, a.exchange = b.exchange → a.nameInternal = b.nameInternal → a = b

instance (defs : List Def) : Decidable (WFNamesPerExchange defs) := by
  unfold WFNamesPerExchange; infer_instance

instance (defs : List Def) : Decidable (WFAssets defs) := by unfold WFAssets; infer_instance
instance (defs : List Def) : Decidable (WFNames defs) := by unfold WFNames; infer_instance

def WFInstruments (defs : List Def) : Prop := WFAssets defs ∧ WFNames defs

instance (defs : List Def) : Decidable (WFInstruments defs) := by unfold WFInstruments; infer_instance

/-- Positional read of an asset reference: entry `k` of the asset table, which must belong to
exchange `e`. -/
def resolveAsset (assets : List (Keyed Nat ExchangeAsset)) (e : Nat) (k : Nat) : Option Asset :=
  match assets[k]? with
  | some x => if x.value.exchange = e then some x.value.asset else none
  | none => none

/-- Read an indexed instrument back to a definition using positions only: the exchange is entry
`exchange.key` of the exchange table (and must agree with the carried id), every asset reference
is the entry at that position of the asset table (and must belong to that exchange). -/
def resolve (ii : Indexed) (i : IInstrument) : Option Def :=
  match ii.exchanges[i.exchange.key]? with
  | none => none
  | some ex =>
    if ex.value ≠ i.exchange.value then none else
    (i.mapExchangeKey ex.value).mapAssetKeyWithLookup (resolveAsset ii.assets ex.value)

/-- Same through the engine's tables: the instrument entry at position `k` of the instrument-state
table, its exchange read from the connectivity table and its assets from the asset-state table,
all by position. -/
def resolveEngine (ii : Indexed) (k : Nat) : Option (Nat × Def) :=
  match getIndex (instrumentStates ii) k with
  | none => none
  | some (key, i) =>
    match (connectivityStates ii)[i.exchange]? with
    | none => none
    | some (ex, _) =>
      ((i.mapExchangeKey ex).mapAssetKeyWithLookup (fun a =>
        match (assetStates ii)[a]? with
        | some ((e, ni), asset) => if e = ex ∧ ni = asset.nameInternal then some asset else none
        | none => none)).map (fun d => (key, d))

end BarterModel.Index
