/-!
# C18 — drawdown generators: concrete model and abstract spec (core Lean only)

Concrete model: `DrawdownGenerator` (`barter/src/statistic/metric/drawdown/mod.rs`),
`MaxDrawdownGenerator` (`drawdown/max.rs`), `MeanDrawdownGenerator` (`drawdown/mean.rs`) and the
feeding code of both tear-sheet generators (`statistic/summary/asset.rs`,
`statistic/summary/instrument.rs`). `Decimal` is exact `Rat`, `DateTime<Utc>` is `Int` (ms since the
epoch, `DateTime::default()` = 0), `u64` counters are `Nat`, `i64` milliseconds are `Int` with
`Int.tdiv` for Rust's truncating `/`.

Abstract spec (second half of the file): the peak-to-trough decomposition of a timed value curve,
written from the property text: `decompose`, `specMax`, `specMean`.
-/
namespace BarterModel.Drawdown

/-- `Timed<Decimal>` (`barter/src/lib.rs:108`). -/
structure Pt where
  t : Int
  v : Rat
deriving DecidableEq, Repr

/-- `Drawdown` (`drawdown/mod.rs:21-25`). -/
structure Drawdown where
  value : Rat
  timeStart : Int
  timeEnd : Int
deriving DecidableEq, Repr

/-- `Drawdown::duration` in milliseconds (`drawdown/mod.rs:29-31` + `.num_milliseconds()`). -/
def Drawdown.duration (d : Drawdown) : Int := d.timeEnd - d.timeStart

/-! ## Concrete model -/

/-- `DrawdownGenerator` (`drawdown/mod.rs:38-43`). -/
structure Gen where
  peak : Option Rat
  drawdownMax : Rat
  timePeak : Option Int
  timeNow : Int
deriving DecidableEq, Repr

/-- `DrawdownGenerator::default()` (derive `Default`). -/
def Gen.default : Gen := ⟨none, 0, none, 0⟩

/-- `DrawdownGenerator::init` (`drawdown/mod.rs:47-54`). -/
def Gen.init (p : Pt) : Gen := ⟨some p.v, 0, some p.t, p.t⟩

/-- `DrawdownGenerator::generate` (`drawdown/mod.rs:97-105`): `None` without a peak time or when
`drawdown_max == 0`. -/
def Gen.generate (g : Gen) : Option Drawdown :=
  match g.timePeak with
  | none => none
  | some tp => if g.drawdownMax ≠ 0 then some ⟨g.drawdownMax, tp, g.timeNow⟩ else none

/-- `Decimal::checked_div`: `None` on a zero divisor (overflow is not modelled). -/
def checkedDiv (a b : Rat) : Option Rat := if b = 0 then none else some (a / b)

/-- `DrawdownGenerator::update` (`drawdown/mod.rs:60-94`). -/
def Gen.update (g : Gen) (p : Pt) : Gen × Option Drawdown :=
  -- :61 `self.time_now = point.time`
  let g := { g with timeNow := p.t }
  match g.peak with
  | none =>
    -- :64-68 first ever value
    ({ g with peak := some p.v, timePeak := some p.t }, none)
  | some peak =>
    if p.v > peak then
      -- :70-80 new peak: emit the ended drawdown (if any), reset
      let ended := g.generate
      ({ g with peak := some p.v, timePeak := some p.t, drawdownMax := 0 }, ended)
    else
      -- :82-92
      match checkedDiv (peak - p.v) peak with
      | some dc => (if dc > g.drawdownMax then { g with drawdownMax := dc } else g, none)
      | none => (g, none)

/-- `MaxDrawdownGenerator` (`drawdown/max.rs:17-19`). -/
structure MaxGen where
  max : Option Drawdown
deriving DecidableEq, Repr

def MaxGen.default : MaxGen := ⟨none⟩

/-- `MaxDrawdownGenerator::update` (`drawdown/max.rs:31-44`): replaced only by a strictly larger
absolute value. -/
def MaxGen.update (m : MaxGen) (next : Drawdown) : MaxGen :=
  match m.max with
  | some cur => if next.value.abs > cur.value.abs then ⟨some next⟩ else ⟨some cur⟩
  | none => ⟨some next⟩

/-- `MaxDrawdownGenerator::generate` (`drawdown/max.rs:47-49`). -/
def MaxGen.generate (m : MaxGen) : Option Drawdown := m.max

/-- `welford_online::calculate_mean` on `Decimal` (`statistic/algorithm.rs:7-13`). -/
def welfordMean (prev next count : Rat) : Rat := prev + (next - prev) / count

/-- `welford_online::calculate_mean` on `i64` (`statistic/algorithm.rs:7-13`, truncating `/`). -/
def welfordMeanInt (prev next count : Int) : Int := prev + Int.tdiv (next - prev) count

/-- `MeanDrawdown` (`drawdown/mean.rs:9-12`). -/
structure MeanDrawdown where
  meanDrawdown : Rat
  meanDrawdownMs : Int
deriving DecidableEq, Repr

/-- `MeanDrawdownGenerator` (`drawdown/mean.rs:16-19`). -/
structure MeanGen where
  count : Nat
  mean : Option MeanDrawdown
deriving DecidableEq, Repr

def MeanGen.default : MeanGen := ⟨0, none⟩

/-- `MeanDrawdownGenerator::update` (`drawdown/mean.rs:34-60`). -/
def MeanGen.update (m : MeanGen) (next : Drawdown) : MeanGen :=
  let count := m.count + 1
  match m.mean with
  | some ⟨md, ms⟩ =>
    ⟨count, some ⟨welfordMean md next.value (count : Nat), welfordMeanInt ms next.duration (count : Nat)⟩⟩
  | none => ⟨count, some ⟨next.value, next.duration⟩⟩

/-- `MeanDrawdownGenerator::generate` (`drawdown/mean.rs:63-65`). -/
def MeanGen.generate (m : MeanGen) : Option MeanDrawdown := m.mean

/-- The three drawdown generators carried by `TearSheetAssetGenerator` (`summary/asset.rs:24-29`)
and by `TearSheetGenerator` (`summary/instrument.rs:43-54`). -/
structure Sheet where
  gen : Gen
  mean : MeanGen
  max : MaxGen
deriving DecidableEq, Repr

/-- `TearSheetGenerator::init` (`summary/instrument.rs:58-67`): all three generators default. -/
def Sheet.default : Sheet := ⟨Gen.default, MeanGen.default, MaxGen.default⟩

/-- `TearSheetAssetGenerator::init` (`summary/asset.rs:33-40`). -/
def Sheet.initAsset (p : Pt) : Sheet := ⟨Gen.init p, MeanGen.default, MaxGen.default⟩

/-- The common feeding code: `TearSheetAssetGenerator::update_from_balance`
(`summary/asset.rs:43-53`, point = (balance.total, time_exchange)) and
`TearSheetGenerator::update_from_position` (`summary/instrument.rs:77-83`, point =
(pnl_raw, time_exit)). Returns the drawdown `DrawdownGenerator::update` returned as well. -/
def Sheet.update (s : Sheet) (p : Pt) : Sheet × Option Drawdown :=
  let (g, e) := s.gen.update p
  match e with
  | some d => (⟨g, s.mean.update d, s.max.update d⟩, e)
  | none => (⟨g, s.mean, s.max⟩, e)

/-- What `TearSheetAsset` / `TearSheet` carry about drawdowns. -/
structure Report where
  current : Option Drawdown
  mean : Option MeanDrawdown
  max : Option Drawdown
deriving DecidableEq, Repr

/-- `TearSheetAssetGenerator::generate` (`summary/asset.rs:56-69`) and the drawdown part of
`TearSheetGenerator::generate` (`summary/instrument.rs:119-125`): the in-progress drawdown is
folded into the mean/max generators (`&mut self`), then all three are read. -/
def Sheet.generate (s : Sheet) : Sheet × Report :=
  let cur := s.gen.generate
  let s' : Sheet :=
    match cur with
    | some d => ⟨s.gen, s.mean.update d, s.max.update d⟩
    | none => s
  (s', ⟨cur, s'.mean.generate, s'.max.generate⟩)

/-- Runs a whole curve through the feeding code; returns the final sheet and every drawdown that
`DrawdownGenerator::update` returned, in order. -/
def Sheet.run (s : Sheet) : List Pt → Sheet × List Drawdown
  | [] => (s, [])
  | p :: ps =>
    let (s1, e) := s.update p
    let (s2, es) := Sheet.run s1 ps
    (s2, e.toList ++ es)

/-- The bare generator over a whole curve: final generator and every drawdown `update` returned. -/
def Gen.run (g : Gen) : List Pt → Gen × List Drawdown
  | [] => (g, [])
  | p :: ps =>
    let r1 := g.update p
    let r2 := Gen.run r1.1 ps
    (r2.1, r1.2.toList ++ r2.2)

/-- The instrument tear sheet's PnL curve: `PnLReturns::update` accumulates
`pnl_raw += position.pnl_realised` (`summary/pnl.rs:47`) and `update_from_position` feeds
`(pnl_raw, time_exit)` (`summary/instrument.rs:74-79`). `ds` are `(time_exit, pnl_realised)`. -/
def pnlCurve (pnl : Rat) : List (Int × Rat) → List Pt
  | [] => []
  | (t, d) :: ds => ⟨t, pnl + d⟩ :: pnlCurve (pnl + d) ds

/-- State of the instrument tear sheet relevant here: `pnl_returns.pnl_raw` and the generators. -/
structure InstrSheet where
  pnlRaw : Rat
  sheet : Sheet
deriving DecidableEq, Repr

def InstrSheet.init : InstrSheet := ⟨0, Sheet.default⟩

/-- `TearSheetGenerator::update_from_position` (`summary/instrument.rs:70-84`). -/
def InstrSheet.update (s : InstrSheet) (t : Int) (pnlRealised : Rat) : InstrSheet × Option Drawdown :=
  let pnl := s.pnlRaw + pnlRealised
  let (sh, e) := s.sheet.update ⟨t, pnl⟩
  (⟨pnl, sh⟩, e)

/-- A whole list of exited positions `(time_exit, pnl_realised)` through `update_from_position`. -/
def InstrSheet.run (s : InstrSheet) : List (Int × Rat) → InstrSheet × List Drawdown
  | [] => (s, [])
  | (t, d) :: ps =>
    let r1 := s.update t d
    let r2 := InstrSheet.run r1.1 ps
    (r2.1, r1.2.toList ++ r2.2)

/-! ## Abstract spec (from the property text)

A curve is a list of timed values. A point is a *running maximum* when it exceeds every earlier
point; the points after a running maximum `p` up to (excluding) the next point that exceeds `p`
form its segment. The drawdown of that segment is the largest relative decline
`(p.v - q.v) / p.v` over the segment; it is reported when it is non-zero, starts at `p`'s time, and
ends at the time of the point that exceeds `p` (completed) or — for the last running maximum — at
the time of the latest point (current, in progress). -/

/-- Relative decline of value `v` from the running maximum `peak`. -/
def decline (peak v : Rat) : Rat := (peak - v) / peak

/-- Largest of a list of declines; `0` for "no decline". -/
def largest (xs : List Rat) : Rat := xs.foldl max 0

/-- Time of the latest point of `p :: seg`. -/
def lastT (p : Pt) (seg : List Pt) : Int :=
  match seg.getLast? with
  | some q => q.t
  | none => p.t

/-- Depth of the segment `seg` under the running maximum `p`: the largest relative decline. -/
def depthOf (p : Pt) (seg : List Pt) : Rat := largest (seg.map (fun q => decline p.v q.v))

/-- The drawdown reported for the segment `seg` under the running maximum `p` when it ends at
`tEnd`: none when there was no decline. -/
def ddOf (p : Pt) (seg : List Pt) (tEnd : Int) : Option Drawdown :=
  if depthOf p seg ≠ 0 then some ⟨depthOf p seg, p.t, tEnd⟩ else none

/-- Peak-to-trough decomposition: (completed drawdowns in order, drawdown in progress). -/
def decompose : List Pt → List Drawdown × Option Drawdown
  | [] => ([], none)
  | p :: rest =>
    -- the points after the running maximum `p` that do not exceed it …
    let seg := rest.takeWhile (fun q => q.v ≤ p.v)
    -- … and the remainder, which (if any) starts with the next point exceeding `p`
    let rem := rest.dropWhile (fun q => q.v ≤ p.v)
    match rem.head? with
    | none => ([], ddOf p seg (lastT p seg))
    | some q =>
      let r := decompose rem
      ((ddOf p seg q.t).toList ++ r.1, r.2)
termination_by l => l.length
decreasing_by
  simp only [List.length_cons]
  exact Nat.lt_succ_of_le (List.dropWhile_sublist _).length_le

/-- Every drawdown reported for a curve: the completed ones, then the one in progress. -/
def reported (pts : List Pt) : List Drawdown := (decompose pts).1 ++ (decompose pts).2.toList

/-- "The maximum drawdown is the largest of the drawdowns reported" (the earliest one among
equally deep ones; `none` when nothing was reported). -/
def specMax (ds : List Drawdown) : Option Drawdown :=
  ds.find? (fun d => ds.all (fun d' => d'.value.abs ≤ d.value.abs))

/-- Exact average depth. -/
def avgDepth (ds : List Drawdown) : Rat := (ds.map (·.value)).sum / (ds.length : Nat)

/-- Sum of the durations (ms). -/
def sumDuration (ds : List Drawdown) : Int := (ds.map (·.duration)).sum

/-- One step of the incremental integer average `m ← m + (d - m) / k` (truncating division);
`acc = (mean so far, number of durations so far)`. -/
def stepMs (acc : Int × Nat) (x : Drawdown) : Int × Nat :=
  (acc.1 + Int.tdiv (x.duration - acc.1) (acc.2 + 1 : Nat), acc.2 + 1)

/-- The mean duration is kept in whole milliseconds (`i64`), so it cannot be the exact average: it
is the incremental integer average. `Props.C18.mean_duration_near_average` bounds its distance to
the exact average `sumDuration ds / n` by `(n - 1) / 2` ms. -/
def avgDurationMs : List Drawdown → Option Int
  | [] => none
  | d :: ds => some (ds.foldl stepMs (d.duration, 1)).1

/-- "The mean drawdown is their average in depth and duration". -/
def specMean (ds : List Drawdown) : Option MeanDrawdown :=
  match avgDurationMs ds with
  | none => none
  | some ms => some ⟨avgDepth ds, ms⟩

/-- All running maxima of the curve are positive (equivalently: its first value is). -/
def PositivePeaks : List Pt → Prop
  | [] => True
  | p :: _ => 0 < p.v

instance : DecidablePred PositivePeaks := fun pts =>
  match pts with
  | [] => isTrue trivial
  | p :: _ => inferInstanceAs (Decidable (0 < p.v))

end BarterModel.Drawdown
