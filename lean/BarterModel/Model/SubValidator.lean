/-
Model of the subscription validation of the market-data connectors:

* `barter-data/src/subscriber/validator.rs` — `WebSocketSubValidator::validate` (the loop over incoming
  websocket items, expected-response counting, timeout, error cases): `run`;
* the per-connector `impl Validator for <SubResponse>`:
  `barter-data/src/exchange/{binance,bybit,bitmex,coinbase,gateio,kraken,okx,bitfinex}/subscription.rs`;
* `barter-data/src/exchange/bitfinex/validator.rs` — `BitfinexWebSocketSubValidator::validate`, which also
  re-keys the instrument map from `channel|market` to the venue's channel id: `runBfx`;
* `Connector::expected_responses` / `subscription_timeout` (`exchange/mod.rs:124-135` and the overrides in
  `binance/mod.rs:97`, `bybit/mod.rs:106`, `bitmex/mod.rs:76`).

The websocket and the clock are inputs. A validation run is given the list of everything the socket would
yield, in order, already passed through `WebSocketParser::parse::<SubResponse>` (`Frame`): a deserialised
response, a text/binary payload that does not deserialise (identified by a number), a close frame, a
ping/pong, a transport error, and `wait ms` = "nothing arrives for `ms` milliseconds". The end of the list is
the end of the stream (`websocket.next()` yields `None`). Deserialisation itself (serde) is not modelled;
the harness feeds JSON through the real deserialisers.

After the concrete models comes the abstract specification (`scan`, `scanBfx`): written over the *history*
of consumed frames (how many confirmations it contains, which payloads follow the first confirmation, how
long the line has been silent), not over threaded counters.
-/
namespace BarterModel.SubValidator

/-! ## Per-connector subscription responses and their `Validator::validate` -/

/-- Classes of `SocketError::Subscribe(..)` a response's `validate` can produce. -/
inductive RespErr where
  /-- "received failure subscription response ..." -/
  | failure
  /-- Bybit: "received other message out of sequence" -/
  | outOfSequence
  /-- Bitfinex: "... is in maintenance mode" -/
  | maintenance
  deriving DecidableEq, Repr, Inhabited

/-- `BinanceSubResponse { result: Option<Vec<String>>, id }` (binance/subscription.rs:24-28); only the
length of `result` is kept. -/
structure BinanceResp where
  result : Option Nat
  deriving DecidableEq, Repr

/-- binance/subscription.rs:30-43. `none` = `Ok(self)`. -/
def BinanceResp.validate (r : BinanceResp) : Option RespErr :=
  if r.result.isNone then none else some .failure

/-- `BybitReturnMessage` (bybit/subscription.rs:33-41); an absent `ret_msg` defaults to `None`. -/
inductive BybitMsg where
  | none
  | pong
  | subscribe
  deriving DecidableEq, Repr

/-- `BybitResponse { success, ret_msg }` (bybit/subscription.rs:26-31). -/
structure BybitResp where
  success : Bool
  retMsg : BybitMsg
  deriving DecidableEq, Repr

/-- bybit/subscription.rs:49-69. -/
def BybitResp.validate (r : BybitResp) : Option RespErr :=
  match r.retMsg with
  | .none | .subscribe => if r.success then none else some .failure
  | _ => some .outOfSequence

/-- `BitmexSubResponse { success, subscribe }` (bitmex/subscription.rs:19-23). -/
structure BitmexResp where
  success : Bool
  deriving DecidableEq, Repr

/-- bitmex/subscription.rs:25-39. -/
def BitmexResp.validate (r : BitmexResp) : Option RespErr :=
  if r.success then none else some .failure

/-- `CoinbaseSubResponse` (coinbase/subscription.rs:26-36); `Subscribed` keeps the number of channels. -/
inductive CoinbaseResp where
  | subscribed (channels : Nat)
  | error
  deriving DecidableEq, Repr

/-- coinbase/subscription.rs:51-64. -/
def CoinbaseResp.validate : CoinbaseResp → Option RespErr
  | .subscribed _ => none
  | .error => some .failure

/-- `GateioSubResponse = GateioMessage<GateioSubResult>` (gateio/subscription.rs:7, gateio/message.rs:58-64):
`error: Option<GateioError>` (its code is kept). -/
structure GateioResp where
  error : Option Nat
  deriving DecidableEq, Repr

/-- gateio/subscription.rs:21-34. -/
def GateioResp.validate (r : GateioResp) : Option RespErr :=
  match r.error with
  | none => none
  | some _ => some .failure

/-- `KrakenSubResponse` (kraken/subscription.rs:36-47). -/
inductive KrakenResp where
  | subscribed (channelId : Nat)
  | error
  deriving DecidableEq, Repr

/-- kraken/subscription.rs:49-62. -/
def KrakenResp.validate : KrakenResp → Option RespErr
  | .subscribed _ => none
  | .error => some .failure

/-- `OkxSubResponse` (okx/subscription.rs:46-56). -/
inductive OkxResp where
  | subscribed
  | error (code : Nat)
  deriving DecidableEq, Repr

/-- okx/subscription.rs:58-71. -/
def OkxResp.validate : OkxResp → Option RespErr
  | .subscribed => none
  | .error _ => some .failure

/-- `BitfinexPlatformEvent` (bitfinex/subscription.rs:39-46): `PlatformStatus` keeps `Status::Operative`
as a Boolean; `Subscribed` keeps channel, market (symbol) and channel id; `Error` its code. -/
inductive BfxEvent where
  | platformStatus (operative : Bool)
  | subscribed (channel market chanId : Nat)
  | error (code : Nat)
  deriving DecidableEq, Repr

/-- bitfinex/subscription.rs:48-69. -/
def BfxEvent.validate : BfxEvent → Option RespErr
  | .platformStatus true => none
  | .platformStatus false => some .maintenance
  | .subscribed _ _ _ => none
  | .error _ => some .failure

/-- The connectors in scope. -/
inductive Exchange where
  | binance | bybit | bitmex | coinbase | gateio | kraken | okx | bitfinex
  deriving DecidableEq, Repr, Inhabited

/-- `Connector::expected_responses(&map)`: `map.0.len()` by default (exchange/mod.rs:127-129); Binance,
Bybit and Bitmex answer one request carrying all subscriptions with one response (their overrides). -/
def expectedResponses (ex : Exchange) (mapLen : Nat) : Nat :=
  match ex with
  | .binance | .bybit | .bitmex => 1
  | _ => mapLen

/-- `DEFAULT_SUBSCRIPTION_TIMEOUT` (exchange/mod.rs:45), in ms; no connector overrides it. -/
def subscriptionTimeoutMs (_ : Exchange) : Nat := 10000

/-- A response of any of the seven connectors that use the generic validator. -/
inductive Resp where
  | binance (r : BinanceResp)
  | bybit (r : BybitResp)
  | bitmex (r : BitmexResp)
  | coinbase (r : CoinbaseResp)
  | gateio (r : GateioResp)
  | kraken (r : KrakenResp)
  | okx (r : OkxResp)
  deriving DecidableEq, Repr

def Resp.validate : Resp → Option RespErr
  | .binance r => r.validate
  | .bybit r => r.validate
  | .bitmex r => r.validate
  | .coinbase r => r.validate
  | .gateio r => r.validate
  | .kraken r => r.validate
  | .okx r => r.validate

/-! ## What the socket yields -/

/-- One item of the input: a websocket stream item after `WebSocketParser::parse::<R>`
(barter-integration/src/protocol/websocket.rs:37-61), or a silence. -/
inductive Frame (R : Type) where
  /-- text/binary message that deserialises into the connector's `SubResponse` -/
  | resp (r : R)
  /-- text/binary message that does not: `Some(Err(SocketError::Deserialise { payload, .. }))` -/
  | other (payload : Nat)
  /-- close frame: `Some(Err(SocketError::Terminated(..)))` -/
  | close
  /-- ping / pong: the parser returns `None` -/
  | skip
  /-- the stream yields `Err(ws_err)`: `Some(Err(SocketError::WebSocket(..)))`, which the validator's
  catch-all arm ignores; tokio-tungstenite's stream is fused after an error, so the next poll yields `None` -/
  | transportErr
  /-- nothing arrives for `ms` milliseconds -/
  | wait (ms : Nat)
  deriving DecidableEq, Repr

/-- Errors of a validation run (all are `SocketError::Subscribe(..)` in the code). -/
inductive ValErr where
  /-- "subscription validation timeout reached" -/
  | timeout
  /-- "WebSocket stream terminated unexpectedly" -/
  | ended
  /-- "received WebSocket CloseFrame" -/
  | closed
  /-- the error of a response's `validate` -/
  | rejected (e : RespErr)
  deriving DecidableEq, Repr, Inhabited

deriving instance DecidableEq for Except

/-! ## `WebSocketSubValidator::validate` (subscriber/validator.rs:41-127) -/

/-- Loop state: `success_responses`, `buff_active_subscription_events`, and the time the current
`tokio::time::sleep(timeout)` has been running (a fresh sleep is created on every loop iteration, i.e.
after every item the stream yields). -/
structure St where
  successes : Nat := 0
  buffered : List Nat := []
  idle : Nat := 0
  deriving DecidableEq, Repr

/-- Result: the buffered payloads and what is left unread in the socket (the instrument map is returned
unchanged by the generic validator), or the error. -/
abbrev Res (R : Type) := Except ValErr (List Nat × List (Frame R))

/-- The loop of subscriber/validator.rs:61-126. `validate r = none` is `Ok(response)`. -/
def run {R : Type} (validate : R → Option RespErr) (timeout expected : Nat) :
    St → List (Frame R) → Res R
  | st, [] =>
    -- :63 all subscriptions were a success / :78 `None => Err("terminated unexpectedly")`
    if st.successes == expected then .ok (st.buffered, []) else .error .ended
  | st, f :: rest =>
    if st.successes == expected then .ok (st.buffered, f :: rest) else
    match f with
    | .wait d =>
      -- :70-74 the sleep started at the top of this iteration elapses first
      if timeout ≤ st.idle + d then .error .timeout
      else run validate timeout expected { st with idle := st.idle + d } rest
    | .resp r =>
      match validate r with
      | none => run validate timeout expected { st with successes := st.successes + 1, idle := 0 } rest  -- :84-93
      | some e => .error (.rejected e)                                                                    -- :96
    | .other p =>
      -- :98-103 buffered only once a subscription is active, otherwise the catch-all arm
      if 1 ≤ st.successes then
        run validate timeout expected { st with buffered := st.buffered ++ [p], idle := 0 } rest
      else run validate timeout expected { st with idle := 0 } rest
    | .close => .error .closed                                                                            -- :104-108
    | .transportErr => .error .ended                      -- :109-112 ignored, then the fused stream yields `None`
    | .skip => run validate timeout expected { st with idle := 0 } rest                                   -- :109-112

/-- `WebSocketSubValidator::validate::<Exchange, _, _>(instrument_map, websocket)`. -/
def validateGeneric (ex : Exchange) (mapLen : Nat) (frames : List (Frame Resp)) : Res Resp :=
  run Resp.validate (subscriptionTimeoutMs ex) (expectedResponses ex mapLen) {} frames

/-! ## `BitfinexWebSocketSubValidator::validate` (bitfinex/validator.rs:39-148) -/

/-- `SubscriptionId`s occurring in the Bitfinex instrument map: `"{channel}|{market}"` as built by
`ExchangeSub::id` before validation, the decimal channel id after. A decimal number contains no `|`, so the
two forms never coincide as strings. -/
inductive Key where
  | sub (channel market : Nat)
  | chan (id : Nat)
  deriving DecidableEq, Repr

/-- `Map<Instrument>` = `FnvHashMap<SubscriptionId, Instrument>` as an association list (instruments are
numbers). Iteration order is not observable (the drivers sort). -/
abbrev IMap := List (Key × Nat)

/-- `HashMap::get`. -/
def IMap.get (m : IMap) (k : Key) : Option Nat := (m.find? (fun e => e.1 == k)).map (·.2)

/-- The map part of `HashMap::remove`. -/
def IMap.erase (m : IMap) (k : Key) : IMap := m.filter (fun e => e.1 != k)

/-- `HashMap::insert`: replaces an existing entry of the same key. -/
def IMap.insert (m : IMap) (k : Key) (v : Nat) : IMap := (k, v) :: m.erase k

/-- `Map::from_iter` (later entries of the same key win). -/
def IMap.ofList (es : List (Key × Nat)) : IMap := es.foldl (fun m e => m.insert e.1 e.2) []

structure BfxSt where
  map : IMap
  successes : Nat := 0
  snapshots : Nat := 0
  buffered : List Nat := []
  idle : Nat := 0
  deriving DecidableEq, Repr

abbrev BfxRes := Except ValErr (IMap × List Nat × List (Frame BfxEvent))

/-- The loop of bitfinex/validator.rs:62-146. -/
def runBfx (timeout expected : Nat) : BfxSt → List (Frame BfxEvent) → BfxRes
  | st, [] =>
    if st.successes == expected && st.snapshots == expected then .ok (st.map, st.buffered, [])
    else .error .ended
  | st, f :: rest =>
    -- :64-69
    if st.successes == expected && st.snapshots == expected then .ok (st.map, st.buffered, f :: rest) else
    match f with
    | .wait d =>
      if timeout ≤ st.idle + d then .error .timeout
      else runBfx timeout expected { st with idle := st.idle + d } rest
    | .resp ev =>
      match ev.validate, ev with
      | some e, _ => .error (.rejected e)                                                  -- :121
      | none, .subscribed c m id =>
        -- :99-118 replace SubscriptionId(channel|market) by SubscriptionId(channel_id)
        match st.map.get (.sub c m) with
        | some ins =>
          runBfx timeout expected
            { st with map := (st.map.erase (.sub c m)).insert (.chan id) ins,
                      successes := st.successes + 1, idle := 0 } rest
        | none => runBfx timeout expected { st with idle := 0 } rest
      | none, _ => runBfx timeout expected { st with idle := 0 } rest                      -- :88-96 platform status
    | .other p =>
      -- :126-131 counted as an initial snapshot once a subscription is active
      if 1 ≤ st.successes then
        runBfx timeout expected
          { st with snapshots := st.snapshots + 1, buffered := st.buffered ++ [p], idle := 0 } rest
      else runBfx timeout expected { st with idle := 0 } rest
    | .close => .error .closed
    | .transportErr => .error .ended
    | .skip => runBfx timeout expected { st with idle := 0 } rest

/-- `BitfinexWebSocketSubValidator::validate::<Bitfinex, _, _>(instrument_map, websocket)`. -/
def validateBfx (map : IMap) (frames : List (Frame BfxEvent)) : BfxRes :=
  runBfx (subscriptionTimeoutMs .bitfinex) (expectedResponses .bitfinex map.length) { map := map } frames

/-! ## Abstract specification (from the documented intent)

`Connector::expected_responses`: "Number of `Subscription` responses expected from the execution server in
responses to the requests send. Used to validate all `Subscription`s were accepted."
`Connector::subscription_timeout`: "Expected `Duration` the `SubscriptionValidator` will wait to receive all
success responses". Validator comments: "Break if all Subscriptions were a success", "If timeout reached,
return SubscribeError", "Subscription failure", "Most likely already active subscription payload, so add to
market event buffer for post validation processing", "Pings, Pongs, Frames, etc.".

So: validation succeeds at the first moment the history of the connection contains the expected number of
accepted responses; it fails at the first rejected response, close frame, end of stream or timeout before
that moment; the payloads that followed the first accepted response are handed back, in order, and nothing
after the deciding frame is taken from the socket. Everything below is a function of the consumed history. -/

section Spec
variable {R : Type}

/-- the frame is a response the connector accepts -/
def isSuccess (validate : R → Option RespErr) : Frame R → Bool
  | .resp r => (validate r).isNone
  | _ => false

def isWait : Frame R → Bool
  | .wait _ => true
  | _ => false

def waitMs : Frame R → Nat
  | .wait d => d
  | _ => 0

/-- payloads of the messages that are not subscription responses, in order -/
def others (l : List (Frame R)) : List Nat :=
  l.filterMap fun
    | .other p => some p
    | _ => none

/-- number of accepted responses in the history -/
def successCount (validate : R → Option RespErr) (pre : List (Frame R)) : Nat :=
  pre.countP (isSuccess validate)

/-- market events of already active subscriptions: what arrived after the first accepted response -/
def bufferedOf (validate : R → Option RespErr) (pre : List (Frame R)) : List Nat :=
  others (pre.dropWhile (fun f => !isSuccess validate f))

/-- how long the line has been silent: the waits since the last frame -/
def silence (pre : List (Frame R)) : Nat :=
  ((pre.reverse.takeWhile isWait).map waitMs).sum

/-- total time since validation started -/
def elapsed (pre : List (Frame R)) : Nat := (pre.map waitMs).sum

/-- Does the next item end the validation with an error, given the history? `quiet` measures the time the
timeout is compared with. -/
def fatal (validate : R → Option RespErr) (timeout : Nat) (quiet : List (Frame R) → Nat)
    (pre : List (Frame R)) : Frame R → Option ValErr
  | .wait d => if timeout ≤ quiet pre + d then some .timeout else none
  | .resp r => (validate r).map .rejected
  | .close => some .closed
  | .transportErr => some .ended
  | _ => none

/-- Specification of a validation run, over the history `pre` of consumed items: complete as soon as
`complete pre`; otherwise the next item is fatal, or joins the history. -/
def scanWith {α : Type} (complete : List (Frame R) → Bool) (result : List (Frame R) → List (Frame R) → α)
    (fatalNext : List (Frame R) → Frame R → Option ValErr) :
    List (Frame R) → List (Frame R) → Except ValErr α
  | pre, [] => if complete pre then .ok (result pre []) else .error .ended
  | pre, f :: rest =>
    if complete pre then .ok (result pre (f :: rest)) else
    match fatalNext pre f with
    | some e => .error e
    | none => scanWith complete result fatalNext (pre ++ [f]) rest

/-- Generic validator: complete when the history holds `expected` accepted responses. The timeout is
measured per silence (`silence`), which is what the code's per-iteration `sleep` does. -/
def spec (validate : R → Option RespErr) (timeout expected : Nat) (frames : List (Frame R)) : Res R :=
  scanWith (fun pre => successCount validate pre == expected)
    (fun pre rest => (bufferedOf validate pre, rest))
    (fatal validate timeout silence) [] frames

/-- The other reading of `subscription_timeout` ("will wait to receive all success responses"): one
deadline for the whole validation. -/
def specDeadline (validate : R → Option RespErr) (timeout expected : Nat) (frames : List (Frame R)) : Res R :=
  scanWith (fun pre => successCount validate pre == expected)
    (fun pre rest => (bufferedOf validate pre, rest))
    (fatal validate timeout elapsed) [] frames

end Spec

/-! ### Bitfinex -/

/-- the subscription (`channel|market` key) a frame confirms, with the channel id it announces -/
def confOf : Frame BfxEvent → Option (Key × Nat)
  | .resp (.subscribed c m id) => some (.sub c m, id)
  | _ => none

/-- the confirmations in the history, in order -/
def confirmations (pre : List (Frame BfxEvent)) : List (Key × Nat) := pre.filterMap confOf

/-- channel id the venue assigned to a subscription: its first confirmation -/
def chanIdOf (pre : List (Frame BfxEvent)) (k : Key) : Option Nat :=
  ((confirmations pre).find? (fun e => e.1 == k)).map (·.2)

/-- the frame confirms a subscription of the original map -/
def isHit (map0 : IMap) (f : Frame BfxEvent) : Bool :=
  match confOf f with
  | some (k, _) => (map0.get k).isSome
  | none => false

/-- number of subscriptions of the original map the history confirms -/
def hitCount (map0 : IMap) (pre : List (Frame BfxEvent)) : Nat :=
  (map0.filter (fun e => (chanIdOf pre e.1).isSome)).length

/-- what arrived after the first confirmation (initial snapshots, trades, heartbeats ...) -/
def snapshotsOf (map0 : IMap) (pre : List (Frame BfxEvent)) : List Nat :=
  others (pre.dropWhile (fun f => !isHit map0 f))

/-- a confirmed subscription moves to its channel id, an unconfirmed one stays -/
def rekeyEntry (pre : List (Frame BfxEvent)) (e : Key × Nat) : Key × Nat :=
  match chanIdOf pre e.1 with
  | some id => (.chan id, e.2)
  | none => e

/-- The instrument map keyed by the venue's channel ids. -/
def rekey (map0 : IMap) (pre : List (Frame BfxEvent)) : IMap := map0.map (rekeyEntry pre)

/-- the venue gave the confirmed subscriptions pairwise different channel ids -/
def distinctIds (map0 : IMap) (pre : List (Frame BfxEvent)) : Bool :=
  decide ((map0.filterMap (fun e => chanIdOf pre e.1)).Nodup)

/-- Bitfinex: complete when every subscription is confirmed and as many follow-up payloads as
subscriptions have arrived (the code's "Bitfinex sends snapshots as the first message, so count them also"). -/
def specBfx (timeout : Nat) (map0 : IMap) (frames : List (Frame BfxEvent)) : BfxRes :=
  scanWith
    (fun pre => hitCount map0 pre == map0.length && (snapshotsOf map0 pre).length == map0.length)
    (fun pre rest => (rekey map0 pre, snapshotsOf map0 pre, rest))
    (fatal BfxEvent.validate timeout silence) [] frames

def specBfxDeadline (timeout : Nat) (map0 : IMap) (frames : List (Frame BfxEvent)) : BfxRes :=
  scanWith
    (fun pre => hitCount map0 pre == map0.length && (snapshotsOf map0 pre).length == map0.length)
    (fun pre rest => (rekey map0 pre, snapshotsOf map0 pre, rest))
    (fatal BfxEvent.validate timeout elapsed) [] frames

/-! ## What the connectors document as their success / failure payloads

Abstract content of the example payloads in the doc comments of the `subscription.rs` files. Gateio's
documented failure payload carries `"result": null`, which `GateioMessage<GateioSubResult>` cannot
deserialise (`data: GateioSubResult` is not optional): it has no `Resp` value. -/
def docOk : Exchange → Option Resp
  | .binance => some (.binance ⟨none⟩)
  | .bybit => some (.bybit ⟨true, .subscribe⟩)
  | .bitmex => some (.bitmex ⟨true⟩)
  | .coinbase => some (.coinbase (.subscribed 1))
  | .gateio => some (.gateio ⟨none⟩)
  | .kraken => some (.kraken (.subscribed 10001))
  | .okx => some (.okx .subscribed)
  | .bitfinex => none

def docFail : Exchange → Option Resp
  | .binance => some (.binance ⟨some 0⟩)
  | .bybit => some (.bybit ⟨false, .none⟩)
  | .bitmex => some (.bitmex ⟨false⟩)
  | .coinbase => some (.coinbase .error)
  | .gateio => none
  | .kraken => some (.kraken .error)
  | .okx => some (.okx (.error 60012))
  | .bitfinex => none

/-! ## Added after the review of the sub-check theorems (specification vocabulary only) -/

/-- `Map::from_iter` said without a map: the instrument under key `k` is the one of the LAST entry of the
list that carries `k`; none if no entry does. (The spec driver prints the generic validators' `map` line from
this function of the `init` op; `Props.C13S.ofList_get_is_last_entry` relates it to `IMap.ofList`.) -/
def lastEntry (es : List (Key × Nat)) (k : Key) : Option Nat :=
  (es.reverse.find? (fun e => e.1 == k)).map (·.2)

end BarterModel.SubValidator
