import BarterModel.Model.ExecMap
/-!
# Execution manager (C07) — concrete model and abstract spec

Concrete model of `ExecutionManager::run` (`barter/src/execution/manager.rs:221-416`) and
`RequestFuture` (`barter/src/execution/request.rs:24-57`) as a **labelled transition system**:

* state  = virtual clock, run status, the requests in flight (`in_flight_cancels` ∪ `in_flight_opens`),
           the events sent on `response_tx`, plus ghost logs (accepted / resolved / dropped) that
           the code does not keep and that exist only so that theorems can talk about histories;
* labels = `intake q` (the select arm on `request_stream.next()`), `poll rid` (one of the two select
           arms on `in_flight_*.select_next_some()` yielding the request `rid`), `tick dt` (time
           passes), `shutdown` (`ExecutionRequest::Shutdown` / request stream closed).

A *schedule* is any list of labels; theorems quantify over all of them. What is deliberately not
modelled: `FuturesUnordered` (which ready future is yielded first), `tokio::select!` fairness (that
a ready arm is eventually taken), timer-wheel granularity and wake-ups. The model therefore allows
**late polls** (`tick` past both the response time and the deadline before `poll`).

The `ExecutionClient` is a parameter: each request carries the `Script` of what the client will do
with it (respond after a delay or never; what it echoes). The indexer (`AccountEventIndexer`) is
modelled as the identity on configured keys and as failing elsewhere (C04 is about the indexer).

The client's answer (`Reply`) covers the whole of `UnindexedOrderError`
(`barter-execution/src/error.rs:104-118`): `Connectivity(Timeout | ExchangeOffline | Socket)` as the
CLIENT's answer (passed through unchanged by `order_error`, indexer.rs:253-258 — distinct from the
manager's own timeout FATE, although `Connectivity(Timeout)` is the same error VALUE), and every
`Rejected(ApiError::_)`: `AssetInvalid` / `BalanceInsufficient` name an asset and go through
`find_asset_index`, `InstrumentInvalid` names an instrument (`find_instrument_index`), the rest
(`RateLimit`, `OrderRejected`, `OrderAlreadyCancelled`, `OrderAlreadyFullyFilled`) name nothing
(`api_error`, indexer.rs:203-220). A name the indexer does not know makes the whole response
unindexable: it is logged and skipped (`continue`, manager.rs:282-289 / 308-315).

Core Lean only.
-/
namespace BarterModel.ExecManager

/-- virtual time in ticks (the harness uses 1 tick = 10 ms) -/
abbrev Time := Nat

/-- `ExecutionRequest::Open` / `ExecutionRequest::Cancel` (request.rs:13-22); also the kind of the
resulting account event (`OrderSnapshot` for opens, `OrderCancelled` for cancels). -/
inductive Kind
  | open
  | cancel
  deriving DecidableEq, Repr

/-- `OrderKey { exchange, instrument, strategy, cid }` (barter-execution/src/order/mod.rs). -/
structure Key where
  exchange : Nat
  instrument : Nat
  strategy : Nat
  cid : Nat
  deriving DecidableEq, Repr

/-- `ConnectivityError` (`barter-execution/src/error.rs:50-62`) as the CLIENT's answer
`Err(UnindexedOrderError::Connectivity(_))`. -/
inductive Conn
  /-- `ConnectivityError::Timeout` — the same VALUE the manager builds for its own timeout -/
  | timeout
  /-- `ConnectivityError::ExchangeOffline(exchange)` -/
  | offline
  /-- `ConnectivityError::Socket(text)` -/
  | socket
  deriving DecidableEq, Repr

/-- The `ApiError`s that carry no asset / instrument name besides `OrderRejected`
(`error.rs:89-99`): the indexer passes them through (`api_error`, indexer.rs:205, 216-218). -/
inductive Nameless
  | rateLimit
  | orderAlreadyCancelled
  | orderAlreadyFullyFilled
  deriving DecidableEq, Repr

/-- Content of the client's own answer — `Result<Open | Cancelled, UnindexedOrderError>`
(`error.rs:104-118`): accepted (`Ok(Open)` / `Ok(Cancelled)`); `Rejected(ApiError::OrderRejected)`
(`rejected`, names nothing); `Rejected(ApiError::InstrumentInvalid(name, _))` (the indexer has to
translate the instrument name); `Connectivity(_)` as the client's answer; `Rejected(AssetInvalid
(asset, _))` / `Rejected(BalanceInsufficient(asset, _))` (the indexer has to translate the ASSET
name, `find_asset_index`); the remaining nameless `ApiError`s. Names are `Nat`s. -/
inductive Reply
  | ok
  | rejected
  | invalidIns (i : Nat)
  | connectivity (e : Conn)
  | assetInvalid (a : Nat)
  | balanceInsufficient (a : Nat)
  | nameless (k : Nameless)
  deriving DecidableEq, Repr

/-- What the scripted `ExecutionClient` does with one request. `delay = none`: never answers.
`fills`: an accepted open is reported with `filled_quantity = quantity` (ignored for cancels).
`echo`/`echoBody`: the key and the static order fields the client puts in its answer. -/
structure Script where
  delay : Option Nat
  reply : Reply
  fills : Bool
  echo : Key
  echoBody : Nat
  deriving DecidableEq, Repr

/-- An engine request together with the client's behaviour for it. `body` stands for the static
fields of `RequestOpen` (side, price, quantity, kind, time in force); 0 for cancels. -/
structure ReqSpec where
  kind : Kind
  key : Key
  body : Nat
  script : Script
  deriving DecidableEq, Repr

/-- An accepted request = a `RequestFuture` in flight: `rid` is its intake sequence number (ghost
identity; the code has none), `t0` the intake time (when `tokio::time::timeout` was armed). -/
structure Req where
  rid : Nat
  t0 : Nat
  spec : ReqSpec
  deriving DecidableEq, Repr

/-- `ExecutionManager { request_timeout, indexer.map }`: the manager's own exchange, the number of
instruments configured for it, the request timeout, and the number of ASSETS configured for it
(`ExecutionInstrumentMap.asset_names`, map.rs:26; default 0 = no asset is known, which is what the
C07 harness configured before the alphabet was extended). -/
structure Cfg where
  exchange : Nat
  nInstr : Nat
  timeout : Nat
  nAssets : Nat := 0
  deriving Repr

inductive Outcome
  | ok            -- open: `OrderState::active(open)`; cancel: `Ok(Cancelled)`
  | full          -- open only: `OrderState::fully_filled()`
  | rejected      -- `OrderError::Rejected(ApiError::OrderRejected)`
  | invalidIns (i : Nat)   -- `OrderError::Rejected(ApiError::InstrumentInvalid(index i))`
  | timeout       -- `OrderError::Connectivity(ConnectivityError::Timeout)` (the manager's own, or the client's answer)
  | offline       -- `OrderError::Connectivity(ConnectivityError::ExchangeOffline(_))`
  | socket        -- `OrderError::Connectivity(ConnectivityError::Socket(_))`
  | assetInvalid (a : Nat)          -- `OrderError::Rejected(ApiError::AssetInvalid(index a, _))`
  | balanceInsufficient (a : Nat)   -- `OrderError::Rejected(ApiError::BalanceInsufficient(index a, _))`
  | nameless (k : Nameless)         -- `RateLimit` / `OrderAlreadyCancelled` / `OrderAlreadyFullyFilled`
  deriving DecidableEq, Repr

/-- `AccountStreamEvent::Item(AccountEvent { exchange, kind })` with
`kind = OrderSnapshot(order)` (`Kind.open`) or `OrderCancelled(response)` (`Kind.cancel`). -/
structure Event where
  kind : Kind
  exchange : Nat
  key : Key
  body : Nat
  outcome : Outcome
  deriving DecidableEq, Repr

inductive Fate
  | response
  | timeout
  deriving DecidableEq, Repr

inductive Status
  | running
  | stopped
  | panicked
  deriving DecidableEq, Repr

/-- Ghost record: request `req` left the in-flight set at time `time` with `fate`. -/
structure Resolution where
  req : Req
  fate : Fate
  time : Nat
  deriving DecidableEq, Repr

structure State where
  now : Nat := 0
  status : Status := .running
  /-- `in_flight_cancels` ∪ `in_flight_opens` (manager.rs:222-223) -/
  pending : List Req := []
  /-- everything sent on `response_tx` (manager.rs:297, 323), oldest first -/
  out : List Event := []
  /-- ghost: every request taken from the request stream and pushed in flight -/
  accepted : List Req := []
  /-- ghost: every request whose `RequestFuture` completed -/
  resolved : List Resolution := []
  /-- ghost: requests still in flight when the loop was left -/
  dropped : List Req := []
  deriving Repr

inductive Action
  | intake (q : ReqSpec)
  | tick (dt : Nat)
  | poll (rid : Nat)
  | shutdown
  deriving DecidableEq, Repr

/-! ## Indexer: identity on configured keys (`barter-execution/src/indexer.rs`, `map.rs`) -/

/-- `find_exchange_id`/`find_exchange_index` succeed only for the manager's own exchange,
`find_instrument_*` only for configured instruments. -/
def Cfg.configured (c : Cfg) (k : Key) : Bool :=
  k.exchange == c.exchange && decide (k.instrument < c.nInstr)

/-- `AccountEventIndexer::order_key` (indexer.rs:188-202). -/
def indexKey (c : Cfg) (k : Key) : Option Key :=
  if c.configured k then some k else none

/-- `ExecutionInstrumentMap::find_asset_index` (map.rs:89-93): a lookup of the asset NAME in
`asset_names`; identity on the configured names `0 … nAssets-1`, `IndexError::AssetIndex` elsewhere. -/
def findAssetIndex (c : Cfg) (a : Nat) : Option Nat :=
  if a < c.nAssets then some a else none

/-- `AccountEventIndexer::order_error` / `api_error` (indexer.rs:203-220, 253-258): connectivity
errors and nameless API errors pass through; instrument- and asset-carrying ones are translated
and FAIL on an unknown name (`?`). -/
def indexReply (c : Cfg) : Reply → Option Outcome
  | .ok => some .ok
  | .rejected => some .rejected
  | .invalidIns i => if i < c.nInstr then some (.invalidIns i) else none
  | .connectivity .timeout => some .timeout
  | .connectivity .offline => some .offline
  | .connectivity .socket => some .socket
  | .assetInvalid a => (findAssetIndex c a).map .assetInvalid
  | .balanceInsufficient a => (findAssetIndex c a).map .balanceInsufficient
  | .nameless k => some (.nameless k)

/-! ## `RequestFuture` = `tokio::time::Timeout` (request.rs:32-56) -/

def Req.respAt (r : Req) : Option Nat := r.spec.script.delay.map (r.t0 + ·)

def Cfg.deadline (c : Cfg) (r : Req) : Nat := r.t0 + c.timeout

def Req.respReady (r : Req) (now : Nat) : Bool :=
  match r.respAt with
  | some a => decide (a ≤ now)
  | none => false

/-- One poll of a `RequestFuture` at time `now`. tokio's `Timeout::poll` polls the inner future
first and only then the deadline: if the client's answer is there it wins, whatever the clock says. -/
def pollReq (c : Cfg) (r : Req) (now : Nat) : Option Fate :=
  if r.respReady now then some .response
  else if c.deadline r ≤ now then some .timeout
  else none

/-- Earliest time at which a poll completes the future. -/
def Cfg.readyAt (c : Cfg) (r : Req) : Nat :=
  match r.respAt with
  | some a => min a (c.deadline r)
  | none => c.deadline r

/-! ## `process_*` (manager.rs:337-416) -/

/-- `process_open_response` (manager.rs:363-397): key and error names through the indexer; the
static fields are the ones in the client's answer; `Ok(open)` with nothing left to fill is
`fully_filled`. -/
def openOutcome (c : Cfg) (sc : Script) : Option Outcome :=
  match sc.reply with
  | .ok => some (if sc.fills then .full else .ok)
  -- `Err(error) => OrderState::inactive(self.indexer.order_error(error)?)`
  | r => indexReply c r

def processOpenResponse (c : Cfg) (r : Req) : Option Event :=
  match indexKey c r.spec.script.echo with
  | none => none
  | some key =>
    match openOutcome c r.spec.script with
    | none => none
    | some o => some ⟨.open, key.exchange, key, r.spec.script.echoBody, o⟩

/-- `process_open_timeout` (manager.rs:399-416): built from the original request. -/
def processOpenTimeout (r : Req) : Event :=
  ⟨.open, r.spec.key.exchange, r.spec.key, r.spec.body, .timeout⟩

/-- `process_cancel_response` (manager.rs:337-347) via `order_response_cancel` (indexer.rs:173-186). -/
def processCancelResponse (c : Cfg) (r : Req) : Option Event :=
  match indexKey c r.spec.script.echo with
  | none => none
  | some key =>
    match indexReply c r.spec.script.reply with
    | none => none
    | some o => some ⟨.cancel, key.exchange, key, 0, o⟩

/-- `process_cancel_timeout` (manager.rs:349-361). -/
def processCancelTimeout (r : Req) : Event :=
  ⟨.cancel, r.spec.key.exchange, r.spec.key, 0, .timeout⟩

/-- The event (if any: an unindexable answer is logged and skipped, manager.rs:282-289, 308-315)
for a completed `RequestFuture`. -/
def eventOf (c : Cfg) (r : Req) : Fate → Option Event
  | .response =>
    match r.spec.kind with
    | .open => processOpenResponse c r
    | .cancel => processCancelResponse c r
  | .timeout =>
    match r.spec.kind with
    | .open => some (processOpenTimeout r)
    | .cancel => some (processCancelTimeout r)

/-! ## The transition system (manager.rs:225-329) -/

def step (c : Cfg) (s : State) : Action → State
  | .tick dt => { s with now := s.now + dt }
  | .intake q =>
    if s.status ≠ .running then s
    -- `indexer.order_request(&request).unwrap_or_else(|e| panic!(..))` (manager.rs:246-251, 261-266)
    else if !c.configured q.key then
      { s with status := .panicked, dropped := s.dropped ++ s.pending, pending := [] }
    else
      let r : Req := ⟨s.accepted.length, s.now, q⟩
      { s with pending := s.pending ++ [r], accepted := s.accepted ++ [r] }
  | .poll rid =>
    if s.status ≠ .running then s
    else
      match s.pending.find? (fun r => r.rid == rid) with
      | none => s
      | some r =>
        match pollReq c r s.now with
        | none => s
        | some f =>
          let out := match eventOf c r f with
            | some e => s.out ++ [e]
            | none => s.out      -- `continue`
          { s with pending := s.pending.erase r, resolved := s.resolved ++ [⟨r, f, s.now⟩], out := out }
  | .shutdown =>
    if s.status ≠ .running then s
    else { s with status := .stopped, dropped := s.dropped ++ s.pending, pending := [] }

def run (c : Cfg) (s : State) (as : List Action) : State := as.foldl (step c) s

def init : State := {}

/-! ## Schedules the driver uses (both are plain action lists: every theorem covers them) -/

/-- Poll everything that is ready now. -/
def settleSched (c : Cfg) (s : State) : List Action :=
  (s.pending.filter fun r => decide (c.readyAt r ≤ s.now)).map fun r => .poll r.rid

/-- Prompt schedule for "time advances by `dt`": every future is polled at the first instant it
can complete (what a paused-clock runtime that auto-advances timer by timer does). -/
def promptSched (c : Cfg) (s : State) (dt : Nat) : List Action :=
  let target := s.now + dt
  let due := (s.pending.filter fun r => decide (c.readyAt r ≤ target)).mergeSort
    (fun a b => decide (c.readyAt a ≤ c.readyAt b))
  let (cur, acts) := due.foldl (fun (acc : Nat × List Action) r =>
    let t := max acc.1 (c.readyAt r)
    (t, acc.2 ++ [.tick (t - acc.1), .poll r.rid])) (s.now, [])
  acts ++ [.tick (target - cur)]

/-- Late schedule: the clock jumps by `dt` first, then everything that is ready is polled once. -/
def lateSched (c : Cfg) (s : State) (dt : Nat) : List Action :=
  let target := s.now + dt
  .tick dt :: (s.pending.filter fun r => decide (c.readyAt r ≤ target)).map fun r => .poll r.rid

/-! ## Abstract spec — written from the property text

"Every open or cancel request the manager accepts yields exactly one account event for that client
order id: the client's own response if it arrives within the request timeout, otherwise a timeout
failure; attributed to the right exchange, instrument and order id."

The spec knows nothing about in-flight sets or polling: it is a function of the history of accepted
requests (what was asked, when, and what the client does with it). -/

/-- The answer the property prescribes for a request whose client echoes faithfully. -/
def specFate (timeout : Nat) (q : ReqSpec) : Fate :=
  match q.script.delay with
  | some d => if d ≤ timeout then .response else .timeout
  | none => .timeout

/-- When that answer is due (relative to acceptance). -/
def specAfter (timeout : Nat) (q : ReqSpec) : Nat :=
  match q.script.delay with
  | some d => min d timeout
  | none => timeout

/-- The client's own response as an account event, attributed to the *request's* key. -/
def specResponseEvent (q : ReqSpec) : Event :=
  let outcome : Outcome := match q.script.reply with
    | .ok => if q.kind = .open ∧ q.script.fills then .full else .ok
    | .rejected => .rejected
    | .invalidIns i => .invalidIns i
    | .connectivity .timeout => .timeout
    | .connectivity .offline => .offline
    | .connectivity .socket => .socket
    | .assetInvalid a => .assetInvalid a
    | .balanceInsufficient a => .balanceInsufficient a
    | .nameless k => .nameless k
  ⟨q.kind, q.key.exchange, q.key, if q.kind = .open then q.body else 0, outcome⟩

/-- The timeout failure for the request. -/
def specTimeoutEvent (q : ReqSpec) : Event :=
  ⟨q.kind, q.key.exchange, q.key, if q.kind = .open then q.body else 0, .timeout⟩

def specEvent (q : ReqSpec) : Fate → Event
  | .response => specResponseEvent q
  | .timeout => specTimeoutEvent q

/-- The event the property prescribes for a request that left the in-flight set with `fate`. -/
def Resolution.event (x : Resolution) : Event := specEvent x.req.spec x.fate

/-- The hypothesis `EchoesKey`: the client answers about the order it was asked about (same key,
same static fields) and any name in its error — instrument or asset — is one the manager is
configured with. -/
def echoes (c : Cfg) (q : ReqSpec) : Bool :=
  q.script.echo == q.key &&
  (q.kind != .open || q.script.echoBody == q.body) &&
  (match q.script.reply with
   | .invalidIns i => decide (i < c.nInstr)
   | .assetInvalid a | .balanceInsufficient a => decide (a < c.nAssets)
   | _ => true)

/-- What identifies "the event for that request" on the wire: kind, exchange, instrument,
strategy, client order id. -/
def Event.ident (e : Event) : Kind × Key := (e.kind, e.key)
def Req.ident (r : Req) : Kind × Key := (r.spec.kind, r.spec.key)

/-! ## Observed components added after the oracle audit (`audit/oracle/C07.md`, C07-H1 / C07-H2)

Two things the transition system above abstracts away are observable on the real code and are
modelled here, next to (not inside) `State` / `Event`, so that every theorem about the transition
system keeps its statement:

* the request the manager **hands to the client** when it takes a request in (`forwardOf`):
  `indexer.order_request(&request)` (manager.rs:246-251, 261-266 → indexer.rs:233-263), modelled by
  the C04 model of exactly that call site (`ExecMap.managerClientRequest`) on the
  `ExecutionInstrumentMap` this manager is configured with (`Cfg.emap`);
* the **payload** of the client's answer (`Open { id, time_exchange, filled_quantity }`,
  `Cancelled { id, time_exchange }`, the text / exchange inside an error) and what of it the emitted
  account event carries (`detailOf`): `process_open_response` (manager.rs:363-397) and
  `order_response_cancel` / `order_error` / `api_error` (indexer.rs:173-231, 253-258) move it
  unchanged; only `fully_filled()` and the manager's own timeout carry nothing. -/

/-- The `ExecutionInstrumentMap` of this manager (`ExecutionInstrumentMap::new`, map.rs:32-51) in the
vocabulary of the C04 model: instrument / asset index `i` ↔ exchange name `i` for the configured
ones (the identity the header of this file announces; the harness offsets the indices and undoes
the offset when printing). The exchange id of the manager's exchange is the same number as its index. -/
def Cfg.emap (c : Cfg) : ExecMap.EMap :=
  ExecMap.EMap.new ⟨c.exchange, c.exchange⟩
    ((List.range c.nAssets).map fun a => (a, a)) ((List.range c.nInstr).map fun i => (i, i))

/-- `OrderEvent<RequestOpen | RequestCancel, ExchangeId, &InstrumentNameExchange>`: what
`client.open_order` / `client.cancel_order` is called with. `exchange` is an exchange ID and
`instrument` an exchange NAME; `body` = the request's state (`RequestOpen` static fields, or the
`RequestCancel { id }`), cloned. -/
structure Forwarded where
  kind : Kind
  exchange : Nat
  instrument : Nat
  strategy : Nat
  cid : Nat
  body : Nat
  deriving DecidableEq, Repr

/-- The client request built for `q` (manager.rs:246-251 / 261-266): `none` = `order_request`
failed = the manager panics. The translation is the C04 model's `managerClientRequest`; strategy and
client order id are cloned (`ExecMap.OKey` carries them as one opaque number: the client order id
goes through it, the strategy is copied beside it). -/
def forwardOf (c : Cfg) (q : ReqSpec) : Option Forwarded :=
  match ExecMap.managerClientRequest c.emap ⟨⟨q.key.exchange, q.key.instrument, q.key.cid⟩, q.body⟩ with
  | some r => some ⟨q.kind, r.key.exchange, r.key.instrument, q.key.strategy, r.key.cid, r.state⟩
  | none => none

/-- What one action makes the manager hand to its client: only an intake while running does. -/
def forwarded (c : Cfg) (s : State) : Action → List Forwarded
  | .intake q => if s.status ≠ .running then [] else (forwardOf c q).toList
  | _ => []

/-- Spec, from the property text ("attributed to the right exchange, instrument and order id" starts
with asking the client about the right order): the client is asked about the manager's own exchange,
the exchange name of exactly the request's instrument, the same strategy / client order id / request
state. -/
def specForward (c : Cfg) (q : ReqSpec) : Forwarded :=
  ⟨q.kind, c.exchange, q.key.instrument, q.key.strategy, q.key.cid, q.body⟩

/-- `Open::quantity_remaining(quantity).is_zero()` (manager.rs:381; state.rs:91-93). -/
def nothingLeft (quantity filled : Rat) : Bool := quantity - filled == 0

/-- The part of the scripted client's answer that is neither key, static field nor verdict:
`id` = the `OrderId` of `Open` / `Cancelled` (and the tag of the text inside an error), `time` =
`time_exchange`, `filled` = `Open.filled_quantity`, `exchange` = the exchange id inside
`ConnectivityError::ExchangeOffline(_)`. -/
structure Payload where
  id : Nat := 0
  time : Nat := 0
  filled : Rat := 0
  exchange : Nat := 0
  deriving DecidableEq, Repr, Inhabited

/-- What an emitted account event carries besides key, static fields and verdict. -/
inductive Detail
  /-- `fully_filled()`, `Connectivity(Timeout)`, `RateLimit`, `OrderAlreadyCancelled`, `OrderAlreadyFullyFilled` -/
  | none
  /-- `OrderState::active(Open { id, time_exchange, filled_quantity })` -/
  | opened (id time : Nat) (filled : Rat)
  /-- `Ok(Cancelled { id, time_exchange })` -/
  | cancelled (id time : Nat)
  /-- the text inside `OrderRejected` / `InstrumentInvalid` / `AssetInvalid` / `BalanceInsufficient` / `Socket` -/
  | message (m : Nat)
  /-- `ConnectivityError::ExchangeOffline(exchange)` -/
  | offlineAt (exchange : Nat)
  deriving DecidableEq, Repr

/-- Payload of the event (if there is one: see `eventOf`) for a completed `RequestFuture`:
`process_open_response` keeps `Open` as it is unless nothing is left to fill (manager.rs:380-384),
`order_response_cancel` keeps `Cancelled` (indexer.rs:180-181), `order_error` / `api_error` keep the
text and the exchange of an error (indexer.rs:211-231, 253-258); the timeout events are built from
the request alone (manager.rs:349-361, 399-416). -/
def detailOf (q : ReqSpec) (p : Payload) : Fate → Detail
  | .timeout => .none
  | .response =>
    match q.script.reply with
    | .ok =>
      match q.kind with
      | .open => if q.script.fills then .none else .opened p.id p.time p.filled
      | .cancel => .cancelled p.id p.time
    | .rejected => .message p.id
    | .invalidIns _ => .message p.id
    | .assetInvalid _ => .message p.id
    | .balanceInsufficient _ => .message p.id
    | .connectivity .socket => .message p.id
    | .connectivity .offline => .offlineAt p.exchange
    | .connectivity .timeout => .none
    | .nameless _ => .none

/-- Spec ("the exchange client's own response"): whatever the client put into its answer is what
the event carries — the order id / exchange time / filled quantity of an accepted open (an accepted
open with nothing left to fill is reported fully filled and carries nothing), the order id / exchange
time of a confirmed cancel, the text or exchange of an error; a timeout failure carries nothing of
the client's. -/
def specDetail (q : ReqSpec) (p : Payload) : Fate → Detail
  | .timeout => .none
  | .response =>
    match q.script.reply, q.kind with
    | .ok, .open => if q.script.fills then .none else .opened p.id p.time p.filled
    | .ok, .cancel => .cancelled p.id p.time
    | .connectivity .timeout, _ => .none
    | .connectivity .offline, _ => .offlineAt p.exchange
    | .nameless _, _ => .none
    | _, _ => .message p.id

end BarterModel.ExecManager
