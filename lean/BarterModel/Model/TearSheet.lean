/-
Model of the instrument tear sheet (`barter/src/statistic/summary/instrument.rs`), the PnL-returns
accumulator (`summary/pnl.rs`), `WinRate`/`ProfitFactor` (`metric/win_rate.rs`,
`metric/profit_factor.rs`), the asset tear sheet's `balance_end` (`summary/asset.rs`,
`engine/state/asset/mod.rs`) and the keyed maps of `TradingSummaryGenerator`
(`summary/mod.rs:82-177`), over exact rationals.

`Decimal` is `Rat` (rounding of `/` not modelled, DESIGN §3). A closed position (`PositionExited`,
`engine/state/position.rs:410-440`) is reduced to the three fields the tear sheet reads. Of
`DataSetSummary` only `count` and `sum` are modelled (mean/dispersion feed Sharpe/Sortino/Calmar,
which are outside C16; they are C17). Drawdown generators are outside C16 (C18).

`FnvIndexMap`s keyed by instrument / exchange-asset are lists addressed by position
(`InstrumentIndex`/`AssetIndex` = position, C11); a lookup out of range panics in the code — here it
leaves the list unchanged, the driver prints `panic`, and the theorems carry `i < n`.
`calculate_pnl_return` divides by `price_entry_average * quantity_abs_max`; the code panics when
that is zero (`Decimal` division by zero) — the driver prints `panic` (predicate `Closed.panics`),
and Lean's `x / 0 = 0` is never compared with the code.

Second half: the abstract specification, written from the property text (sums and counts over the
list of closed positions; no running state).
-/
namespace BarterModel.TearSheet

/-! ## Concrete model -/

/-- The fields of `PositionExited` (position.rs:410-440) read by `PnLReturns::update`. -/
structure Closed where
  pnlRealised : Rat
  priceEntryAverage : Rat
  quantityAbsMax : Rat
  deriving DecidableEq, Repr, Inhabited

/-- Where `calculate_pnl_return` panics (division by a zero `Decimal`). -/
def Closed.panics (p : Closed) : Bool := p.priceEntryAverage * p.quantityAbsMax == 0

/-- `calculate_pnl_return` (position.rs:549-555). -/
def calculatePnlReturn (pnlRealised priceEntryAverage quantityAbsMax : Rat) : Rat :=
  pnlRealised / (priceEntryAverage * quantityAbsMax)

/-- `DataSetSummary` (dataset/mod.rs:46-51), fields `count`, `sum` only. `Default` is zeros. -/
structure DataSetSummary where
  count : Rat
  sum : Rat
  deriving DecidableEq, Repr, Inhabited

def DataSetSummary.default : DataSetSummary := { count := 0, sum := 0 }

/-- `DataSetSummary::update` (dataset/mod.rs:61-76), `count += 1; sum += next_value`. -/
def DataSetSummary.update (d : DataSetSummary) (nextValue : Rat) : DataSetSummary :=
  { count := d.count + 1, sum := d.sum + nextValue }

/-- `PnLReturns` (pnl.rs:23-39). -/
structure PnLReturns where
  pnlRaw : Rat
  total : DataSetSummary
  losses : DataSetSummary
  deriving DecidableEq, Repr, Inhabited

def PnLReturns.default : PnLReturns :=
  { pnlRaw := 0, total := DataSetSummary.default, losses := DataSetSummary.default }

/-- `PnLReturns::update` (pnl.rs:43-63). `is_sign_negative` is `< 0`: a `Decimal` quotient is never
the negative zero (probed, DESIGN §8). -/
def PnLReturns.update (s : PnLReturns) (position : Closed) : PnLReturns :=
  let pnlRaw := s.pnlRaw + position.pnlRealised
  let pnlReturn :=
    calculatePnlReturn position.pnlRealised position.priceEntryAverage position.quantityAbsMax
  let total := s.total.update pnlReturn
  if pnlReturn < 0 then
    { pnlRaw := pnlRaw, total := total, losses := s.losses.update pnlReturn }
  else
    { pnlRaw := pnlRaw, total := total, losses := s.losses }

def ratAbs (x : Rat) : Rat := if x < 0 then -x else x

/-- `WinRate::calculate` (win_rate.rs:18-25). -/
def WinRate.calculate (wins total : Rat) : Option Rat :=
  if total = 0 then none else some (ratAbs wins / ratAbs total)

/-- `Decimal::MAX` = 2^96 − 1; `Decimal::MIN` is its negation. -/
def decimalMax : Rat := 79228162514264337593543950335
def decimalMin : Rat := -decimalMax

/-- `ProfitFactor::calculate` (profit_factor.rs:21-39). -/
def ProfitFactor.calculate (profitsGrossAbs lossesGrossAbs : Rat) : Option Rat :=
  if profitsGrossAbs = 0 ∧ lossesGrossAbs = 0 then none
  else
    some (
      if lossesGrossAbs = 0 then decimalMax
      else if profitsGrossAbs = 0 then decimalMin
      else ratAbs profitsGrossAbs / ratAbs lossesGrossAbs)

/-- `TearSheet` (instrument.rs:28-39), the three fields C16 is about. -/
structure TearSheet where
  pnl : Rat
  winRate : Option Rat
  profitFactor : Option Rat
  deriving DecidableEq, Repr, Inhabited

/-- `TearSheetGenerator` (instrument.rs:43-54) without clock and drawdown generators. -/
structure TearSheetGenerator where
  pnlReturns : PnLReturns
  deriving DecidableEq, Repr, Inhabited

/-- `TearSheetGenerator::init` (instrument.rs:58-67). -/
def TearSheetGenerator.init : TearSheetGenerator := { pnlReturns := PnLReturns.default }

/-- `TearSheetGenerator::update_from_position` (instrument.rs:70-85). -/
def TearSheetGenerator.updateFromPosition (g : TearSheetGenerator) (position : Closed) :
    TearSheetGenerator :=
  { pnlReturns := g.pnlReturns.update position }

/-- `TearSheetGenerator::generate` (instrument.rs:90-165): argument selection for `WinRate`,
`ProfitFactor` and `pnl`. -/
def TearSheetGenerator.generate (g : TearSheetGenerator) : TearSheet :=
  let winRate := WinRate.calculate
    (g.pnlReturns.total.count - g.pnlReturns.losses.count) g.pnlReturns.total.count
  let profitFactor := ProfitFactor.calculate
    (g.pnlReturns.total.sum - g.pnlReturns.losses.sum) g.pnlReturns.losses.sum
  { pnl := g.pnlReturns.pnlRaw, winRate := winRate, profitFactor := profitFactor }

/-- `Balance` (barter-execution balance.rs). -/
structure Balance where
  total : Rat
  free : Rat
  deriving DecidableEq, Repr, Inhabited

/-- `AssetBalance` snapshot: exchange time (ms) and balance. -/
structure BalSnap where
  time : Int
  balance : Balance
  deriving DecidableEq, Repr, Inhabited

/-- `TearSheetAssetGenerator` (asset.rs:24-29), field `balance_now` (drawdowns: C18). -/
structure TearSheetAssetGenerator where
  balanceNow : Option Balance
  deriving DecidableEq, Repr, Inhabited

def TearSheetAssetGenerator.default : TearSheetAssetGenerator := { balanceNow := none }

/-- `TearSheetAssetGenerator::update_from_balance` (asset.rs:43-53). -/
def TearSheetAssetGenerator.updateFromBalance (g : TearSheetAssetGenerator) (s : BalSnap) :
    TearSheetAssetGenerator :=
  { g with balanceNow := some s.balance }

/-- `TearSheetAsset` (asset.rs:15-20), field `balance_end`. -/
structure TearSheetAsset where
  balanceEnd : Option Balance
  deriving DecidableEq, Repr, Inhabited

/-- `TearSheetAssetGenerator::generate` (asset.rs:56-69). -/
def TearSheetAssetGenerator.generate (g : TearSheetAssetGenerator) : TearSheetAsset :=
  { balanceEnd := g.balanceNow }

/-- `AssetState` (engine/state/asset/mod.rs:99-108): `statistics` and `balance : Option<Timed<_>>`. -/
structure AssetState where
  statistics : TearSheetAssetGenerator
  balance : Option BalSnap
  deriving DecidableEq, Repr, Inhabited

def AssetState.default : AssetState :=
  { statistics := TearSheetAssetGenerator.default, balance := none }

/-- `AssetState::update_from_balance` (asset/mod.rs:115-127): first snapshot always applies; later
ones only when not older than the current one. -/
def AssetState.updateFromBalance (a : AssetState) (s : BalSnap) : AssetState :=
  match a.balance with
  | none => { statistics := a.statistics.updateFromBalance s, balance := some s }
  | some cur =>
    if cur.time ≤ s.time then
      { statistics := a.statistics.updateFromBalance s, balance := some s }
    else a

/-- `get_index_mut(i).map(f)`; out of range is a panic in the code (see file header). -/
def modifyAt {α : Type} (l : List α) (i : Nat) (f : α → α) : List α :=
  match l[i]? with
  | some x => l.set i (f x)
  | none => l

/-- `TradingSummaryGenerator` (summary/mod.rs:56-78): the two keyed maps. -/
structure TradingSummaryGenerator where
  instruments : List TearSheetGenerator
  assets : List TearSheetAssetGenerator
  deriving DecidableEq, Repr, Inhabited

/-- `TradingSummary` (summary/mod.rs:29-45): the two keyed maps. -/
structure TradingSummary where
  instruments : List TearSheet
  assets : List TearSheetAsset
  deriving DecidableEq, Repr, Inhabited

/-- `TradingSummaryGenerator::update_from_position` (summary/mod.rs:117-129), keyed by
`InstrumentIndex` (`get_index_mut`, mod.rs:205-210). -/
def TradingSummaryGenerator.updateFromPosition (g : TradingSummaryGenerator) (i : Nat)
    (position : Closed) : TradingSummaryGenerator :=
  { g with instruments := modifyAt g.instruments i (·.updateFromPosition position) }

/-- `TradingSummaryGenerator::update_from_balance` (summary/mod.rs:132-142; `asset_mut` 226-231),
keyed by `AssetIndex`; no staleness guard on this path. -/
def TradingSummaryGenerator.updateFromBalance (g : TradingSummaryGenerator) (a : Nat)
    (s : BalSnap) : TradingSummaryGenerator :=
  { g with assets := modifyAt g.assets a (·.updateFromBalance s) }

/-- `TradingSummaryGenerator::generate` (summary/mod.rs:148-176): entry-wise `generate`, keys kept. -/
def TradingSummaryGenerator.generate (g : TradingSummaryGenerator) : TradingSummary :=
  { instruments := g.instruments.map (·.generate), assets := g.assets.map (·.generate) }

/-- The part of `EngineState` the summary is initialised from: per instrument the `tear_sheet` of its
`InstrumentState` (instrument/mod.rs:259), per asset its `AssetState`. -/
structure EngState where
  instruments : List TearSheetGenerator
  assets : List AssetState
  deriving DecidableEq, Repr, Inhabited

/-- `EngineState::builder(..).build()`: `n` instruments, `m` assets, all generators at their initial
value (`TearSheetGenerator::init`, `generate_empty_indexed_asset_states`, asset/mod.rs:154-176). -/
def EngState.init (n m : Nat) : EngState :=
  { instruments := List.replicate n TearSheetGenerator.init,
    assets := List.replicate m AssetState.default }

/-- The events that reach the tear sheets. -/
inductive Ev where
  /-- instrument `i`'s position was closed: `InstrumentState::update_from_trade` returned
  `Some(closed)` and ran `tear_sheet.update_from_position` (instrument/mod.rs:323-333) -/
  | position (i : Nat) (p : Closed)
  /-- balance snapshot for asset `a` (`AssetStates` → `AssetState::update_from_balance`) -/
  | balance (a : Nat) (s : BalSnap)
  deriving DecidableEq, Repr

/-- Engine path: the instrument's own `tear_sheet` / the asset's own `AssetState` is updated. -/
def EngState.step (s : EngState) : Ev → EngState
  | .position i p =>
    { s with instruments := modifyAt s.instruments i (·.updateFromPosition p) }
  | .balance a b =>
    { s with assets := modifyAt s.assets a (·.updateFromBalance b) }

def EngState.run (s : EngState) (evs : List Ev) : EngState := evs.foldl EngState.step s

/-- `TradingSummaryGenerator::init` (summary/mod.rs:82-111) as called by
`Engine::trading_summary_generator` (engine/mod.rs:318-329): clones every instrument's
`tear_sheet` and every asset's `statistics`, in map order. -/
def TradingSummaryGenerator.init (s : EngState) : TradingSummaryGenerator :=
  { instruments := s.instruments, assets := s.assets.map (·.statistics) }

/-- Direct path: a `TradingSummaryGenerator` kept up to date by its own `update_from_*`. -/
def TradingSummaryGenerator.step (g : TradingSummaryGenerator) : Ev → TradingSummaryGenerator
  | .position i p => g.updateFromPosition i p
  | .balance a b => g.updateFromBalance a b

def TradingSummaryGenerator.run (g : TradingSummaryGenerator) (evs : List Ev) :
    TradingSummaryGenerator := evs.foldl TradingSummaryGenerator.step g

/-- `Engine::trading_summary_generator(..).generate(..)` after the engine saw `evs`. -/
def engineSummary (n m : Nat) (evs : List Ev) : TradingSummary :=
  (TradingSummaryGenerator.init ((EngState.init n m).run evs)).generate

/-- A summary generator taken from a fresh engine, then updated directly with `evs`. -/
def directSummary (n m : Nat) (evs : List Ev) : TradingSummary :=
  ((TradingSummaryGenerator.init (EngState.init n m)).run evs).generate

/-- A round trip through the position manager: opening fill then an exactly closing fill of the
opposite side (position.rs `From<&Trade>` 380-398 then the "close exactly" arm 281-290, `calculate_pnl_realised`
527-542):
`pnl_realised = −fee_in + (±(exit − entry)·qty − fee_out)`, `price_entry_average = entry`,
`quantity_abs_max = |qty|`. Only used to feed engine-level correspondence cases; C02 owns the
position model. `long = true` for a `Buy` entry. -/
def Closed.ofRoundTrip (long : Bool) (entry qty exit feeIn feeOut : Rat) : Closed :=
  let q := ratAbs qty
  let gross := if long then q * exit - q * entry else q * entry - q * exit
  { pnlRealised := -feeIn + (gross - feeOut), priceEntryAverage := entry, quantityAbsMax := q }

/-! ## Abstract specification (from the property text) -/

/-- A closed position's return: realised PnL over the cost of the investment. -/
def ret (p : Closed) : Rat := p.pnlRealised / (p.priceEntryAverage * p.quantityAbsMax)

def sumRat (l : List Rat) : Rat := l.foldr (· + ·) 0

/-- PnL: the sum of the realised PnL of the closed positions. -/
def specPnl (ps : List Closed) : Rat := sumRat (ps.map (·.pnlRealised))

/-- The positions whose return is not negative / is negative. -/
def wins (ps : List Closed) : List Closed := ps.filter (fun p => decide (0 ≤ ret p))
def losers (ps : List Closed) : List Closed := ps.filter (fun p => decide (ret p < 0))

/-- Win rate: the fraction of closed positions whose return is not negative; undefined without
positions. -/
def specWinRate (ps : List Closed) : Option Rat :=
  if ps.length = 0 then none else some (((wins ps).length : Rat) / (ps.length : Rat))

/-- Gross winning returns and gross losing returns (the latter as a magnitude). -/
def grossWin (ps : List Closed) : Rat := sumRat ((wins ps).map ret)
def grossLoss (ps : List Closed) : Rat := - sumRat ((losers ps).map ret)

/-- Profit factor with its conventions made explicit. -/
inductive PF where
  /-- neither gross profit nor gross loss (in particular: no positions) -/
  | undefined
  /-- gross profit, no gross loss: "infinite" (`Decimal::MAX`) -/
  | posInf
  /-- gross loss, no gross profit: "minus infinite" (`Decimal::MIN`) -/
  | negInf
  | ratio (r : Rat)
  deriving DecidableEq, Repr

def specProfitFactor (ps : List Closed) : PF :=
  if grossWin ps = 0 ∧ grossLoss ps = 0 then .undefined
  else if grossLoss ps = 0 then .posInf
  else if grossWin ps = 0 then .negInf
  else .ratio (grossWin ps / grossLoss ps)

/-- How the conventions are reported in `Option<ProfitFactor>`. -/
def PF.toOption : PF → Option Rat
  | .undefined => none
  | .posInf => some decimalMax
  | .negInf => some decimalMin
  | .ratio r => some r

/-- The tear sheet the property prescribes for a list of closed positions. -/
def specTearSheet (ps : List Closed) : TearSheet :=
  { pnl := specPnl ps, winRate := specWinRate ps, profitFactor := (specProfitFactor ps).toOption }

/-- Instrument `i`'s own history: the closed positions of `i`, oldest first. -/
def historyOf (i : Nat) (evs : List Ev) : List Closed :=
  evs.filterMap (fun | .position j p => if j = i then some p else none | _ => none)

/-- Asset `a`'s own history: its balance snapshots, oldest first. -/
def balancesOf (a : Nat) (evs : List Ev) : List BalSnap :=
  evs.filterMap (fun | .balance b s => if b = a then some s else none | _ => none)

/-- The most recent snapshot of a history by exchange time (the later one on equal times). -/
def latest (snaps : List BalSnap) : Option BalSnap :=
  snaps.reverse.find? (fun s => snaps.all (fun s' => decide (s'.time ≤ s.time)))

/-- Asset tear sheet of a history on the engine path: ends with the most recent balance. -/
def specAssetEngine (snaps : List BalSnap) : TearSheetAsset :=
  { balanceEnd := (latest snaps).map (·.balance) }

/-- Asset tear sheet of a history fed directly to the summary generator: ends with the last
balance it was given. -/
def specAssetDirect (snaps : List BalSnap) : TearSheetAsset :=
  { balanceEnd := snaps.getLast?.map (·.balance) }

end BarterModel.TearSheet
