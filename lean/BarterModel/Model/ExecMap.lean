/-
Model of `barter-execution/src/map.rs` (ExecutionInstrumentMap, generate_execution_instrument_map)
and `barter-execution/src/indexer.rs` (AccountEventIndexer), plus the two translation call sites of
`barter/src/execution/manager.rs` (run: outbound order_request; process_{open,cancel}_response:
inbound order_key).

Input of the model is an *already indexed* collection (`IndexedInstruments`,
barter-instrument/src/index/mod.rs:30-36): three lists of keyed entries. Building that collection
(sort + dedup + enumerate) is property C11; here its result is a parameter and the facts this
property needs about it (`key = position`, distinct exchange ids, per-exchange injective
`name_exchange`) are the explicit decidable hypothesis `WF`.

Identifiers: `ExchangeId`, `AssetNameExchange`, `InstrumentNameExchange`, `ExchangeIndex`,
`AssetIndex`, `InstrumentIndex` are all `Nat`. `StrategyId`+`ClientOrderId` are one `Nat` (`cid`).
All remaining fields of an order / trade / balance (side, price, quantity, kind, time in force,
ids, times, fees) are carried untouched by the code and are one opaque `Nat` payload here.

`FnvIndexMap<K,V>` and `FnvHashMap<K,V>` built by `collect()` are association lists built by
`collect` = left fold of `upsert` (a later pair with an existing key replaces the value in place),
read by `List.lookup`. Iteration order of the hash map is never observed.

Core Lean only.
-/
namespace BarterModel.ExecMap

/-! ## The indexed collection -/

/-- `Keyed<ExchangeIndex, ExchangeId>` (index/mod.rs:31). -/
structure KExchange where
  key : Nat
  id : Nat
  deriving DecidableEq, Repr, Inhabited

/-- `Keyed<AssetIndex, ExchangeAsset<Asset>>` (index/mod.rs:32): the exchange the asset lives on and
its `name_exchange`. -/
structure KAsset where
  key : Nat
  exchange : Nat
  nameExchange : Nat
  deriving DecidableEq, Repr, Inhabited

/-- `Keyed<InstrumentIndex, Instrument<Keyed<ExchangeIndex, ExchangeId>, AssetIndex>>`
(index/mod.rs:33-34): `exchange` is `instrument.exchange.value`. -/
structure KInstrument where
  key : Nat
  exchange : Nat
  nameExchange : Nat
  deriving DecidableEq, Repr, Inhabited

/-- `IndexedInstruments` (index/mod.rs:30-36). -/
structure Coll where
  exchanges : List KExchange
  assets : List KAsset
  instruments : List KInstrument
  deriving DecidableEq, Repr, Inhabited

/-! ## Errors -/

/-- `KeyError` (error.rs:117-133). -/
inductive KeyError where
  | exchangeId
  | assetKey
  | instrumentKey
  deriving DecidableEq, Repr, Inhabited

/-- `IndexError` (barter-instrument/src/index/error.rs). -/
inductive IndexError where
  | exchangeIndex
  | assetIndex
  | instrumentIndex
  deriving DecidableEq, Repr, Inhabited

/-! ## Maps -/

/-- `IndexMap::insert` / `HashMap::insert`: replace the value of an existing key in place, else
append. -/
def upsert (m : List (Nat × Nat)) (k v : Nat) : List (Nat × Nat) :=
  match m with
  | [] => [(k, v)]
  | (k', v') :: t => if k' = k then (k', v) :: t else (k', v') :: upsert t k v

/-- `iter.collect::<FnvIndexMap<_,_>>()` / `collect::<FnvHashMap<_,_>>()`. -/
def collect (l : List (Nat × Nat)) : List (Nat × Nat) :=
  l.foldl (fun m kv => upsert m kv.1 kv.2) []

/-- `ExecutionInstrumentMap` (map.rs:21-28). -/
structure EMap where
  exchange : KExchange
  assets : List (Nat × Nat)
  instruments : List (Nat × Nat)
  assetNames : List (Nat × Nat)
  instrumentNames : List (Nat × Nat)
  deriving DecidableEq, Repr, Inhabited

/-- `ExecutionInstrumentMap::new` (map.rs:32-51): the reverse tables are collected from the forward
tables. -/
def EMap.new (exchange : KExchange) (assets instruments : List (Nat × Nat)) : EMap :=
  { exchange := exchange
    assets := assets
    instruments := instruments
    assetNames := collect (assets.map fun kv => (kv.2, kv.1))
    instrumentNames := collect (instruments.map fun kv => (kv.2, kv.1)) }

/-- `generate_execution_instrument_map` (map.rs:123-156). -/
def genMap (c : Coll) (ex : Nat) : Except IndexError EMap :=
  match c.exchanges.find? (fun ke => ke.id == ex) with
  | none => .error .exchangeIndex
  | some ke =>
    .ok (EMap.new ⟨ke.key, ex⟩
      (collect (c.assets.filterMap fun a =>
        if a.exchange == ex then some (a.key, a.nameExchange) else none))
      (collect (c.instruments.filterMap fun i =>
        if i.exchange == ex then some (i.key, i.nameExchange) else none)))

/-- `exchange_assets` (map.rs:53-55). -/
def EMap.exchangeAssets (m : EMap) : List Nat := m.assets.map (·.2)

/-- `exchange_instruments` (map.rs:57-59). -/
def EMap.exchangeInstruments (m : EMap) : List Nat := m.instruments.map (·.2)

/-- `find_exchange_id` (map.rs:61-69). -/
def EMap.findExchangeId (m : EMap) (x : Nat) : Except KeyError Nat :=
  if m.exchange.key = x then .ok m.exchange.id else .error .exchangeId

/-- `find_exchange_index` (map.rs:71-79). -/
def EMap.findExchangeIndex (m : EMap) (id : Nat) : Except IndexError Nat :=
  if m.exchange.id = id then .ok m.exchange.key else .error .exchangeIndex

/-- `find_asset_name_exchange` (map.rs:81-88). -/
def EMap.findAssetName (m : EMap) (a : Nat) : Except KeyError Nat :=
  match m.assets.lookup a with
  | some n => .ok n
  | none => .error .assetKey

/-- `find_asset_index` (map.rs:90-94). -/
def EMap.findAssetIndex (m : EMap) (name : Nat) : Except IndexError Nat :=
  match m.assetNames.lookup name with
  | some a => .ok a
  | none => .error .assetIndex

/-- `find_instrument_name_exchange` (map.rs:96-105). -/
def EMap.findInstrumentName (m : EMap) (i : Nat) : Except KeyError Nat :=
  match m.instruments.lookup i with
  | some n => .ok n
  | none => .error .instrumentKey

/-- `find_instrument_index` (map.rs:107-120). -/
def EMap.findInstrumentIndex (m : EMap) (name : Nat) : Except IndexError Nat :=
  match m.instrumentNames.lookup name with
  | some i => .ok i
  | none => .error .instrumentIndex

/-! ## Account-event data, polymorphic in the exchange / asset / instrument key types
(`barter-execution/src/lib.rs:61-140`, `order/mod.rs:57-83`, `order/state.rs`, `error.rs`) -/

/-- `ApiError<AssetKey, InstrumentKey>` (error.rs:74-99). -/
inductive ApiErr (A I : Type) where
  | rateLimit
  | assetInvalid (a : A)
  | instrumentInvalid (i : I)
  | balanceInsufficient (a : A)
  | orderRejected
  | orderAlreadyCancelled
  | orderAlreadyFullyFilled
  deriving DecidableEq, Repr

/-- `OrderError<AssetKey, InstrumentKey>` (error.rs:102-115). -/
inductive OrderErr (A I : Type) where
  | connectivity
  | rejected (e : ApiErr A I)
  deriving DecidableEq, Repr

/-- `OrderKey<ExchangeKey, InstrumentKey>` (order/mod.rs:65-70). -/
structure OKey (E I : Type) where
  exchange : E
  instrument : I
  cid : Nat
  deriving DecidableEq, Repr

/-- `OrderEvent<State, ExchangeKey, InstrumentKey>` (order/mod.rs:57-60) with an opaque state
(`RequestOpen` / `RequestCancel`). -/
structure OEvent (E I : Type) where
  key : OKey E I
  state : Nat
  deriving DecidableEq, Repr

/-- `OrderState<AssetKey, InstrumentKey>` (order/state.rs:16-19, 112-117); the payload of `Active`
and `Cancelled` is opaque. -/
inductive OState (A I : Type) where
  | active (p : Nat)
  | cancelled (p : Nat)
  | fullyFilled
  | openFailed (e : OrderErr A I)
  | expired
  deriving DecidableEq, Repr

/-- `Order<ExchangeKey, InstrumentKey, OrderState<..>>` (order/mod.rs:75-83). -/
structure OrderSnap (E A I : Type) where
  key : OKey E I
  payload : Nat
  state : OState A I
  deriving DecidableEq, Repr

/-- `OrderResponseCancel<ExchangeKey, AssetKey, InstrumentKey>` (order/request.rs:21-25). -/
structure CancelResp (E A I : Type) where
  key : OKey E I
  state : Except (OrderErr A I) Nat

/-- `Trade<QuoteAsset, InstrumentKey>` (trade.rs:23-33). -/
structure Trade (I : Type) where
  instrument : I
  payload : Nat
  deriving DecidableEq, Repr

/-- `AssetBalance<AssetKey>` (balance.rs:9-13). -/
structure Bal (A : Type) where
  asset : A
  payload : Nat
  deriving DecidableEq, Repr

/-- `InstrumentAccountSnapshot` (lib.rs:132-140). -/
structure InstrSnap (E A I : Type) where
  instrument : I
  orders : List (OrderSnap E A I)
  deriving DecidableEq, Repr

/-- `AccountSnapshot` (lib.rs:119-127). -/
structure AccSnap (E A I : Type) where
  exchange : E
  balances : List (Bal A)
  instruments : List (InstrSnap E A I)
  deriving DecidableEq, Repr

/-- `AccountEventKind` (lib.rs:84-108). -/
inductive AEKind (E A I : Type) where
  | snapshot (s : AccSnap E A I)
  | balanceSnapshot (b : Bal A)
  | orderSnapshot (o : OrderSnap E A I)
  | orderCancelled (r : CancelResp E A I)
  | trade (t : Trade I)

/-- `AccountEvent` (lib.rs:62-69). -/
structure AccEvent (E A I : Type) where
  exchange : E
  kind : AEKind E A I

/-- `.collect::<Result<Vec<_>, _>>()` over a mapped iterator: stops at the first error. -/
def mapE {ε α β : Type} (f : α → Except ε β) : List α → Except ε (List β)
  | [] => .ok []
  | x :: xs =>
    match f x with
    | .error e => .error e
    | .ok y =>
      match mapE f xs with
      | .error e => .error e
      | .ok ys => .ok (y :: ys)

/-! ## AccountEventIndexer (indexer.rs) -/

/-- `order_request` (indexer.rs:233-263): exchange first, then instrument. -/
def orderRequest (m : EMap) (o : OEvent Nat Nat) : Except KeyError (OEvent Nat Nat) :=
  match m.findExchangeId o.key.exchange with
  | .error e => .error e
  | .ok ex =>
    match m.findInstrumentName o.key.instrument with
    | .error e => .error e
    | .ok name => .ok { key := { exchange := ex, instrument := name, cid := o.key.cid }, state := o.state }

/-- `order_key` (indexer.rs:195-209): exchange first, then instrument. -/
def orderKey (m : EMap) (k : OKey Nat Nat) : Except IndexError (OKey Nat Nat) :=
  match m.findExchangeIndex k.exchange with
  | .error e => .error e
  | .ok ex =>
    match m.findInstrumentIndex k.instrument with
    | .error e => .error e
    | .ok i => .ok { exchange := ex, instrument := i, cid := k.cid }

/-- `api_error` (indexer.rs:211-231). -/
def apiError (m : EMap) : ApiErr Nat Nat → Except IndexError (ApiErr Nat Nat)
  | .rateLimit => .ok .rateLimit
  | .assetInvalid a =>
    match m.findAssetIndex a with
    | .error e => .error e
    | .ok a => .ok (.assetInvalid a)
  | .instrumentInvalid i =>
    match m.findInstrumentIndex i with
    | .error e => .error e
    | .ok i => .ok (.instrumentInvalid i)
  | .balanceInsufficient a =>
    match m.findAssetIndex a with
    | .error e => .error e
    | .ok a => .ok (.balanceInsufficient a)
  | .orderRejected => .ok .orderRejected
  | .orderAlreadyCancelled => .ok .orderAlreadyCancelled
  | .orderAlreadyFullyFilled => .ok .orderAlreadyFullyFilled

/-- `order_error` (indexer.rs:265-270). -/
def orderError (m : EMap) : OrderErr Nat Nat → Except IndexError (OrderErr Nat Nat)
  | .connectivity => .ok .connectivity
  | .rejected e =>
    match apiError m e with
    | .error e => .error e
    | .ok e => .ok (.rejected e)

/-- `asset_balance` (indexer.rs:115-132). -/
def assetBalance (m : EMap) (b : Bal Nat) : Except IndexError (Bal Nat) :=
  match m.findAssetIndex b.asset with
  | .error e => .error e
  | .ok a => .ok { asset := a, payload := b.payload }

/-- `order_snapshot` (indexer.rs:134-177): key first, then the state (only `OpenFailed(Rejected)`
carries keys). -/
def orderSnapshot (m : EMap) (o : OrderSnap Nat Nat Nat) : Except IndexError (OrderSnap Nat Nat Nat) :=
  match orderKey m o.key with
  | .error e => .error e
  | .ok key =>
    match o.state with
    | .active p => .ok { key := key, payload := o.payload, state := .active p }
    | .cancelled p => .ok { key := key, payload := o.payload, state := .cancelled p }
    | .fullyFilled => .ok { key := key, payload := o.payload, state := .fullyFilled }
    | .expired => .ok { key := key, payload := o.payload, state := .expired }
    | .openFailed .connectivity =>
      .ok { key := key, payload := o.payload, state := .openFailed .connectivity }
    | .openFailed (.rejected r) =>
      match apiError m r with
      | .error e => .error e
      | .ok r => .ok { key := key, payload := o.payload, state := .openFailed (.rejected r) }

/-- `order_response_cancel` (indexer.rs:179-193): key first, then the error of the state. -/
def orderResponseCancel (m : EMap) (r : CancelResp Nat Nat Nat) : Except IndexError (CancelResp Nat Nat Nat) :=
  match orderKey m r.key with
  | .error e => .error e
  | .ok key =>
    match r.state with
    | .ok c => .ok { key := key, state := .ok c }
    | .error oe =>
      match orderError m oe with
      | .error e => .error e
      | .ok oe => .ok { key := key, state := .error oe }

/-- `trade` (indexer.rs:281-309). -/
def trade (m : EMap) (t : Trade Nat) : Except IndexError (Trade Nat) :=
  match m.findInstrumentIndex t.instrument with
  | .error e => .error e
  | .ok i => .ok { instrument := i, payload := t.payload }

/-- The closure of `snapshot` (indexer.rs:95-107): instrument first, then its orders in order. -/
def instrSnapshot (m : EMap) (s : InstrSnap Nat Nat Nat) : Except IndexError (InstrSnap Nat Nat Nat) :=
  match m.findInstrumentIndex s.instrument with
  | .error e => .error e
  | .ok i =>
    match mapE (orderSnapshot m) s.orders with
    | .error e => .error e
    | .ok os => .ok { instrument := i, orders := os }

/-- `snapshot` (indexer.rs:75-113): exchange, then balances in order, then instruments in order. -/
def snapshot (m : EMap) (s : AccSnap Nat Nat Nat) : Except IndexError (AccSnap Nat Nat Nat) :=
  match m.findExchangeIndex s.exchange with
  | .error e => .error e
  | .ok ex =>
    match mapE (assetBalance m) s.balances with
    | .error e => .error e
    | .ok bs =>
      match mapE (instrSnapshot m) s.instruments with
      | .error e => .error e
      | .ok is => .ok { exchange := ex, balances := bs, instruments := is }

/-- `account_event` (indexer.rs:47-73) = `Indexer::index` (indexer.rs:41-43). -/
def accountEvent (m : EMap) (ev : AccEvent Nat Nat Nat) : Except IndexError (AccEvent Nat Nat Nat) :=
  match m.findExchangeIndex ev.exchange with
  | .error e => .error e
  | .ok ex =>
    match ev.kind with
    | .snapshot s =>
      match snapshot m s with
      | .error e => .error e
      | .ok s => .ok { exchange := ex, kind := .snapshot s }
    | .balanceSnapshot b =>
      match assetBalance m b with
      | .error e => .error e
      | .ok b => .ok { exchange := ex, kind := .balanceSnapshot b }
    | .orderSnapshot o =>
      match orderSnapshot m o with
      | .error e => .error e
      | .ok o => .ok { exchange := ex, kind := .orderSnapshot o }
    | .orderCancelled r =>
      match orderResponseCancel m r with
      | .error e => .error e
      | .ok r => .ok { exchange := ex, kind := .orderCancelled r }
    | .trade t =>
      match trade m t with
      | .error e => .error e
      | .ok t => .ok { exchange := ex, kind := .trade t }

/-! ## ExecutionManager translation sites (manager.rs) -/

/-- What `ExecutionManager::run` (manager.rs:241-270) does with one `Open`/`Cancel` request before
calling the client: `indexer.order_request(&request)`, panicking on `Err`. `none` = panic. -/
def managerClientRequest (m : EMap) (o : OEvent Nat Nat) : Option (OEvent Nat Nat) :=
  match orderRequest m o with
  | .ok r => some r
  | .error _ => none

/-- `process_open_response` / `process_cancel_response` (manager.rs:329-339, 355-393) restricted to
the key: the client's response key is indexed with `order_key`; an `IndexError` filters the response
(`none`). The emitted `AccountEvent.exchange` is `key.exchange`. -/
def managerResponseKey (m : EMap) (k : OKey Nat Nat) : Option (OKey Nat Nat) :=
  match orderKey m k with
  | .ok k => some k
  | .error _ => none

/-! ## ExecutionBuilder, MultiExchangeTxMap and the engine's routing of a request
(`barter/src/execution/builder.rs`, `barter/src/engine/execution_tx.rs`,
`barter/src/engine/action/send_requests.rs`)

A transmitter `UnboundedTx<ExecutionRequest>` is identified with the `ExecutionManager` that owns
the receiving end: the exchange id its `Client` was constructed for and the
`ExecutionInstrumentMap` of its indexer. Channel delivery itself (FIFO, receiver alive) is C03. -/

/-- What `add_execution` (builder.rs:145-193) creates for one exchange: the manager behind the new
transmitter (`client` = the `exchange` argument = the exchange the `Client` talks to; `map` = its
`instrument_map`), and the `ExchangeIndex` stored beside the transmitter (builder.rs:162,
`instrument_map.exchange.key`). -/
structure Link where
  client : Nat
  index : Nat
  map : EMap
  deriving DecidableEq, Repr, Inhabited

/-- The two ways `add_mock` / `add_live` return `Err` (builder.rs:156, 160-168). -/
inductive BuildError where
  | index
  | duplicate
  deriving DecidableEq, Repr, Inhabited

/-- `ExecutionBuilder::add_execution` (builder.rs:145-193) on the builder's
`execution_txs: FnvHashMap<ExchangeId, (ExchangeIndex, Tx)>` (an association list; iteration order
is never observed): the map is generated first (`?`), then the insert; an existing entry is an
error. -/
def addExecution (c : Coll) (added : List (Nat × Link)) (ex : Nat) :
    Except BuildError (List (Nat × Link)) :=
  match genMap c ex with
  | .error _ => .error .index
  | .ok m =>
    match added.lookup ex with
    | some _ => .error .duplicate
    | none => .ok (added ++ [(ex, { client := ex, index := m.exchange.key, map := m })])

/-- A sequence of `add_mock` / `add_live` calls, in the order they are made (each returns
`Result<Self, _>`; the first error ends the construction). -/
def addExecutions (c : Coll) : List (Nat × Link) → List Nat → Except BuildError (List (Nat × Link))
  | added, [] => .ok added
  | added, ex :: rest =>
    match addExecution c added ex with
    | .error e => .error e
    | .ok added' => addExecutions c added' rest

/-- `HashMap::remove`. -/
def removeKey {β : Type} (l : List (Nat × β)) (k : Nat) : List (Nat × β) :=
  l.filter fun kv => kv.1 != k

/-- The iterator of `ExecutionBuilder::build` (builder.rs:204-223): one pair per exchange of the
collection, in the order of `instruments.exchanges()`: `(id, None)` when no execution was added for
it, else the `assert_eq!` on the stored exchange index (`none` = panic) and `(id, Some(tx))`; the
entry is *removed* from `execution_txs`. -/
def buildSlots : List KExchange → List (Nat × Link) → Option (List (Nat × Option Link))
  | [], _ => some []
  | k :: rest, added =>
    match added.lookup k.id with
    | none => (buildSlots rest added).map fun t => (k.id, none) :: t
    | some l =>
      if k.key = l.index then
        (buildSlots rest (removeKey added k.id)).map fun t => (k.id, some l) :: t
      else none

/-- `IndexMap::insert` with an arbitrary value type. -/
def upsertG {β : Type} (m : List (Nat × β)) (k : Nat) (v : β) : List (Nat × β) :=
  match m with
  | [] => [(k, v)]
  | (k', v') :: t => if k' = k then (k', v) :: t else (k', v') :: upsertG t k v

/-- `FnvIndexMap::from_iter` (execution_tx.rs:45-52). -/
def collectG {β : Type} (l : List (Nat × β)) : List (Nat × β) :=
  l.foldl (fun m kv => upsertG m kv.1 kv.2) []

/-- `MultiExchangeTxMap` (execution_tx.rs:41-43): `FnvIndexMap<ExchangeId, Option<Tx>>`. -/
abbrev TxMap := List (Nat × Option Link)

/-- `ExecutionBuilder::build` (builder.rs:202-234), the `execution_tx_map` field. `none` = panic. -/
def buildTxMap (c : Coll) (added : List (Nat × Link)) : Option TxMap :=
  (buildSlots c.exchanges added).map collectG

/-- `ExecutionBuilder::new(&instruments)`, then one `add_*` per element of `adds` (in this order),
then `build()`. -/
def buildExecution (c : Coll) (adds : List Nat) : Except BuildError (Option TxMap) :=
  match addExecutions c [] adds with
  | .error e => .error e
  | .ok added => .ok (buildTxMap c added)

/-- `MultiExchangeTxMap::find` (execution_tx.rs:78-90): `get_index(exchange.index())` — the
*position* in the index map — then the optional transmitter; an empty slot and a position out of
range are the same `IndexError::ExchangeIndex`. -/
def TxMap.find (t : TxMap) (x : Nat) : Except IndexError Link :=
  match t[x]? with
  | some (_, some l) => .ok l
  | _ => .error .exchangeIndex

/-- Where one engine request ends up. -/
inductive Routed where
  /-- `find` failed: `send_request` returns the `UnrecoverableEngineError`, nothing is sent -/
  | noTx
  /-- the manager of exchange `client` received the request and panicked on a non-configured key
  (manager.rs:246-251, 261-266); its client is not called -/
  | managerPanic (client : Nat)
  /-- the client of exchange `client` was called with `req` -/
  | delivered (client : Nat) (req : OEvent Nat Nat)
  deriving DecidableEq, Repr

/-- `send_request` (send_requests.rs:84-87: `execution_txs.find(&request.key.exchange)?.send(..)`)
followed by the receiving `ExecutionManager::run` step (`managerClientRequest`). -/
def route (t : TxMap) (o : OEvent Nat Nat) : Routed :=
  match t.find o.key.exchange with
  | .error _ => .noTx
  | .ok l =>
    match managerClientRequest l.map o with
    | none => .managerPanic l.client
    | some r => .delivered l.client r

/-- The key under which the engine sees the answer when the called client echoes the key it was
handed: indexed by the *same* manager (`managerResponseKey`). `none`: nothing was delivered, or the
response was filtered. -/
def routeResponse (t : TxMap) (o : OEvent Nat Nat) : Option (OKey Nat Nat) :=
  match t.find o.key.exchange with
  | .error _ => none
  | .ok l =>
    match managerClientRequest l.map o with
    | none => none
    | some r => managerResponseKey l.map r.key

/-! ## Abstract specification (written from the property text, over the *global* collection; no
per-exchange tables, no insertion order, no error kinds) -/

/-- Engine instrument index `i` translates on the link of exchange `ex` exactly when the instrument
at index `i` belongs to `ex`; the result is that instrument's exchange name. -/
def specInstrumentName (c : Coll) (ex i : Nat) : Option Nat :=
  match c.instruments[i]? with
  | some k => if k.exchange = ex then some k.nameExchange else none
  | none => none

def specAssetName (c : Coll) (ex a : Nat) : Option Nat :=
  match c.assets[a]? with
  | some k => if k.exchange = ex then some k.nameExchange else none
  | none => none

/-- An exchange name translates on the link of `ex` to the index of the instrument of `ex` that
carries this name (unique under `WF`), and not at all when `ex` has no such instrument. -/
def specInstrumentIndex (c : Coll) (ex name : Nat) : Option Nat :=
  c.instruments.findIdx? (fun k => k.exchange == ex && k.nameExchange == name)

def specAssetIndex (c : Coll) (ex name : Nat) : Option Nat :=
  c.assets.findIdx? (fun k => k.exchange == ex && k.nameExchange == name)

/-- Exchange index `x` translates on the link of `ex` exactly when it is the index of `ex`. -/
def specExchangeId (c : Coll) (ex x : Nat) : Option Nat :=
  match c.exchanges[x]? with
  | some k => if k.id = ex then some ex else none
  | none => none

/-- Only the link's own exchange id translates, to the index of that exchange. -/
def specExchangeIndex (c : Coll) (ex id : Nat) : Option Nat :=
  if id = ex then c.exchanges.findIdx? (fun k => k.id == ex) else none

/-- Is `ex` one of the collection's exchanges (does it have a link at all)? -/
def specHasLink (c : Coll) (ex : Nat) : Bool := c.exchanges.any (fun k => k.id == ex)

/-- The (index, name) pairs that translate on the link of `ex`, by ascending index. -/
def specInstrumentTable (c : Coll) (ex : Nat) : List (Nat × Nat) :=
  (List.range c.instruments.length).filterMap fun i => (specInstrumentName c ex i).map fun n => (i, n)

def specAssetTable (c : Coll) (ex : Nat) : List (Nat × Nat) :=
  (List.range c.assets.length).filterMap fun a => (specAssetName c ex a).map fun n => (a, n)

/-- Outbound: the request that must reach the client is the same request re-addressed to the
exchange id of `ex` and the exchange name of exactly instrument `i`; nothing else may be sent. -/
def specOrderRequest (c : Coll) (ex : Nat) (o : OEvent Nat Nat) : Option (OEvent Nat Nat) :=
  match specExchangeId c ex o.key.exchange, specInstrumentName c ex o.key.instrument with
  | some id, some name => some { key := { exchange := id, instrument := name, cid := o.key.cid }, state := o.state }
  | _, _ => none

/-- End-to-end routing, from the property text: a request for engine key (exchange index `x`,
instrument index `i`) reaches the client of exactly the exchange at index `x`, addressed with that
exchange's id and the exchange name of instrument `i` — provided that exchange is one of those an
execution link was set up for (`linked`, a set: order and position irrelevant) and the instrument
belongs to it. No link (or no such exchange): an error and nothing is sent. An instrument of
another exchange: the exchange's own manager refuses, nothing is sent. -/
def specRoute (c : Coll) (linked : List Nat) (o : OEvent Nat Nat) : Routed :=
  match c.exchanges[o.key.exchange]? with
  | none => .noTx
  | some k =>
    if k.id ∈ linked then
      match specInstrumentName c k.id o.key.instrument with
      | some n =>
        .delivered k.id { key := { exchange := k.id, instrument := n, cid := o.key.cid }, state := o.state }
      | none => .managerPanic k.id
    else .noTx

/-! Key-replacing traversals: "the same event with every exchange / asset / instrument key
translated, or nothing if some key does not translate". -/

def mapO {α β : Type} (f : α → Option β) : List α → Option (List β)
  | [] => some []
  | x :: xs =>
    match f x, mapO f xs with
    | some y, some ys => some (y :: ys)
    | _, _ => none

section traverse
variable {E A I E' A' I' : Type} (fe : E → Option E') (fa : A → Option A') (fi : I → Option I')

def ApiErr.traverse : ApiErr A I → Option (ApiErr A' I')
  | .rateLimit => some .rateLimit
  | .assetInvalid a => (fa a).map .assetInvalid
  | .instrumentInvalid i => (fi i).map .instrumentInvalid
  | .balanceInsufficient a => (fa a).map .balanceInsufficient
  | .orderRejected => some .orderRejected
  | .orderAlreadyCancelled => some .orderAlreadyCancelled
  | .orderAlreadyFullyFilled => some .orderAlreadyFullyFilled

def OrderErr.traverse : OrderErr A I → Option (OrderErr A' I')
  | .connectivity => some .connectivity
  | .rejected e => (e.traverse fa fi).map .rejected

def OKey.traverse (k : OKey E I) : Option (OKey E' I') :=
  match fe k.exchange, fi k.instrument with
  | some e, some i => some { exchange := e, instrument := i, cid := k.cid }
  | _, _ => none

def OState.traverse : OState A I → Option (OState A' I')
  | .active p => some (.active p)
  | .cancelled p => some (.cancelled p)
  | .fullyFilled => some .fullyFilled
  | .expired => some .expired
  | .openFailed e => (e.traverse fa fi).map .openFailed

def OrderSnap.traverse (o : OrderSnap E A I) : Option (OrderSnap E' A' I') :=
  match o.key.traverse fe fi, o.state.traverse fa fi with
  | some k, some s => some { key := k, payload := o.payload, state := s }
  | _, _ => none

def CancelResp.traverse (r : CancelResp E A I) : Option (CancelResp E' A' I') :=
  match r.key.traverse fe fi with
  | none => none
  | some k =>
    match r.state with
    | .ok c => some { key := k, state := .ok c }
    | .error oe => (oe.traverse fa fi).map fun oe => { key := k, state := .error oe }

def Trade.traverse (t : Trade I) : Option (Trade I') :=
  (fi t.instrument).map fun i => { instrument := i, payload := t.payload }

def Bal.traverse (b : Bal A) : Option (Bal A') :=
  (fa b.asset).map fun a => { asset := a, payload := b.payload }

def InstrSnap.traverse (s : InstrSnap E A I) : Option (InstrSnap E' A' I') :=
  match fi s.instrument, mapO (OrderSnap.traverse fe fa fi) s.orders with
  | some i, some os => some { instrument := i, orders := os }
  | _, _ => none

def AccSnap.traverse (s : AccSnap E A I) : Option (AccSnap E' A' I') :=
  match fe s.exchange, mapO (Bal.traverse fa) s.balances,
      mapO (InstrSnap.traverse fe fa fi) s.instruments with
  | some e, some bs, some is => some { exchange := e, balances := bs, instruments := is }
  | _, _, _ => none

def AEKind.traverse : AEKind E A I → Option (AEKind E' A' I')
  | .snapshot s => (s.traverse fe fa fi).map .snapshot
  | .balanceSnapshot b => (b.traverse fa).map .balanceSnapshot
  | .orderSnapshot o => (o.traverse fe fa fi).map .orderSnapshot
  | .orderCancelled r => (r.traverse fe fa fi).map .orderCancelled
  | .trade t => (t.traverse fi).map .trade

def AccEvent.traverse (ev : AccEvent E A I) : Option (AccEvent E' A' I') :=
  match fe ev.exchange, ev.kind.traverse fe fa fi with
  | some e, some k => some { exchange := e, kind := k }
  | _, _ => none

end traverse

/-- Inbound: every account event is applied to the exchange / asset / instrument indices its names
denote on `ex`, or rejected. -/
def specAccountEvent (c : Coll) (ex : Nat) (ev : AccEvent Nat Nat Nat) : Option (AccEvent Nat Nat Nat) :=
  ev.traverse (specExchangeIndex c ex) (specAssetIndex c ex) (specInstrumentIndex c ex)

def specOrderKey (c : Coll) (ex : Nat) (k : OKey Nat Nat) : Option (OKey Nat Nat) :=
  k.traverse (specExchangeIndex c ex) (specInstrumentIndex c ex)

/-! ## Well-formedness of the indexed collection (what C11 establishes for builder output) -/

/-- every key equals its position -/
def Indexed (c : Coll) : Prop :=
  c.exchanges.map (·.key) = List.range c.exchanges.length ∧
  c.assets.map (·.key) = List.range c.assets.length ∧
  c.instruments.map (·.key) = List.range c.instruments.length

instance (c : Coll) : Decidable (Indexed c) := by unfold Indexed; infer_instance

/-- `WF c ex`: keys are positions, exchange ids are pairwise distinct, and on exchange `ex` no two
(distinct) asset entries share a `name_exchange` and no two instrument entries share a
`name_exchange`. Names may be shared freely *across* exchanges. -/
def WF (c : Coll) (ex : Nat) : Prop :=
  Indexed c ∧
  (c.exchanges.map (·.id)).Nodup ∧
  c.assets.Pairwise (fun a b => ¬(a.exchange = ex ∧ b.exchange = ex ∧ a.nameExchange = b.nameExchange)) ∧
  c.instruments.Pairwise (fun a b => ¬(a.exchange = ex ∧ b.exchange = ex ∧ a.nameExchange = b.nameExchange))

instance (c : Coll) (ex : Nat) : Decidable (WF c ex) := by unfold WF; infer_instance

/-- `WFX c`: what routing needs of the collection — keys are positions and exchange ids are
pairwise distinct (no condition on names: the outbound direction is index → name only). -/
def WFX (c : Coll) : Prop := Indexed c ∧ (c.exchanges.map (·.id)).Nodup

instance (c : Coll) : Decidable (WFX c) := by unfold WFX; infer_instance

end BarterModel.ExecMap
