import BarterModel.Model.Position
import BarterModel.Model.Stale
/-
C15 — unrealised PnL of an open position tracks the instrument's latest price.

Concrete model (first half), over exact rationals, of
  `volume_weighted_mid_price`                    barter-data/src/books/mod.rs:309-312
  `OrderBookL1::volume_weighed_mid_price`        barter-data/src/subscription/book.rs:57-62
  `DefaultInstrumentMarketData::price`           barter/src/engine/state/instrument/data.rs:73-77
  `DefaultInstrumentMarketData::process`         barter/src/engine/state/instrument/data.rs:85-108
        (the two registers are `Stale.MarketData.trade` / `.bookL1`, C09's model)
  `InstrumentState::update_from_market`          barter/src/engine/state/instrument/mod.rs:339-356
  `InstrumentState::update_from_trade`           barter/src/engine/state/instrument/mod.rs:323-333
        (= `Position.PositionManager.update`, C02's model)
  `EngineState::update_from_market`              barter/src/engine/state/mod.rs:174-189
  `EngineState::update_from_account`, `AccountEventKind::Trade` arm   state/mod.rs:153-158
  `Engine::process`, `EngineEvent::Market(Item)` / `EngineEvent::Account(Item(Trade))` arms
                                                 barter/src/engine/mod.rs:144-185, 263-315

What is dropped because no C15 clause reads it: connectivity (C14), `GlobalData`
(`DefaultGlobalData::process` is a no-op), the clock, the tear sheet (C16), the returned
`PositionExited` (C02), the audit. Trading is disabled, so `Engine::process` generates no orders.

As in C09's model, `Stale.MarketData.l1 = none` is the default `OrderBookL1` (no levels) and an
`L1` payload always carries both sides; a one-sided `OrderBookL1` payload is outside the model
(assumption, see props/C15.py).

The second half is the **abstract spec**, written from the property text: the estimate, the
"current price", and which price the unrealised PnL must be evaluated at after every event.
-/
namespace BarterModel.Unrealised
open BarterModel.Position BarterModel.Stale

/-! ## Concrete model -/

/-- `volume_weighted_mid_price(best_bid, best_ask)` (books/mod.rs:309-312):
`(bid.price * ask.amount + ask.price * bid.amount) / (bid.amount + ask.amount)`.
`Decimal` panics when the two amounts sum to zero; `Rat` gives 0 there — outside the model. -/
def volumeWeightedMidPrice (x : L1) : Rat :=
  ((x.bidP * x.askA) + (x.askP * x.bidA)) / (x.bidA + x.askA)

/-- `DefaultInstrumentMarketData::price` (data.rs:73-77):
`self.l1.volume_weighed_mid_price().or(self.last_traded_price.map(|t| t.value))`. -/
def price (d : MarketData) : Option Rat :=
  (d.l1.map volumeWeightedMidPrice).or (d.lastTrade.map (·.2))

/-- `DataKind` restricted to what `DefaultInstrumentMarketData::process` distinguishes:
a public trade (price already converted by `Decimal::from_f64`), an `OrderBookL1` payload, and
every other kind (`OrderBook`, `Candle`, `Liquidation`), which `process` ignores. -/
inductive MarketKind where
  | trade (price : Rat)
  | bookL1 (x : L1)
  | other
  deriving DecidableEq, Repr

/-- `MarketEvent<InstrumentIndex, DataKind>`: `time` is `time_exchange`. -/
structure MarketEvent where
  instrument : Nat
  time : Int
  kind : MarketKind
  deriving DecidableEq, Repr

/-- `DefaultInstrumentMarketData::process(&MarketEvent)` (data.rs:85-108). -/
def processData (d : MarketData) (ev : MarketEvent) : MarketData :=
  match ev.kind with
  | .trade p => d.trade ev.time p
  | .bookL1 x => d.bookL1 ev.time x
  | .other => d

/-- `InstrumentState` restricted to `data` and `position`. -/
structure InstrumentState where
  data : MarketData
  position : PositionManager
  deriving DecidableEq, Repr

def InstrumentState.init : InstrumentState := ⟨MarketData.init, PositionManager.init⟩

/-- `InstrumentState::update_from_market` (instrument/mod.rs:339-356): process the data, then — if a
position is open and `price()` is available — `position.update_pnl_unrealised(price)`. -/
def InstrumentState.updateFromMarket (s : InstrumentState) (ev : MarketEvent) : InstrumentState :=
  let data := processData s.data ev
  match s.position.current with
  | none => { s with data := data }
  | some position =>
    match price data with
    | none => { s with data := data }
    | some pr => { data := data, position := { current := some (position.updatePnlUnrealised pr) } }

/-- `AccountEventKind::Trade` arm (state/mod.rs:153-158): `data.process(account event)` is a no-op
for `DefaultInstrumentMarketData` (data.rs:111-117), then `InstrumentState::update_from_trade`
(instrument/mod.rs:323-333). -/
def InstrumentState.updateFromTrade (s : InstrumentState) (t : Trade) : InstrumentState :=
  { s with position := (s.position.update t).1 }

/-- `EngineState.instruments` (an `IndexMap` addressed by `InstrumentIndex` = position). -/
abbrev EngineState := List InstrumentState

def EngineState.init (n : Nat) : EngineState := List.replicate n InstrumentState.init

/-- `EngineState::update_from_market` (state/mod.rs:174-189): `instrument_index_mut(&event.instrument)`
(panics when out of range: here unchanged, the driver prints `panic`), then
`instrument_state.update_from_market(event)`. -/
def EngineState.updateFromMarket (s : EngineState) (ev : MarketEvent) : EngineState :=
  modifyAt s ev.instrument (fun st => st.updateFromMarket ev)

/-- `EngineState::update_from_account`, `AccountEventKind::Trade` (state/mod.rs:153-158). -/
def EngineState.updateFromTrade (s : EngineState) (t : Trade) : EngineState :=
  modifyAt s t.instrument (fun st => st.updateFromTrade t)

/-- The two kinds of `EngineEvent` the property quantifies over: a market item and a fill. -/
inductive Ev where
  | market (ev : MarketEvent)
  | fill (t : Trade)
  deriving DecidableEq, Repr

def Ev.instrument : Ev → Nat
  | .market ev => ev.instrument
  | .fill t => t.instrument

/-- `Engine::process` on `EngineEvent::Market(MarketStreamEvent::Item(_))` /
`EngineEvent::Account(AccountStreamEvent::Item(AccountEvent { kind: Trade(_) }))`
(engine/mod.rs:144-185 → 292-315 / 263-286), trading disabled. -/
def EngineState.process (s : EngineState) : Ev → EngineState
  | .market ev => s.updateFromMarket ev
  | .fill t => s.updateFromTrade t

def EngineState.run (s : EngineState) (evs : List Ev) : EngineState := evs.foldl EngineState.process s

/-- Observation: `instruments[i].position.current.pnl_unrealised`. -/
def InstrumentState.upnl (s : InstrumentState) : Option Rat := s.position.current.map (·.pnlUnrealised)

/-! ## Abstract spec (from the property text)

"After the engine processes any market event that yields a price for an instrument with an open
position, that position's unrealised PnL equals the documented estimate — price move on the open
quantity minus pro-rata estimated exit fees — evaluated at the instrument's current price; it is
never left at a value computed from an older price. After a fill it equals the same estimate at the
fill price until newer market data arrives."

The spec does not re-derive what other properties own: the open position's side, average entry
price, open and maximal quantity and entry fees are those of the position model (C02), the two
market-data registers are those of C09. It states (a) the estimate, (b) the current price, (c) the
*mark*: the price the unrealised PnL has to be evaluated at after each event. -/

/-- (a) The documented estimate of closing the open quantity at `price`: the price move on the open
quantity (in favour of a long when the price rises, of a short when it falls) minus the exit fees
estimated pro rata: the fees paid to enter `quantityAbsMax`, scaled to the quantity still open. -/
def estimate (p : Position) (price : Rat) : Rat :=
  let move := match p.side with
    | .buy => price - p.priceEntryAverage
    | .sell => p.priceEntryAverage - price
  move * p.quantityAbs - p.feesEnter * (p.quantityAbs / p.quantityAbsMax)

/-- (b) The instrument's current price: the volume-weighted mid of the top of book when one is
held (bid weighted by the ask amount, ask by the bid amount), else the last traded price. -/
def currentPrice (d : MarketData) : Option Rat :=
  match d.l1, d.lastTrade with
  | some x, _ => some (x.bidP * (x.askA / (x.bidA + x.askA)) + x.askP * (x.bidA / (x.bidA + x.askA)))
  | none, some (_, p) => some p
  | none, none => none

/-- Where the mark comes from. `openingFill`: a fill that opened the position (first fill on a flat
instrument or the remainder of a flip); `fill`: a fill that increased or reduced it; `market`: a
market event after which a current price exists. -/
inductive Src where
  | openingFill
  | fill
  | market
  deriving DecidableEq, Repr

structure Mark where
  price : Rat
  src : Src
  deriving DecidableEq, Repr

/-- A fill opens a position when the instrument is flat, or when it is on the opposite side and
larger than the open quantity (the remainder opens the next position). -/
def opens (cur : Option Position) (t : Trade) : Bool :=
  match cur with
  | none => true
  | some p => decide (p.side ≠ t.side ∧ p.quantityAbs < abs t.quantity)

/-- Spec state of one instrument: the registers (C09), the position as the fills alone determine it
(C02; its own `pnlUnrealised` field is never read by the spec), and the mark. -/
structure SpecI where
  data : MarketData
  pm : PositionManager
  mark : Option Mark
  deriving DecidableEq, Repr

def SpecI.init : SpecI := ⟨MarketData.init, PositionManager.init, none⟩

/-- (c) after a fill the mark is the fill price. -/
def SpecI.fill (s : SpecI) (t : Trade) : SpecI :=
  { s with
    pm := (s.pm.update t).1
    mark := some ⟨t.price, if opens s.pm.current t then .openingFill else .fill⟩ }

/-- (c) after a market event the mark is the current price if there is one (whatever the event
carried: the estimate is never left at an older price); otherwise it stays.
Reading of the text made explicit: "current price" is the price held after the event was processed
and "newer market data" is any market item for the instrument arriving after the fill (arrival
order, not exchange time) — a stale or price-less item also moves the mark to the held current
price (the property's observation point is `pnl_unrealised` vs `price()` after every market event). -/
def SpecI.market (s : SpecI) (ev : MarketEvent) : SpecI :=
  let data := processData s.data ev
  { s with
    data := data
    mark := match currentPrice data with
      | some p => some ⟨p, .market⟩
      | none => s.mark }

/-- What the property requires `pnl_unrealised` to be (`none`: no open position). -/
def SpecI.upnl (s : SpecI) : Option Rat :=
  match s.pm.current, s.mark with
  | some p, some m => some (estimate p m.price)
  | _, _ => none

abbrev Spec := List SpecI

def Spec.init (n : Nat) : Spec := List.replicate n SpecI.init

def Spec.process (s : Spec) : Ev → Spec
  | .market ev => modifyAt s ev.instrument (fun st => st.market ev)
  | .fill t => modifyAt s t.instrument (fun st => st.fill t)

def Spec.run (s : Spec) (evs : List Ev) : Spec := evs.foldl Spec.process s

end BarterModel.Unrealised
