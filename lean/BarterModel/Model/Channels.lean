import BarterModel.Model.Audit
/-
Sub-check C10C — channels, droppable transmitters, snapshot+updates pairs, merged streams and the
engine run loops that feed the audit stream.

Concrete model (function for function, Rust `file:line` in each doc comment) of
  barter-integration/src/channel.rs          Tx, UnboundedTx (+ Sink), UnboundedRx (Iterator / Stream),
                                             mpsc_unbounded, ChannelTxDroppable (new / new_disabled /
                                             disable / send), ChannelState
  barter-integration/src/snapshot.rs         Snapshot (value / as_ref / map), SnapUpdates
  barter-integration/src/stream/merge.rs     merge = map(Some).chain(once(None)) ×2, Merge, map_while, fuse
                                             (tokio-stream 0.1.19 combinators, each modelled on its own)
  barter-integration/src/stream/indexed.rs   IndexedStream::poll_next
  barter/src/engine/run.rs                   sync_run / async_run / sync_run_with_audit / async_run_with_audit
                                             over an abstract engine (`Runner`), with the audit transmitter a
                                             ChannelTxDroppable over an arbitrary `Tx`
  barter/src/engine/mod.rs:188-199           `Engine::shutdown` (last statement of all four runners): one
                                             `ExecutionRequest::Shutdown` per execution transmitter (`shutdownBroadcast`)
  barter/src/system/builder.rs:369-410       the run closures of `SystemBuilder::init`: runner, then the moved-in
                                             `audit_tx` is dropped (`runClosure`, `Op.dropTx`)
followed by the abstract specifications (written from the doc comments / names, not from the code):
  `SpecSys`   a droppable transmitter + its receiver as an append-only log with a read cursor
  `MergeSpec` what a merged stream may have produced, as a predicate over (inputs, output)
  `specReplay` a snapshot + updates pair reconstructs the producer's state.

A tokio unbounded mpsc channel is a FIFO list with a live-sender count and a receiver-alive flag
(single consumer; sends and receives are atomic steps; `TryRecvError::Empty` is never spurious when
no send is in flight). Streams are state machines `σ → σ × Poll α`; wakers are not modelled.
Core Lean only.
-/
namespace BarterModel.Chan

/-! ## `Poll<Option<T>>` -/

/-- `std::task::Poll<Option<T>>` as seen by a stream consumer. -/
inductive Poll (α : Type) where
  /-- `Poll::Pending` -/
  | pending
  /-- `Poll::Ready(Some(x))` -/
  | item (x : α)
  /-- `Poll::Ready(None)` -/
  | done
  deriving DecidableEq, Repr, Inhabited

/-! ## The channel (channel.rs:21-125, 175-178) -/

/-- `tokio::sync::mpsc::unbounded_channel` as used through `UnboundedTx` / `UnboundedRx`.
`queue`: sent and not yet received, oldest first; `senders`: live `UnboundedTx` handles;
`rxAlive`: the `UnboundedRx` has not been dropped. -/
structure Chan (α : Type) where
  queue : List α
  senders : Nat
  rxAlive : Bool
  deriving DecidableEq, Repr, Inhabited

/-- `mpsc_unbounded` / `Channel::new` (channel.rs:28-33, 175-178): empty, one transmitter. -/
def Chan.new {α : Type} : Chan α := ⟨[], 1, true⟩

/-- `<UnboundedTx as Tx>::send` (channel.rs:60-62): `Ok(())` (= `true`) and the item is queued iff the
receiver is alive; otherwise `Err(SendError(item))` and nothing changes. -/
def Chan.send {α : Type} (c : Chan α) (x : α) : Chan α × Bool :=
  if c.rxAlive then ({ c with queue := c.queue ++ [x] }, true) else (c, false)

/-- `<UnboundedTx as Sink>::{poll_ready, start_send, poll_flush}` (channel.rs:71-92): always ready,
`start_send` is `send`, flush / close do nothing. -/
def Chan.sinkSend {α : Type} (c : Chan α) (x : α) : Chan α × Bool := c.send x

/-- `UnboundedTx::clone` (derive, channel.rs:42). -/
def Chan.cloneTx {α : Type} (c : Chan α) : Chan α := { c with senders := c.senders + 1 }

/-- dropping one `UnboundedTx`. -/
def Chan.dropTx {α : Type} (c : Chan α) : Chan α := { c with senders := c.senders - 1 }

/-- dropping the `UnboundedRx`: the channel closes and everything still queued is lost. -/
def Chan.dropRx {α : Type} (c : Chan α) : Chan α := { c with rxAlive := false, queue := [] }

/-- `UnboundedReceiver::try_recv`. -/
inductive TryRecv (α : Type) where
  | item (x : α)
  | empty
  | disconnected
  deriving DecidableEq, Repr, Inhabited

def Chan.tryRecv {α : Type} (c : Chan α) : Chan α × TryRecv α :=
  match c.queue with
  | x :: q => ({ c with queue := q }, .item x)
  | [] => if c.senders = 0 then (c, .disconnected) else (c, .empty)

/-- Result of `<UnboundedRx as Iterator>::next`. -/
inductive IterOut (α : Type) where
  | some (x : α)
  /-- `None`: every transmitter is gone and the queue is drained -/
  | none
  /-- the `loop { try_recv … Empty => continue }` never leaves: the call busy-waits until some other
  thread sends or drops the last transmitter -/
  | spins
  deriving DecidableEq, Repr, Inhabited

/-- `<UnboundedRx as Iterator>::next` (channel.rs:99-111) with no concurrent transmitter activity. -/
def Chan.iterNext {α : Type} (c : Chan α) : Chan α × IterOut α :=
  match c.tryRecv with
  | (c', .item x) => (c', .some x)
  | (c', .disconnected) => (c', .none)
  | (c', .empty) => (c', .spins)

/-- `<UnboundedRx as Stream>::poll_next` (channel.rs:119-125) and
`UnboundedRx::into_stream().poll_next` (channel.rs:113-117): `poll_recv`. -/
def Chan.pollNext {α : Type} (c : Chan α) : Chan α × Poll α :=
  match c.queue with
  | x :: q => ({ c with queue := q }, .item x)
  | [] => if c.senders = 0 then (c, .done) else (c, .pending)

/-! ## `Tx` and `ChannelTxDroppable` (channel.rs:12-19, 127-174) -/

/-- The `Tx` trait (channel.rs:12-19): a transmitter acting on a world `ω`; `send` returns `true` for
`Ok(())`. `drop` is what dropping the transmitter does to the world. -/
structure Tx (ω α : Type) where
  send : ω → α → ω × Bool
  drop : ω → ω

/-- `UnboundedTx` as a `Tx` (channel.rs:53-63). -/
def chanTx {α : Type} : Tx (Chan α) α := ⟨Chan.send, Chan.dropTx⟩

/-- `ChannelState` (channel.rs:150-154); the wrapped transmitter itself lives in the world. -/
inductive DState where
  | active
  | disabled
  deriving DecidableEq, Repr, Inhabited

/-- `ChannelTxDroppable::new` (channel.rs:133-137). -/
def DState.new : DState := .active
/-- `ChannelTxDroppable::new_disabled` (channel.rs:139-143). -/
def DState.newDisabled : DState := .disabled

/-- `ChannelTxDroppable::send` (channel.rs:160-173): nothing when disabled; otherwise one `Tx::send`,
and on `Err` the state becomes `Disabled` (which drops the wrapped transmitter). -/
def dsend {ω α : Type} (tx : Tx ω α) (d : DState) (w : ω) (x : α) : DState × ω :=
  match d with
  | .disabled => (.disabled, w)
  | .active =>
    match tx.send w x with
    | (w', true) => (.active, w')
    | (w', false) => (.disabled, tx.drop w')

/-- `ChannelTxDroppable::disable` (channel.rs:145-147). -/
def ddisable {ω α : Type} (tx : Tx ω α) (d : DState) (w : ω) : DState × ω :=
  match d with
  | .disabled => (.disabled, w)
  | .active => (.disabled, tx.drop w)

/-- Dropping the `ChannelTxDroppable` itself (drop glue of `ChannelState`, channel.rs:150-154): an
`Active(tx)` drops the wrapped transmitter, a `Disabled` one holds nothing. This is how the audit stream
ends in production: `audit_tx` is moved into the run closure of `SystemBuilder::init`
(barter/src/system/builder.rs:377-383, 404-408) and dropped when the runner has returned. -/
def ddrop {ω α : Type} (tx : Tx ω α) (d : DState) (w : ω) : ω :=
  match d with
  | .disabled => w
  | .active => tx.drop w

/-- A sequence of `ChannelTxDroppable::send` calls. -/
def dsendAll {ω α : Type} (tx : Tx ω α) (d : DState) (w : ω) : List α → DState × ω
  | [] => (d, w)
  | x :: xs => let r := dsend tx d w x; dsendAll tx r.1 r.2 xs

/-- A transmitter that fails on some items (`bad x`) and otherwise appends to a log; the second
component counts drops. Used to exercise `ChannelTxDroppable` over a `Tx` that is not a channel. -/
def flakyTx (bad : Nat → Bool) : Tx (List Nat × Nat) Nat :=
  ⟨fun w x => if bad x then (w, false) else ((w.1 ++ [x], w.2), true), fun w => (w.1, w.2 + 1)⟩

/-! ## One droppable transmitter and its receiver: histories -/

/-- What can happen to a `ChannelTxDroppable<UnboundedTx<T>>` (the only transmitter of its channel)
and the matching `UnboundedRx`. -/
inductive Op (α : Type) where
  /-- `ChannelTxDroppable::send(x)` -/
  | dsend (x : α)
  /-- `ChannelTxDroppable::disable()` -/
  | disable
  /-- the receiver is polled once (`poll_next`) -/
  | recv
  /-- the receiver is dropped -/
  | dropRx
  /-- the `ChannelTxDroppable` itself is dropped, whatever its state (`ddrop`; the production end of the
  audit stream: builder.rs:377-383, 404-408) -/
  | dropTx
  deriving DecidableEq, Repr, Inhabited

structure Sys (α : Type) where
  d : DState
  c : Chan α
  /-- items the receiver has taken, oldest first -/
  got : List α
  /-- the receiver has seen the end of the stream (`Ready(None)`) -/
  sawEnd : Bool
  /-- the `ChannelTxDroppable` has been dropped; `d` keeps the `ChannelState` it had at that moment
  (`d = .active ∧ gone` = dropped while `Active`). In Rust the value is gone, so no `send` / `disable`
  can follow; in histories such operations are no-ops. -/
  gone : Bool
  deriving DecidableEq, Repr, Inhabited

def Sys.init {α : Type} (d : DState) : Sys α :=
  ⟨d, match d with | .active => Chan.new | .disabled => { (Chan.new : Chan α) with senders := 0 }, [], false, false⟩

def Sys.step {α : Type} (s : Sys α) : Op α → Sys α
  | .dsend x => if s.gone then s else let r := dsend chanTx s.d s.c x; { s with d := r.1, c := r.2 }
  | .disable => if s.gone then s else let r := ddisable (chanTx (α := α)) s.d s.c; { s with d := r.1, c := r.2 }
  | .dropTx => if s.gone then s else { s with gone := true, c := ddrop (chanTx (α := α)) s.d s.c }
  | .recv =>
    if s.c.rxAlive then
      match s.c.pollNext with
      | (c', .item x) => { s with c := c', got := s.got ++ [x] }
      | (c', .done) => { s with c := c', sawEnd := true }
      | (c', .pending) => { s with c := c' }
    else s
  | .dropRx => { s with c := s.c.dropRx }

def Sys.run {α : Type} (s : Sys α) (ops : List (Op α)) : Sys α := ops.foldl Sys.step s

/-- every item handed to `ChannelTxDroppable::send`, in call order -/
def offeredOf {α : Type} : List (Op α) → List α
  | [] => []
  | .dsend x :: r => x :: offeredOf r
  | _ :: r => offeredOf r

/-- the items handed over before the transmitter was first cut off (receiver dropped, `disable`, or the
transmitter itself dropped) -/
def acceptedOf {α : Type} : List (Op α) → List α
  | [] => []
  | .dsend x :: r => x :: acceptedOf r
  | .recv :: r => acceptedOf r
  | .disable :: _ => []
  | .dropRx :: _ => []
  | .dropTx :: _ => []

/-! ### Abstract specification: an append-only log with a read cursor

"A transmitter whose receiver may go away": while somebody listens, every item is appended to the
stream; the listener reads the stream strictly in order, one item per successful read; the first
item that cannot be delivered turns the transmitter off for good; later items vanish. -/

/-- The stream between transmitters and the listener: an append-only log and the listener's cursor. -/
structure SpecChan (α : Type) where
  /-- everything ever delivered into the stream, oldest first -/
  log : List α
  /-- how many of them the listener has read -/
  cursor : Nat
  /-- transmitters that still exist -/
  senders : Nat
  /-- the listener still exists -/
  listening : Bool
  deriving DecidableEq, Repr, Inhabited

def SpecChan.new {α : Type} : SpecChan α := ⟨[], 0, 1, true⟩

/-- delivering succeeds exactly while somebody listens -/
def SpecChan.send {α : Type} (c : SpecChan α) (x : α) : SpecChan α × Bool :=
  if c.listening then ({ c with log := c.log ++ [x] }, true) else (c, false)

/-- one read: the next unread item; the end once no transmitter is left; otherwise nothing yet -/
def SpecChan.read {α : Type} (c : SpecChan α) : SpecChan α × Poll α :=
  match c.log[c.cursor]? with
  | some x => ({ c with cursor := c.cursor + 1 }, .item x)
  | none => if c.senders = 0 then (c, .done) else (c, .pending)

/-- what the listener has read so far -/
def SpecChan.got {α : Type} (c : SpecChan α) : List α := c.log.take c.cursor

/-- delivered and not yet read (lost when the listener goes away) -/
def SpecChan.unread {α : Type} (c : SpecChan α) : List α := if c.listening then c.log.drop c.cursor else []

structure SpecSys (α : Type) where
  ch : SpecChan α
  /-- the droppable transmitter is still on -/
  live : Bool
  sawEnd : Bool
  deriving DecidableEq, Repr, Inhabited

def SpecSys.init {α : Type} (live : Bool) : SpecSys α :=
  ⟨{ (SpecChan.new : SpecChan α) with senders := if live then 1 else 0 }, live, false⟩

def SpecSys.step {α : Type} (s : SpecSys α) : Op α → SpecSys α
  | .dsend x =>
    if s.live then
      (if s.ch.listening then { s with ch := { s.ch with log := s.ch.log ++ [x] } }
       else { s with live := false, ch := { s.ch with senders := s.ch.senders - 1 } })
    else s
  | .disable =>
    if s.live then { s with live := false, ch := { s.ch with senders := s.ch.senders - 1 } } else s
  -- for the listener, a transmitter that is dropped and one that is switched off are the same thing:
  -- it delivers nothing any more and its handle on the stream is released
  | .dropTx =>
    if s.live then { s with live := false, ch := { s.ch with senders := s.ch.senders - 1 } } else s
  | .recv =>
    if s.ch.listening then
      match s.ch.read with
      | (ch', .done) => { s with ch := ch', sawEnd := true }
      | (ch', _) => { s with ch := ch' }
    else s
  | .dropRx => { s with ch := { s.ch with listening := false } }

def SpecSys.run {α : Type} (s : SpecSys α) (ops : List (Op α)) : SpecSys α := ops.foldl SpecSys.step s

/-! ## `Snapshot` and `SnapUpdates` (snapshot.rs) -/

/-- `Snapshot<T>(pub T)` (snapshot.rs:4-18). -/
structure Snapshot (α : Type) where
  val : α
  deriving DecidableEq, Repr, Inhabited

/-- `Snapshot::value` (snapshot.rs:21-23). -/
def Snapshot.value {α : Type} (s : Snapshot α) : α := s.val
/-- `Snapshot::as_ref` (snapshot.rs:25-28): the same snapshot, borrowed. -/
def Snapshot.asRef {α : Type} (s : Snapshot α) : Snapshot α := ⟨s.val⟩
/-- `Snapshot::map` (snapshot.rs:30-36). -/
def Snapshot.map {α β : Type} (s : Snapshot α) (f : α → β) : Snapshot β := ⟨f s.val⟩

/-- `SnapUpdates { snapshot, updates }` (snapshot.rs:39-45). -/
structure SnapUpdates (σ υ : Type) where
  snapshot : σ
  updates : υ
  deriving DecidableEq, Repr, Inhabited

/-- A producer that hands out `SnapUpdates { snapshot: state-now, updates: rx }` and from then on
applies every update to its own state and forwards it through a `ChannelTxDroppable` — the shape of
`SystemBuilder::init` (barter/src/system/builder.rs:369-383, 396-410) with the engine as producer. -/
structure Producer (σ υ : Type) where
  state : σ
  sys : Sys υ

def Producer.step {σ υ : Type} (apply : σ → υ → σ) (p : Producer σ υ) : Op υ → Producer σ υ
  | .dsend u => ⟨apply p.state u, p.sys.step (.dsend u)⟩
  | op => ⟨p.state, p.sys.step op⟩

def Producer.run {σ υ : Type} (apply : σ → υ → σ) (p : Producer σ υ) (ops : List (Op υ)) : Producer σ υ :=
  ops.foldl (Producer.step apply) p

/-- The consumer of a `SnapUpdates`: folds what it has received onto the snapshot. -/
def replay {σ υ : Type} (apply : σ → υ → σ) (su : SnapUpdates σ (List υ)) : σ :=
  su.updates.foldl apply su.snapshot

/-- Specification of a snapshot + updates pair: the consumer that has read `n` updates holds the
state the producer had after producing `n` updates. -/
def specReplay {σ υ : Type} (apply : σ → υ → σ) (snapshot : σ) (produced : List υ) (n : Nat) : σ :=
  (produced.take n).foldl apply snapshot

/-! ## Stream combinators (tokio-stream 0.1.19 `stream_ext/*.rs`, futures-util `stream/once.rs`) -/

/-- A stream: a state and `poll_next`. -/
abbrev Strm (σ α : Type) := σ → σ × Poll α

/-- `Fuse::poll_next` (tokio-stream fuse.rs:31-44): the inner stream is dropped at its first
`Ready(None)`; afterwards `Ready(None)` without polling. -/
def Strm.fuse {σ α : Type} (s : Strm σ α) : Strm (Option σ) α := fun
  | none => (none, .done)
  | some st =>
    match s st with
    | (st', .pending) => (some st', .pending)
    | (st', .item x) => (some st', .item x)
    | (_, .done) => (none, .done)

/-- `Map::poll_next` (tokio-stream map.rs:41-48). -/
def Strm.map {σ α β : Type} (f : α → β) (s : Strm σ α) : Strm σ β := fun st =>
  match s st with
  | (st', .pending) => (st', .pending)
  | (st', .item x) => (st', .item (f x))
  | (st', .done) => (st', .done)

/-- `futures::stream::once(std::future::ready(v))` (futures-util 0.3.34 `stream/once.rs:41-52`, read against the
source: `future: Option<Fut>`; `Some(fut)` is polled — `std::future::Ready` is ready at once —, the slot is
set to `None` and `Ready(Some(v))` returned; `None` gives `Ready(None)`): yields `v`, then ends. -/
def once {α : Type} : Strm (Option α) α := fun
  | some v => (none, .item v)
  | none => (none, .done)

/-- `Chain::poll_next` (tokio-stream chain.rs:39-49): `a` (fused) until it ends, then `b`. -/
def Strm.chain {σ τ α : Type} (a : Strm σ α) (b : Strm τ α) : Strm (Option σ × τ) α := fun st =>
  match a.fuse st.1 with
  | (fa, .pending) => ((fa, st.2), .pending)
  | (fa, .item v) => ((fa, st.2), .item v)
  | (fa, .done) => let r := b st.2; ((fa, r.1), r.2)

/-- second half of the free function `poll_next(first, second, cx)` (tokio-stream merge.rs:84-94);
`firstDone` is the local `done` after the first poll. -/
def pollSecond {σ τ α : Type} (second : Strm τ α) (sf : σ) (ss : τ) (firstDone : Bool) : (σ × τ) × Poll α :=
  match second ss with
  | (ss', .item v) => ((sf, ss'), .item v)
  | (ss', .done) => ((sf, ss'), if firstDone then .done else .pending)
  | (ss', .pending) => ((sf, ss'), .pending)

/-- the free function `poll_next(first, second, cx)` (tokio-stream merge.rs:66-95). -/
def pollPair {σ τ α : Type} (first : Strm σ α) (second : Strm τ α) (sf : σ) (ss : τ) : (σ × τ) × Poll α :=
  match first sf with
  | (sf', .item v) => ((sf', ss), .item v)
  | (sf', .done) => pollSecond second sf' ss true
  | (sf', .pending) => pollSecond second sf' ss false

/-- `Merge { a: Fuse<T>, b: Fuse<U>, a_first }` (tokio-stream merge.rs:9-33). -/
structure MergeSt (σ τ : Type) where
  a : Option σ
  b : Option τ
  aFirst : Bool
  deriving DecidableEq, Repr, Inhabited

/-- `Merge::new`. -/
def MergeSt.new {σ τ : Type} (a : σ) (b : τ) : MergeSt σ τ := ⟨some a, some b, true⟩

/-- `Merge::poll_next` (tokio-stream merge.rs:42-55): the flag flips on every poll. -/
def Strm.merge {σ τ α : Type} (a : Strm σ α) (b : Strm τ α) : Strm (MergeSt σ τ) α := fun m =>
  if m.aFirst then
    let r := pollPair a.fuse b.fuse m.a m.b
    (⟨r.1.1, r.1.2, false⟩, r.2)
  else
    let r := pollPair b.fuse a.fuse m.b m.a
    (⟨r.1.2, r.1.1, true⟩, r.2)

/-- `MapWhile::poll_next` (tokio-stream map_while.rs:48-65); the state carries `done`. -/
def Strm.mapWhile {σ α β : Type} (f : α → Option β) (s : Strm σ α) : Strm (σ × Bool) β := fun st =>
  if st.2 then (st, .done) else
  match s st.1 with
  | (st', .pending) => ((st', false), .pending)
  | (st', .done) => ((st', true), .done)
  | (st', .item x) =>
    match f x with
    | some y => ((st', false), .item y)
    | none => ((st', true), .done)

/-- One input of `merge`: `stream.map(Some).chain(once(ready(None)))` (merge.rs:11-17). -/
abbrev SideSt (σ α : Type) := Option σ × Option (Option α)

def side {σ α : Type} (s : Strm σ α) : Strm (SideSt σ α) (Option α) :=
  (s.map some).chain once

def SideSt.new {σ α : Type} (st : σ) : SideSt σ α := (some st, some none)

/-- State of the stream returned by `merge` (merge.rs:6-20). -/
abbrev MergedSt (σ τ α : Type) := Option (MergeSt (SideSt σ α) (SideSt τ α) × Bool)

/-- `merge(left, right)` (merge.rs:6-20): `left.merge(right).map_while(identity).fuse()`. -/
def merged {σ τ α : Type} (l : Strm σ α) (r : Strm τ α) : Strm (MergedSt σ τ α) α :=
  (((side l).merge (side r)).mapWhile id).fuse

def MergedSt.new {σ τ α : Type} (l : σ) (r : τ) : MergedSt σ τ α :=
  some (MergeSt.new (SideSt.new l) (SideSt.new r), false)

/-- `IndexedStream::poll_next` (indexed.rs:31-38): every item goes through `Indexer::index`
(`Except.error` = `Err(IndexError)`); errors are yielded, they do not end the stream. -/
def Strm.indexed {σ α β ε : Type} (index : α → Except ε β) (s : Strm σ α) : Strm σ (Except ε β) :=
  s.map index

/-! ## `merge` over two channel receivers: histories -/

/-- The merged stream of two `UnboundedRx::into_stream()`s. -/
abbrev MSt (α : Type) := MergedSt (Chan α) (Chan α) α

def MSt.poll {α : Type} : Strm (MSt α) α := merged Chan.pollNext Chan.pollNext

/-- the receiver of one input, if the merged stream still holds it -/
def MSt.chan {α : Type} (st : MSt α) (left : Bool) : Option (Chan α) :=
  match st with
  | none => none
  | some (m, _) =>
    match (if left then m.a else m.b) with
    | some (some c, _) => some c
    | _ => none

/-- replace the receiver-side view of one input's channel (no-op when the receiver is gone) -/
def MSt.setChan {α : Type} (st : MSt α) (left : Bool) (c : Chan α) : MSt α :=
  match st with
  | none => none
  | some (m, d) =>
    if left then
      match m.a with
      | some (some _, o) => some ({ m with a := some (some c, o) }, d)
      | _ => st
    else
      match m.b with
      | some (some _, o) => some ({ m with b := some (some c, o) }, d)
      | _ => st

inductive MOp (α : Type) where
  /-- the input's (only) transmitter sends -/
  | send (left : Bool) (x : α)
  /-- the input's transmitter is dropped -/
  | close (left : Bool)
  /-- the merged stream is polled -/
  | poll
  deriving DecidableEq, Repr, Inhabited

/-- A run of the merged stream with its bookkeeping. Items travel tagged with the input they were sent
on (`true` = left), so the merged output shows where each item came from. `accL/accR`: what each
transmitter got accepted; `closedL/closedR`: it has been dropped; `out`: what the merged stream yielded;
`ended`: it has returned `Ready(None)`; `last`: result of the most recent poll. -/
structure MRun (α : Type) where
  st : MSt (Bool × α)
  accL : List α
  accR : List α
  closedL : Bool
  closedR : Bool
  out : List (Bool × α)
  ended : Bool
  last : Option (Poll (Bool × α))

def MRun.init {α : Type} : MRun α := ⟨MergedSt.new Chan.new Chan.new, [], [], false, false, [], false, none⟩

def MRun.closed {α : Type} (r : MRun α) (left : Bool) : Bool := if left then r.closedL else r.closedR
def MRun.acc {α : Type} (r : MRun α) (left : Bool) : List α := if left then r.accL else r.accR

def MRun.step {α : Type} (r : MRun α) : MOp α → MRun α
  | .send left x =>
    if r.closed left then r else
    match r.st.chan left with
    | none => r  -- receiver dropped by a `Fuse`: `send` fails
    | some c =>
      match c.send (left, x) with
      | (c', true) =>
        let r' := { r with st := r.st.setChan left c' }
        if left then { r' with accL := r.accL ++ [x] } else { r' with accR := r.accR ++ [x] }
      | (_, false) => r
  | .close left =>
    if r.closed left then r else
    let r' := if left then { r with closedL := true } else { r with closedR := true }
    match r.st.chan left with
    | none => r'
    | some c => { r' with st := r.st.setChan left c.dropTx }
  | .poll =>
    match MSt.poll r.st with
    | (st', .pending) => { r with st := st', last := some .pending }
    | (st', .done) => { r with st := st', ended := true, last := some .done }
    | (st', .item x) => { r with st := st', out := r.out ++ [x], last := some (.item x) }

def MRun.run {α : Type} (r : MRun α) (ops : List (MOp α)) : MRun α := ops.foldl MRun.step r

/-- the items the merged stream yielded from one input, in order -/
def outOf {α : Type} (left : Bool) (out : List (Bool × α)) : List α :=
  (out.filter (·.1 == left)).map (·.2)

/-! ### Abstract specification of `merge`, from its doc comment

"Merge two Streams and terminate when either Stream terminates. Merged Stream is fused, so will end
after the first `None`."  As a predicate over (inputs, output): the output is an interleaving of a
prefix of each input (each input's order kept, nothing twice, nothing invented); it may have ended only
because some input terminated, and then that input has been passed on completely. -/

/-- `Interleave l r o`: `o` is an interleaving of `l` and `r` (both orders preserved, every element
of `l` and `r` used exactly once). -/
inductive Interleave {α : Type} : List α → List α → List α → Prop where
  | nil : Interleave [] [] []
  | left {x l r o} : Interleave l r o → Interleave (x :: l) r (x :: o)
  | right {x l r o} : Interleave l r o → Interleave l (x :: r) (x :: o)

/-- The content is in `left_prefix`, `right_prefix` and `end_reason`. `interleaved` is kept for
readability only: it holds for EVERY tagged list (`interleave_tags`; items travel tagged with the input
they were sent on, `outOf` splits by tag), so it constrains nothing — "each input's order kept, nothing
twice, nothing invented" is what the two prefix clauses say. -/
structure MergeSpec {α : Type} (l r : List α) (lEnded rEnded : Bool) (out : List (Bool × α)) (ended : Bool) : Prop where
  left_prefix : outOf true out <+: l
  right_prefix : outOf false out <+: r
  interleaved : Interleave (outOf true out) (outOf false out) (out.map (·.2))
  end_reason : ended = true → (lEnded = true ∧ outOf true out = l) ∨ (rEnded = true ∧ outOf false out = r)

/-- Executable form for a finished run: all `(left part, right part)` splits the specification allows
when the left producer intends to send `l` (and then drops its transmitter iff `lCloses`), likewise
right, and the consumer reads until the merged stream ends. -/
def allowedOutcomes {α : Type} (l r : List α) (lCloses rCloses : Bool) : List (List α × List α) :=
  ((List.range (l.length + 1)).flatMap fun i =>
    (List.range (r.length + 1)).map fun j => (l.take i, r.take j)).filter fun p =>
      (lCloses && p.1.length == l.length) || (rCloses && p.2.length == r.length)

/-! ## Engine run loops (barter/src/engine/run.rs) over an abstract engine -/

/-- What the run loops need from an engine: `process_with_audit` (engine/mod.rs:81-90),
`engine.audit(FeedEnded)` (audit/mod.rs:54-66) and `Terminal::is_terminal` of the record.
The last statement of all four runners, `let _ = engine.shutdown();` (run.rs:60, 117, 166, 227), touches
nothing of this: it only sends on the execution transmitters, whose channels are outside `ε`; it is
modelled by `shutdownBroadcast` and placed after the run by `runClosure` / `plainClosure` below. -/
structure Runner (ε ι κ : Type) where
  proc : ε → ι → ε × κ
  feedEnded : ε → ε × κ
  terminal : κ → Bool

/-- `sync_run` / `async_run` (run.rs:25-63, 131-169): returns the engine and the shutdown record. -/
def runPlain {ε ι κ : Type} (E : Runner ε ι κ) (e : ε) : List ι → ε × κ
  | [] => E.feedEnded e
  | ev :: rest =>
    let r := E.proc e ev
    if E.terminal r.2 then r else runPlain E r.1 rest

/-- The records the loop produces, in order (the last one is the shutdown record). -/
def runTicks {ε ι κ : Type} (E : Runner ε ι κ) (e : ε) : List ι → List κ
  | [] => [(E.feedEnded e).2]
  | ev :: rest =>
    let r := E.proc e ev
    if E.terminal r.2 then [r.2] else r.2 :: runTicks E r.1 rest

/-- Result of an audited run. -/
structure AuditedRun (ε κ ω : Type) where
  engine : ε
  shutdown : κ
  tx : DState
  world : ω

/-- `sync_run_with_audit` / `async_run_with_audit` (run.rs:75-120, 181-230). `env k` is whatever the
rest of the system does to the transmitter's world while the loop waits for its `k`-th `feed.next()`
(e.g. the audit consumer reads, or drops its receiver). -/
def runAudited {ε ι κ ω : Type} (E : Runner ε ι κ) (tx : Tx ω κ) (env : Nat → ω → ω) :
    Nat → ε → DState → ω → List ι → AuditedRun ε κ ω
  | k, e, d, w, [] =>
    let w := env k w
    let r := E.feedEnded e
    -- `audit_tx.send(shutdown_audit.clone())` (run.rs:109, 219)
    let s := dsend tx d w r.2
    ⟨r.1, r.2, s.1, s.2⟩
  | k, e, d, w, ev :: rest =>
    let w := env k w
    let r := E.proc e ev
    if E.terminal r.2 then
      let s := dsend tx d w r.2
      ⟨r.1, r.2, s.1, s.2⟩
    else
      -- `audit_tx.send(audit)` (run.rs:105, 215)
      let s := dsend tx d w r.2
      runAudited E tx env (k + 1) r.1 s.1 s.2 rest

/-- The operation history an audited run over a channel amounts to: before each `feed.next()` the
consumer does `env k`, then the loop sends the record. -/
def schedule {κ : Type} (env : Nat → List (Op κ)) : Nat → List κ → List (Op κ)
  | _, [] => []
  | k, t :: ts => env k ++ [.dsend t] ++ schedule env (k + 1) ts

/-- The whole transmitter + receiver system as the world of the audit transmitter (the world's own `d`
field is not used: the run loop carries the `ChannelTxDroppable` state itself). -/
def sysTx {κ : Type} : Tx (Sys κ) κ :=
  ⟨fun s x => let r := s.c.send x; ({ s with c := r.1 }, r.2), fun s => { s with c := s.c.dropTx }⟩

/-- An audit consumer described by what it does (`recv` / `dropRx`) while the loop waits for its `k`-th
`feed.next()`. -/
def consumerEnv {κ : Type} (cons : Nat → List (Op κ)) : Nat → Sys κ → Sys κ := fun k s => s.run (cons k)

/-- The audit channel together with what its consumer has read so far, as the world of the audit
transmitter: `send` / `drop` act on the channel. -/
def worldTx {κ : Type} : Tx (Chan κ × List κ) κ :=
  ⟨fun w x => let r := w.1.send x; ((r.1, w.2), r.2), fun w => (w.1.dropTx, w.2)⟩

/-- An audit consumer that, while the loop waits for its `K`-th `feed.next()`, reads everything queued and
then drops its receiver (and does nothing at any other time). -/
def dropEnv {κ : Type} (K : Nat) (i : Nat) (w : Chan κ × List κ) : Chan κ × List κ :=
  if i == K then (w.1.dropRx, w.2 ++ w.1.queue) else w

/-- The engine of `Model/Audit.lean` (C10) as a `Runner`: `process_with_audit`, the `FeedEnded` record
(which also consumes a sequence number), `Terminal for EngineAudit`. -/
def auditRunner : Runner Audit.EngA (Engine.Event × Audit.Ask) Audit.Tick where
  proc s ia := Audit.processWithAudit s ia.1 ia.2
  feedEnded s := (⟨s.eng, s.seq + 1⟩, .feedEnded s.seq)
  terminal := Audit.Tick.terminal

/-! ## The end of a run: `engine.shutdown()`, then the audit transmitter is dropped -/

/-- `ExecutionRequest` as an execution transmitter carries it (barter/src/execution/request.rs): an
order request (open / cancel) or `Shutdown`. -/
inductive XReq (ρ : Type) where
  | order (r : ρ)
  | shutdown
  deriving DecidableEq, Repr, Inhabited

/-- `<Engine as SyncShutdown>::shutdown` (barter/src/engine/mod.rs:188-199) over
`MultiExchangeTxMap::iter` (execution_tx.rs:97-102: the `Some` entries, in index order):
`for_each(|tx| { let _send_result = tx.send(ExecutionRequest::Shutdown); })` — one send per transmitter, the
result is thrown away, so a failed send (receiver gone, or any other `Err`) does not stop the loop.
`links[x]` is the world of exchange `x`'s transmitter, `none` where the map holds `None`. -/
def shutdownBroadcast {χ ρ : Type} (xtx : Tx χ (XReq ρ)) : List (Option χ) → List (Option χ)
  | [] => []
  | none :: r => none :: shutdownBroadcast xtx r
  | some w :: r => some (xtx.send w .shutdown).1 :: shutdownBroadcast xtx r

/-- The world of one execution transmitter as the harness wires it (`vh::engine_util::TestTx`): the real
`UnboundedTx` (`c` is its channel), or a transmitter that refuses every item with a recoverable error
(what any other `Tx` may do; nothing reaches `c`). -/
structure XW (ρ : Type) where
  refusing : Bool
  c : Chan (XReq ρ)
  deriving DecidableEq, Repr, Inhabited

def xwTx {ρ : Type} : Tx (XW ρ) (XReq ρ) :=
  ⟨fun w x => if w.refusing then (w, false) else let r := w.c.send x; ({ w with c := r.1 }, r.2),
   fun w => { w with c := w.c.dropTx }⟩

/-- The execution channels of the C03 / C10 engine model after a run (Model/Engine.lean: one global log of
delivered requests; exchange `x`'s channel content is the sub-list with `key.exchange = x`, in send order;
only `healthy` links ever deliver): what the receivers hold when nobody has read them. -/
def linkWorld (e : Engine.Eng) (x : Nat) : Option (XW Engine.Req) :=
  match e.links[x]? with
  | some .healthy => some ⟨false, ⟨(e.log.filter fun r => r.key.exchange == x).map .order, 1, true⟩⟩
  | some .closed => some ⟨false, ⟨[], 1, false⟩⟩
  | some .unhealthy => some ⟨true, ⟨[], 1, true⟩⟩
  | some .missing => none
  | none => none

def linkWorlds (e : Engine.Eng) : List (Option (XW Engine.Req)) :=
  (List.range e.links.length).map (linkWorld e)

/-- Result of a run closure of `SystemBuilder::init`. `tx`: the `ChannelState` the audit transmitter had
when it was dropped; `world`: the audit transmitter's world after the drop; `links`: the execution
transmitters' worlds after `engine.shutdown()`. -/
structure ClosureRun (ε κ ω χ : Type) where
  engine : ε
  shutdown : κ
  tx : DState
  world : ω
  links : List (Option χ)

/-- The closures `move || { let shutdown_audit = sync_run_with_audit(&mut feed_rx, &mut engine, &mut audit_tx);
(engine, shutdown_audit) }` / `async move { async_run_with_audit(..).await .. }` (builder.rs:377-383,
404-408) with `audit_tx = ChannelTxDroppable::new(..)` (builder.rs:371, 398): the runner — every record
sent, the terminal one last (run.rs:109, 219), THEN `engine.shutdown()` (run.rs:117, 227) on the execution
transmitters the engine holds after the loop (`linksOf`) — and when the closure returns, the moved-in
`audit_tx` goes out of scope (`ddrop`). -/
def runClosure {ε ι κ ω χ ρ : Type} (E : Runner ε ι κ) (tx : Tx ω κ) (env : Nat → ω → ω)
    (xtx : Tx χ (XReq ρ)) (linksOf : ε → List (Option χ)) (e : ε) (w : ω) (feed : List ι) : ClosureRun ε κ ω χ :=
  let a := runAudited E tx env 0 e .active w feed
  ⟨a.engine, a.shutdown, a.tx, ddrop tx a.tx a.world, shutdownBroadcast xtx (linksOf a.engine)⟩

/-- The closures around `sync_run` / `async_run` (builder.rs:387-392, 412-416; run.rs:60, 166): the loop,
then `engine.shutdown()`. -/
def plainClosure {ε ι κ χ ρ : Type} (E : Runner ε ι κ) (xtx : Tx χ (XReq ρ)) (linksOf : ε → List (Option χ))
    (e : ε) (feed : List ι) : ε × κ × List (Option χ) :=
  let r := runPlain E e feed
  (r.1, r.2, shutdownBroadcast xtx (linksOf r.1))

/-- What a run closure does to the outside, in program order: operations on the audit transmitter /
receiver system, and the shutdown broadcast. -/
inductive JOp (κ : Type) where
  | sys (op : Op κ)
  | shutdown
  deriving DecidableEq, Repr, Inhabited

/-- audit channel system and execution transmitters side by side -/
structure JW (κ χ : Type) where
  sys : Sys κ
  links : List (Option χ)

def JW.step {κ χ ρ : Type} (xtx : Tx χ (XReq ρ)) (w : JW κ χ) : JOp κ → JW κ χ
  | .sys op => { w with sys := w.sys.step op }
  | .shutdown => { w with links := shutdownBroadcast xtx w.links }

def JW.run {κ χ ρ : Type} (xtx : Tx χ (XReq ρ)) (w : JW κ χ) (ops : List (JOp κ)) : JW κ χ :=
  ops.foldl (JW.step xtx) w

/-- the audit-side operations of a joint history -/
def sysOps {κ : Type} : List (JOp κ) → List (Op κ)
  | [] => []
  | .sys op :: r => op :: sysOps r
  | .shutdown :: r => sysOps r

/-- The joint history of an audited run closure over a channel: the records are offered one by one with
the consumer acting in between (`schedule`), then the shutdown broadcast, then the drop of `audit_tx`. -/
def closureOps {κ : Type} (cons : Nat → List (Op κ)) (ticks : List κ) : List (JOp κ) :=
  (schedule cons 0 ticks).map .sys ++ [.shutdown, .sys .dropTx]

end BarterModel.Chan
