/-
Model of the two small collection types every engine output / audit record is built from:
  `NoneOneOrMany<T>`   barter-integration/src/collection/none_one_or_many.rs
  `OneOrMany<T>`       barter-integration/src/collection/one_or_many.rs
and of the code that assembles them:
  `ProcessAudit` / `EngineAudit` constructors, `add_output`, `add_errors`, `Terminal`
                       barter/src/engine/audit/mod.rs:88-290
  `SendRequestsOutput`, `SendCancelsAndOpensOutput`, `GenerateAlgoOrdersOutput`, `ActionOutput`
  (`is_empty`, `unrecoverable_errors`)
                       barter/src/engine/action/{send_requests,generate_algo_orders,mod}.rs
  the audit assembly at the end of `Engine::process`      barter/src/engine/mod.rs:146-186
  (as of /repo a7785e6: the AlgoOrders output is kept when an algo send fails unrecoverably)

Part 1 is the concrete model (one definition per Rust function, same match arms, same order of
`push`/`extend`). Part 2 (`namespace Spec`) is the abstract reading: a `NoneOneOrMany` is a finite
sequence, a `OneOrMany` is a non-empty finite sequence, and every operation is the list operation its
name says (`extend` = append, `len` = length, `contains` = membership, `from_iter` = the sequence
itself ...). Part 3 is the register machine the drivers run.

A Rust iterator argument (`impl IntoIterator<Item = T>`) is a `List`; `Vec::push x` is `++ [x]`,
`Vec::extend r` is `++ r`.
-/
namespace BarterModel.Collections

/-! ## Part 1a — `NoneOneOrMany<T>` -/

/-- `enum NoneOneOrMany<T> { None, One(T), Many(Vec<T>) }` (none_one_or_many.rs:9-15). The variants are
public: `Many(vec![])` and `Many(vec![x])` can be written down (and deserialised). -/
inductive NOM (α : Type) where
  | none
  | one (x : α)
  | many (l : List α)
  deriving DecidableEq, Repr, Inhabited

/-- `enum OneOrMany<T> { One(T), Many(Vec<T>) }` (one_or_many.rs:9-13). -/
inductive OOM (α : Type) where
  | one (x : α)
  | many (l : List α)
  deriving DecidableEq, Repr, Inhabited

namespace NOM
variable {α β : Type}

/-- `#[default] None` (none_one_or_many.rs:11). -/
def default : NOM α := .none

/-- `NoneOneOrMany::map` (none_one_or_many.rs:19-28). -/
def map (f : α → β) : NOM α → NOM β
  | .none => .none
  | .one x => .one (f x)
  | .many l => .many (l.map f)

/-- `impl FromIterator<T>` (none_one_or_many.rs:163-172): collect, then 0 ⇒ None, 1 ⇒ One
(`swap_remove(0)` of a one-element vector is that element), otherwise Many. -/
def fromIter : List α → NOM α
  | [] => .none
  | [x] => .one x
  | l => .many l

/-- `impl From<Vec<T>>` (none_one_or_many.rs:152-160): same three arms (`into_iter().next()`). -/
def fromVec : List α → NOM α
  | [] => .none
  | [x] => .one x
  | l => .many l

/-- `impl From<Option<T>>` (none_one_or_many.rs:142-149). -/
def fromOption : Option α → NOM α
  | .none => .none
  | .some x => .one x

/-- `NoneOneOrMany::extend` (none_one_or_many.rs:30-54). NB the arm `(One(left), Many(mut right))`
pushes `left` *behind* `right`. -/
def extend (self : NOM α) (other : List α) : NOM α :=
  match self, fromIter other with
  | .none, right => right
  | .one left, .none => .one left
  | .many left, .none => .many left
  | .one left, .one right => .many [left, right]
  | .one left, .many right => .many (right ++ [left])
  | .many left, .one right => .many (left ++ [right])
  | .many left, .many right => .many (left ++ right)

/-- `NoneOneOrMany::contains` (none_one_or_many.rs:56-65). -/
def contains [BEq α] (self : NOM α) (item : α) : Bool :=
  match self with
  | .none => false
  | .one v => v == item
  | .many vs => vs.contains item

/-- `NoneOneOrMany::len` (none_one_or_many.rs:67-73). -/
def len : NOM α → Nat
  | .none => 0
  | .one _ => 1
  | .many l => l.length

/-- `NoneOneOrMany::is_none` (none_one_or_many.rs:79-81). -/
def isNone : NOM α → Bool
  | .none => true
  | _ => false

/-- `NoneOneOrMany::is_empty` (none_one_or_many.rs:75-77): `self.is_none()`. -/
def isEmpty (self : NOM α) : Bool := self.isNone

/-- `NoneOneOrMany::is_one` (none_one_or_many.rs:83-85). -/
def isOne : NOM α → Bool
  | .one _ => true
  | _ => false

/-- `NoneOneOrMany::is_many` (none_one_or_many.rs:87-89). -/
def isMany : NOM α → Bool
  | .many _ => true
  | _ => false

/-- `NoneOneOrMany::into_option` (none_one_or_many.rs:91-97). -/
def intoOption : NOM α → Option (OOM α)
  | .none => .none
  | .one x => some (.one x)
  | .many l => some (.many l)

/-- `NoneOneOrMany::into_vec` (none_one_or_many.rs:99-105). -/
def intoVec : NOM α → List α
  | .none => []
  | .one x => [x]
  | .many l => l

/-- `impl AsRef<[T]>` / `Borrow<[T]>` (none_one_or_many.rs:113-128). -/
def asRef : NOM α → List α
  | .none => []
  | .one x => [x]
  | .many l => l

/-- `NoneOneOrMany::iter` and `impl IntoIterator for &NoneOneOrMany` (none_one_or_many.rs:107-109,
189-196): `self.as_ref().iter()`. -/
def iter (self : NOM α) : List α := self.asRef

/-- `impl IntoIterator for NoneOneOrMany` (none_one_or_many.rs:175-186): empty / once / vec iterator. -/
def intoIter : NOM α → List α
  | .none => []
  | .one x => [x]
  | .many l => l

/-- `impl BorrowMut<[T]>` and `impl IntoIterator for &mut NoneOneOrMany`
(none_one_or_many.rs:131-139, 198-213) used to update every element in place: the variant is kept. -/
def mutAll (f : α → α) : NOM α → NOM α
  | .none => .none
  | .one x => .one (f x)
  | .many l => .many (l.map f)

/-- Lexicographic order of `Vec<T>` / `[T]` (`impl Ord for [T]`). -/
def cmpList [Ord α] : List α → List α → Ordering
  | [], [] => .eq
  | [], _ :: _ => .lt
  | _ :: _, [] => .gt
  | a :: as, b :: bs =>
    match compare a b with
    | .eq => cmpList as bs
    | o => o

/-- position of the variant in the declaration (what `#[derive(PartialOrd, Ord)]` compares first). -/
def tag : NOM α → Nat
  | .none => 0
  | .one _ => 1
  | .many _ => 2

/-- `#[derive(Ord)]` (none_one_or_many.rs:9): variant position, then payload. -/
def cmp [Ord α] : NOM α → NOM α → Ordering
  | .none, .none => .eq
  | .one x, .one y => compare x y
  | .many l, .many r => cmpList l r
  | a, b => compare a.tag b.tag

/-- `#[derive(PartialEq)]`: structural. -/
def eq [DecidableEq α] (a b : NOM α) : Bool := decide (a = b)

end NOM

/-! ## Part 1b — `OneOrMany<T>` -/
namespace OOM
variable {α β : Type}

/-- `OneOrMany::map` (one_or_many.rs:17-25). -/
def map (f : α → β) : OOM α → OOM β
  | .one x => .one (f x)
  | .many l => .many (l.map f)

/-- `impl FromIterator<T>` (one_or_many.rs:151-159): exactly one item ⇒ One, *anything else* ⇒ Many
(an empty iterator gives `Many(vec![])`). -/
def fromIter : List α → OOM α
  | [x] => .one x
  | l => .many l

/-- `impl From<Vec<T>>` (one_or_many.rs:130-138): panics on the empty vector (`none` here). -/
def fromVec : List α → Option (OOM α)
  | [] => none
  | [x] => some (.one x)
  | l => some (.many l)

/-- `impl From<T>` (one_or_many.rs:124-128). -/
def fromItem (x : α) : OOM α := .one x

/-- `impl Default` (one_or_many.rs:90-94). -/
def default [Inhabited α] : OOM α := .one Inhabited.default

/-- `OneOrMany::extend` (one_or_many.rs:27-49). Same arms as `NoneOneOrMany::extend` without the
`None` ones, so extending by an empty iterator goes through `Many(vec![])`. -/
def extend (self : OOM α) (other : List α) : OOM α :=
  match self, fromIter other with
  | .one left, .one right => .many [left, right]
  | .one left, .many right => .many (right ++ [left])
  | .many left, .one right => .many (left ++ [right])
  | .many left, .many right => .many (left ++ right)

/-- `OneOrMany::contains` (one_or_many.rs:51-59). -/
def contains [BEq α] (self : OOM α) (item : α) : Bool :=
  match self with
  | .one v => v == item
  | .many vs => vs.contains item

/-- `OneOrMany::len` (one_or_many.rs:61-67). -/
def len : OOM α → Nat
  | .one _ => 1
  | .many l => l.length

/-- `OneOrMany::is_one` (one_or_many.rs:69-71). -/
def isOne : OOM α → Bool
  | .one _ => true
  | _ => false

/-- `OneOrMany::is_many` (one_or_many.rs:73-75). -/
def isMany : OOM α → Bool
  | .many _ => true
  | _ => false

/-- `OneOrMany::into_vec` (one_or_many.rs:77-82). -/
def intoVec : OOM α → List α
  | .one x => [x]
  | .many l => l

/-- `impl AsRef<[T]>` / `Borrow<[T]>` (one_or_many.rs:97-111). -/
def asRef : OOM α → List α
  | .one x => [x]
  | .many l => l

/-- `OneOrMany::iter` (one_or_many.rs:84-86). -/
def iter (self : OOM α) : List α := self.asRef

/-- `impl IntoIterator for OneOrMany` and `for &OneOrMany` (one_or_many.rs:162-185). -/
def intoIter : OOM α → List α
  | .one x => [x]
  | .many l => l

/-- `impl BorrowMut<[T]>`, `impl IntoIterator for &mut OneOrMany` (one_or_many.rs:114-121, 188-199). -/
def mutAll (f : α → α) : OOM α → OOM α
  | .one x => .one (f x)
  | .many l => .many (l.map f)

def tag : OOM α → Nat
  | .one _ => 0
  | .many _ => 1

/-- `#[derive(Ord)]` (one_or_many.rs:9). -/
def cmp [Ord α] : OOM α → OOM α → Ordering
  | .one x, .one y => compare x y
  | .many l, .many r => NOM.cmpList l r
  | a, b => compare a.tag b.tag

def eq [DecidableEq α] (a b : OOM α) : Bool := decide (a = b)

end OOM

/-- `impl From<NoneOneOrMany<T>> for Option<OneOrMany<T>>` (one_or_many.rs:140-148). -/
def optionOfNOM {α : Type} : NOM α → Option (OOM α)
  | .none => none
  | .one v => some (.one v)
  | .many vs => some (.many vs)

/-! ### serde (`#[derive(Serialize, Deserialize)]`, externally tagged), elements `i64`, as serde_json
prints it without whitespace. Deserialisation accepts exactly these shapes and performs no
normalisation, i.e. it is the constructor named by the tag. -/
def jsonList (l : List Int) : String := "[" ++ ",".intercalate (l.map toString) ++ "]"

def NOM.toJson : NOM Int → String
  | .none => "\"None\""
  | .one x => "{\"One\":" ++ toString x ++ "}"
  | .many l => "{\"Many\":" ++ jsonList l ++ "}"

def OOM.toJson : OOM Int → String
  | .one x => "{\"One\":" ++ toString x ++ "}"
  | .many l => "{\"Many\":" ++ jsonList l ++ "}"

/-! ## Part 1c — audit records (barter/src/engine/audit/mod.rs) -/

/-- `ProcessAudit<Event, Output>` (audit/mod.rs:159-168); `κ` is `UnrecoverableEngineError`. -/
structure ProcessAudit (ε ω κ : Type) where
  event : ε
  outputs : NOM ω
  errors : NOM κ
  deriving DecidableEq, Repr

namespace ProcessAudit
variable {ε ω κ : Type}

/-- `ProcessAudit::with_event` (audit/mod.rs:180-189). -/
def withEvent (e : ε) : ProcessAudit ε ω κ := ⟨e, .none, .none⟩

/-- `ProcessAudit::with_output` (audit/mod.rs:191-201). -/
def withOutput (e : ε) (o : ω) : ProcessAudit ε ω κ := ⟨e, .one o, .none⟩

/-- `ProcessAudit::with_trading_state_update` (audit/mod.rs:207-220): `wrap` is
`EngineOutput::OnTradingDisabled`. -/
def withTradingStateUpdate {δ : Type} (wrap : δ → ω) (e : ε) (disabled : Option δ) : ProcessAudit ε ω κ :=
  match disabled with
  | some d => ⟨e, .one (wrap d), .none⟩
  | none => withEvent e

/-- `UpdateFromAccountOutput` (engine/mod.rs:397-402). -/
inductive AccountOut (δ π : Type) where
  | none
  | onDisconnect (d : δ)
  | positionExit (p : π)

/-- `UpdateFromMarketOutput` (engine/mod.rs:406-410). -/
inductive MarketOut (δ : Type) where
  | none
  | onDisconnect (d : δ)

/-- `ProcessAudit::with_account_update` (audit/mod.rs:222-233). -/
def withAccountUpdate {δ π : Type} (wrapD : δ → ω) (wrapP : π → ω) (e : ε) :
    AccountOut δ π → ProcessAudit ε ω κ
  | .none => withEvent e
  | .onDisconnect d => withOutput e (wrapD d)
  | .positionExit p => withOutput e (wrapP p)

/-- `ProcessAudit::with_market_update` (audit/mod.rs:235-245). -/
def withMarketUpdate {δ : Type} (wrapD : δ → ω) (e : ε) : MarketOut δ → ProcessAudit ε ω κ
  | .none => withEvent e
  | .onDisconnect d => withOutput e (wrapD d)

/-- `ProcessAudit::add_output` (audit/mod.rs:249-264): `outputs.extend(NoneOneOrMany::One(output))`. -/
def addOutput (self : ProcessAudit ε ω κ) (o : ω) : ProcessAudit ε ω κ :=
  { self with outputs := self.outputs.extend (NOM.one o).intoIter }

/-- `ProcessAudit::add_errors` (audit/mod.rs:266-281): `errors.extend(errs)`. -/
def addErrors (self : ProcessAudit ε ω κ) (errs : List κ) : ProcessAudit ε ω κ :=
  { self with errors := self.errors.extend errs }

/-- `impl Terminal for ProcessAudit` (audit/mod.rs:170-177). -/
def isTerminal (evTerminal : ε → Bool) (self : ProcessAudit ε ω κ) : Bool :=
  evTerminal self.event || !self.errors.isEmpty

end ProcessAudit

/-- `EngineAudit<Event, Output>` (audit/mod.rs:88-95). -/
inductive EngineAudit (ε ω κ : Type) where
  | feedEnded
  | process (p : ProcessAudit ε ω κ)
  deriving DecidableEq, Repr

namespace EngineAudit
variable {ε ω κ : Type}

/-- `EngineAudit::process` (audit/mod.rs:116-121). -/
def ofEvent (e : ε) : EngineAudit ε ω κ := .process (ProcessAudit.withEvent e)

/-- `EngineAudit::process_with_output` (audit/mod.rs:123-129). -/
def processWithOutput (e : ε) (o : ω) : EngineAudit ε ω κ := .process (ProcessAudit.withOutput e o)

/-- `EngineAudit::process_with_output_and_errs` (audit/mod.rs:131-146). -/
def processWithOutputAndErrs (e : ε) (unrecoverable : List κ) (o : ω) : EngineAudit ε ω κ :=
  .process ⟨e, .one o, NOM.fromIter unrecoverable⟩

/-- `EngineAudit::with_process_and_err` (audit/mod.rs:148-157). -/
def withProcessAndErr (p : ProcessAudit ε ω κ) (unrecoverable : List κ) : EngineAudit ε ω κ :=
  .process (p.addErrors unrecoverable)

/-- `impl Terminal for EngineAudit` (audit/mod.rs:97-107). -/
def isTerminal (evTerminal : ε → Bool) : EngineAudit ε ω κ → Bool
  | .feedEnded => true
  | .process p => p.isTerminal evTerminal

end EngineAudit

/-! ## Part 1d — action outputs (barter/src/engine/action) -/

/-- `EngineError` (engine/error.rs:11-18): `ρ'` recoverable payload, `κ` unrecoverable payload. -/
inductive EngineError (ρ' κ : Type) where
  | recoverable (r : ρ')
  | unrecoverable (k : κ)
  deriving DecidableEq, Repr

/-- `SendRequestsOutput<Kind>` (send_requests.rs:157-163); `ρ` is the request type. -/
structure SendRequestsOutput (ρ ρ' κ : Type) where
  sent : NOM ρ
  errors : NOM (ρ × EngineError ρ' κ)
  deriving Repr

namespace SendRequestsOutput
variable {ρ ρ' κ : Type}

/-- `Ok(request)` side of `partition_result` -/
def sentOf : ρ × Option (EngineError ρ' κ) → Option ρ
  | (r, none) => some r
  | (_, some _) => none

/-- `Err((request, error))` side of `partition_result` -/
def errorOf : ρ × Option (EngineError ρ' κ) → Option (ρ × EngineError ρ' κ)
  | (_, none) => none
  | (r, some e) => some (r, e)

/-- the closure of `unrecoverable_errors` (send_requests.rs:175-178) -/
def unrecOf : ρ × EngineError ρ' κ → Option κ
  | (_, .unrecoverable k) => some k
  | (_, .recoverable _) => none

/-- the tail of `send_requests` (send_requests.rs:61-72): `partition_result` of the per-request
results (in request order), then `NoneOneOrMany::from(Vec)` on each side. -/
def ofResults (results : List (ρ × Option (EngineError ρ' κ))) : SendRequestsOutput ρ ρ' κ :=
  { sent := NOM.fromVec (results.filterMap sentOf),
    errors := NOM.fromVec (results.filterMap errorOf) }

/-- `impl Default` (send_requests.rs:183-192). -/
def default : SendRequestsOutput ρ ρ' κ := ⟨NOM.default, NOM.default⟩

/-- `SendRequestsOutput::is_empty` (send_requests.rs:166-169). -/
def isEmpty (self : SendRequestsOutput ρ ρ' κ) : Bool := self.sent.isNone && self.errors.isNone

/-- `SendRequestsOutput::unrecoverable_errors` (send_requests.rs:171-181): `iter().filter_map().collect()`. -/
def unrecoverableErrors (self : SendRequestsOutput ρ ρ' κ) : NOM κ :=
  NOM.fromIter (self.errors.iter.filterMap unrecOf)

end SendRequestsOutput

/-- `SendCancelsAndOpensOutput` (send_requests.rs:123-131). -/
structure SendCancelsAndOpensOutput (ρc ρo ρ' κ : Type) where
  cancels : SendRequestsOutput ρc ρ' κ
  opens : SendRequestsOutput ρo ρ' κ
  deriving Repr

namespace SendCancelsAndOpensOutput
variable {ρc ρo ρ' κ : Type}

/-- `SendCancelsAndOpensOutput::is_empty` (send_requests.rs:134-137). -/
def isEmpty (self : SendCancelsAndOpensOutput ρc ρo ρ' κ) : Bool :=
  self.cancels.isEmpty && self.opens.isEmpty

/-- `SendCancelsAndOpensOutput::unrecoverable_errors` (send_requests.rs:139-144):
`cancels.unrecoverable_errors().extend(opens.unrecoverable_errors())`. -/
def unrecoverableErrors (self : SendCancelsAndOpensOutput ρc ρo ρ' κ) : NOM κ :=
  self.cancels.unrecoverableErrors.extend self.opens.unrecoverableErrors.intoIter

def default : SendCancelsAndOpensOutput ρc ρo ρ' κ := ⟨.default, .default⟩

end SendCancelsAndOpensOutput

/-- `GenerateAlgoOrdersOutput` (generate_algo_orders.rs:74-82); `φc`/`φo` are the refused requests. -/
structure GenerateAlgoOrdersOutput (ρc ρo ρ' κ φc φo : Type) where
  cancelsAndOpens : SendCancelsAndOpensOutput ρc ρo ρ' κ
  cancelsRefused : NOM φc
  opensRefused : NOM φo
  deriving Repr

namespace GenerateAlgoOrdersOutput
variable {ρc ρo ρ' κ φc φo : Type}

/-- `GenerateAlgoOrdersOutput::is_empty` (generate_algo_orders.rs:99-104). -/
def isEmpty (self : GenerateAlgoOrdersOutput ρc ρo ρ' κ φc φo) : Bool :=
  self.cancelsAndOpens.isEmpty && self.cancelsRefused.isNone && self.opensRefused.isNone

/-- `GenerateAlgoOrdersOutput::unrecoverable_errors` (generate_algo_orders.rs:106-109). -/
def unrecoverableErrors (self : GenerateAlgoOrdersOutput ρc ρo ρ' κ φc φo) : Option (OOM κ) :=
  self.cancelsAndOpens.unrecoverableErrors.intoOption

end GenerateAlgoOrdersOutput

/-- `ActionOutput` (action/mod.rs:28-35). -/
inductive ActionOutput (ρc ρo ρ' κ φc φo : Type) where
  | generateAlgoOrders (g : GenerateAlgoOrdersOutput ρc ρo ρ' κ φc φo)
  | cancelOrders (c : SendRequestsOutput ρc ρ' κ)
  | openOrders (o : SendRequestsOutput ρo ρ' κ)
  | closePositions (r : SendCancelsAndOpensOutput ρc ρo ρ' κ)

/-- `ActionOutput::unrecoverable_errors` (action/mod.rs:38-47): the per-variant `NoneOneOrMany`, then
`.into_option()`. -/
def ActionOutput.unrecoverableErrors {ρc ρo ρ' κ φc φo : Type} :
    ActionOutput ρc ρo ρ' κ φc φo → Option (OOM κ)
  | .generateAlgoOrders g => g.cancelsAndOpens.unrecoverableErrors.intoOption
  | .cancelOrders c => c.unrecoverableErrors.intoOption
  | .openOrders o => o.unrecoverableErrors.intoOption
  | .closePositions r => r.unrecoverableErrors.intoOption

/-! ## Part 1e — the audit assembly of `Engine::process` (engine/mod.rs:146-186)

What the engine did for the event is an input here: `Pre` is the result of the first `match`
(either the early `return`, or the `ProcessAudit` built by one of the `with_*` constructors), `algo`
is what `generate_algo_orders` returned if trading is enabled. -/

/-- what the engine knows about the algo output when it assembles the audit -/
structure AlgoView (ω κ : Type) where
  isEmpty : Bool
  unrecoverable : Option (OOM κ)
  asOutput : ω

/-- result of the first `match` in `Engine::process` -/
inductive Pre (ε ω κ : Type) where
  /-- `EngineEvent::Shutdown` ⇒ `return EngineAudit::process(event)` -/
  | shutdown (e : ε)
  /-- `EngineEvent::Command`, output with unrecoverable errors ⇒
  `return EngineAudit::process_with_output_and_errs(event, unrecoverable, output)` -/
  | commandFatal (e : ε) (unrecoverable : OOM κ) (o : ω)
  /-- `EngineEvent::Command` otherwise ⇒ `ProcessAudit::with_output(event, output)` -/
  | command (e : ε) (o : ω)
  /-- the three `with_*_update` constructors: at most one output, no error -/
  | update (e : ε) (o : Option ω)

def Pre.audit {ε ω κ : Type} : Pre ε ω κ → ProcessAudit ε ω κ
  | .shutdown e => .withEvent e
  | .commandFatal e u o => ⟨e, .one o, NOM.fromIter u.intoIter⟩
  | .command e o => .withOutput e o
  | .update e none => .withEvent e
  | .update e (some o) => .withOutput e o

/-- `Engine::process` from line 146 on. `algo = none` ⇔ `TradingState::Disabled`. -/
def assemble {ε ω κ : Type} (pre : Pre ε ω κ) (algo : Option (AlgoView ω κ)) : EngineAudit ε ω κ :=
  match pre with
  | .shutdown _ => .process pre.audit
  | .commandFatal _ _ _ => .process pre.audit
  | _ =>
    match algo with
    | none => .process pre.audit
    | some a =>
      if a.isEmpty then .process pre.audit
      else match a.unrecoverable with
        | some u => .process ((pre.audit.addOutput a.asOutput).addErrors u.intoIter)
        | none => .process (pre.audit.addOutput a.asOutput)

/-! ## Part 2 — abstract reading (written from the names / the types, not from the match arms)

A `NoneOneOrMany<T>` *is* a finite sequence of `T`, a `OneOrMany<T>` a non-empty one. The
representation is a size optimisation (no allocation for 0 or 1 item) and carries no information:
the representation of a sequence is determined by its length. -/
namespace Spec
variable {α β : Type}

/-- the representation a sequence must have -/
inductive Shape where
  | none | one | many
  deriving DecidableEq, Repr

def shapeOf (l : List α) : Shape :=
  if l.length = 0 then .none else if l.length = 1 then .one else .many

/-- building from an iterator / a vector / an option: the sequence of the items, in order -/
def fromItems (l : List α) : List α := l
def fromOption (o : Option α) : List α := o.toList
/-- `extend`: the items of `self`, followed by the items of `other` (as for `Vec::extend`) -/
def extend (self other : List α) : List α := self ++ other
def map (f : α → β) (l : List α) : List β := l.map f
def len (l : List α) : Nat := l.length
def isEmpty (l : List α) : Bool := l.length == 0
def contains [BEq α] (l : List α) (x : α) : Bool := l.any (· == x)
/-- every way of reading the collection yields the sequence -/
def items (l : List α) : List α := l
/-- `into_option`: nothing iff the sequence is empty -/
def intoOption (l : List α) : Option (List α) := if l.length = 0 then none else some l

/-- audit: outputs and errors are the sequences of everything added, in the order added -/
structure Audit (ω κ : Type) where
  outputs : List ω
  errors : List κ

def Audit.addOutput {ω κ : Type} (a : Audit ω κ) (o : ω) : Audit ω κ := { a with outputs := a.outputs ++ [o] }
def Audit.addErrors {ω κ : Type} (a : Audit ω κ) (es : List κ) : Audit ω κ := { a with errors := a.errors ++ es }
/-- a record ends the run iff its event does or it carries an unrecoverable error -/
def Audit.terminal {ω κ : Type} (evTerminal : Bool) (a : Audit ω κ) : Bool := evTerminal || a.errors.length != 0

/-- the unrecoverable errors of a batch of send results: those of the failed requests whose error is
unrecoverable, in request order; for cancels-and-opens: cancels first, then opens -/
def unrecoverableOf {ρ ρ' κ : Type} : ρ × Option (EngineError ρ' κ) → Option κ
  | (_, some (.unrecoverable k)) => some k
  | _ => none

def unrecoverable {ρ ρ' κ : Type} (results : List (ρ × Option (EngineError ρ' κ))) : List κ :=
  results.filterMap unrecoverableOf

end Spec

/-! ## Part 3 — the register machine run by the drivers (`Int` elements)

Registers: `n : NoneOneOrMany<i64>`, `o : OneOrMany<i64>`, `a : ProcessAudit<bool, i64>` with `i64`
error ids, plus a flag recording that the last operation panicked. Query operations do not change
the registers. -/

inductive NOp where
  /-- the variant written down literally (public constructor / `Deserialize`) -/
  | raw (v : NOM Int)
  | vec (l : List Int)
  | iter (l : List Int)
  | opt (o : Option Int)
  | dflt
  | ext (l : List Int)
  /-- `extend` with another `NoneOneOrMany` as the iterator -/
  | extN (v : NOM Int)
  /-- `map(|x| x + k)` -/
  | map (k : Int)
  /-- `for x in &mut n { *x += k }` -/
  | mutate (k : Int)
  deriving Repr

def NOp.apply (n : NOM Int) : NOp → NOM Int
  | .raw v => v
  | .vec l => NOM.fromVec l
  | .iter l => NOM.fromIter l
  | .opt o => NOM.fromOption o
  | .dflt => NOM.default
  | .ext l => n.extend l
  | .extN v => n.extend v.intoIter
  | .map k => n.map (· + k)
  | .mutate k => n.mutAll (· + k)

def runN (n : NOM Int) (ops : List NOp) : NOM Int := ops.foldl NOp.apply n

/-- abstract counterpart on sequences -/
def NOp.applySpec (s : List Int) : NOp → List Int
  | .raw v => v.asRef
  | .vec l => Spec.fromItems l
  | .iter l => Spec.fromItems l
  | .opt o => Spec.fromOption o
  | .dflt => []
  | .ext l => Spec.extend s l
  | .extN v => Spec.extend s v.asRef
  | .map k => Spec.map (· + k) s
  | .mutate k => Spec.map (· + k) s

def runNSpec (s : List Int) (ops : List NOp) : List Int := ops.foldl NOp.applySpec s

inductive OOp where
  | raw (v : OOM Int)
  | item (x : Int)
  | dflt
  /-- `From<Vec>`: panics on `[]` -/
  | vec (l : List Int)
  | iter (l : List Int)
  | ext (l : List Int)
  | extO (v : OOM Int)
  | map (k : Int)
  | mutate (k : Int)
  deriving Repr

/-- `none` = the operation panicked (register unchanged by the drivers) -/
def OOp.apply (o : OOM Int) : OOp → Option (OOM Int)
  | .raw v => some v
  | .item x => some (OOM.fromItem x)
  | .dflt => some OOM.default
  | .vec l => OOM.fromVec l
  | .iter l => some (OOM.fromIter l)
  | .ext l => some (o.extend l)
  | .extO v => some (o.extend v.intoIter)
  | .map k => some (o.map (· + k))
  | .mutate k => some (o.mutAll (· + k))

def OOp.applySpec (s : List Int) : OOp → Option (List Int)
  | .raw v => some v.asRef
  | .item x => some [x]
  | .dflt => some [0]
  | .vec l => if l.length = 0 then none else some l
  | .iter l => some l
  | .ext l => some (Spec.extend s l)
  | .extO v => some (Spec.extend s v.asRef)
  | .map k => some (Spec.map (· + k) s)
  | .mutate k => some (Spec.map (· + k) s)

def runO (o : OOM Int) (ops : List OOp) : OOM Int :=
  ops.foldl (fun o op => (op.apply o).getD o) o

def runOSpec (s : List Int) (ops : List OOp) : List Int :=
  ops.foldl (fun s op => (op.applySpec s).getD s) s

/-- what the driver's outputs are: `EngineOutput<i64, i64>` (engine/mod.rs:373-385); the payload of
`Commanded` / `AlgoOrders` is summarised by the driver when printing. -/
inductive Out where
  | td (d : Int)
  | ad (d : Int)
  | px (d : Int)
  | md (d : Int)
  | cmd
  | algo
  deriving DecidableEq, Repr

/-- audit register operations -/
inductive AOp where
  | withEvent (terminal : Bool)
  | withOutput (terminal : Bool) (o : Out)
  | outputAndErrs (terminal : Bool) (o : Out) (errs : List Int)
  | tradingState (terminal : Bool) (d : Option Int)
  | account (terminal : Bool) (kind : Nat) (d : Int)
  | market (terminal : Bool) (d : Option Int)
  | addOutput (o : Out)
  | addErrors (errs : List Int)
  | withProcessAndErr (errs : List Int)
  deriving Repr

abbrev AuditReg := ProcessAudit Bool Out Int

def AOp.apply (a : AuditReg) : AOp → AuditReg
  | .withEvent t => .withEvent t
  | .withOutput t o => .withOutput t o
  | .outputAndErrs t o errs =>
    match EngineAudit.processWithOutputAndErrs t errs o with
    | .process p => p
    | .feedEnded => a
  | .tradingState t d => .withTradingStateUpdate Out.td t d
  | .account t kind d =>
    .withAccountUpdate Out.ad Out.px t
      (if kind = 0 then .none else if kind = 1 then .onDisconnect d else .positionExit d)
  | .market t d =>
    .withMarketUpdate Out.md t (match d with | none => .none | some d => .onDisconnect d)
  | .addOutput o => a.addOutput o
  | .addErrors errs => a.addErrors errs
  | .withProcessAndErr errs =>
    match EngineAudit.withProcessAndErr a errs with
    | .process p => p
    | .feedEnded => a

def AOp.applySpec (s : Bool × Spec.Audit Out Int) : AOp → Bool × Spec.Audit Out Int
  | .withEvent t => (t, ⟨[], []⟩)
  | .withOutput t o => (t, ⟨[o], []⟩)
  | .outputAndErrs t o errs => (t, ⟨[o], errs⟩)
  | .tradingState t d => (t, ⟨(d.map Out.td).toList, []⟩)
  | .account t kind d => (t, ⟨if kind = 0 then [] else if kind = 1 then [.ad d] else [.px d], []⟩)
  | .market t d => (t, ⟨(d.map Out.md).toList, []⟩)
  | .addOutput o => (s.1, s.2.addOutput o)
  | .addErrors errs => (s.1, s.2.addErrors errs)
  | .withProcessAndErr errs => (s.1, s.2.addErrors errs)

def runA (a : AuditReg) (ops : List AOp) : AuditReg := ops.foldl AOp.apply a
def runASpec (s : Bool × Spec.Audit Out Int) (ops : List AOp) : Bool × Spec.Audit Out Int :=
  ops.foldl AOp.applySpec s

/-! ### one call of `Engine::process`, as far as the shape of its audit is concerned

The event alphabet `EngEv` has ten events: Shutdown, the four commands (SendCancelRequests,
SendOpenRequests, CancelOrders, ClosePositions), trading on / off, an account balance item, the market /
account reconnecting notices. What user code or the engine's state contributes is an input: the algo
requests of the tick, the requests a `ClosePositionsStrategy` returns, the cancel requests
`cancel_orders` derives from the tracked orders. Not modelled here: account items that exit a position
and market items (same `update` path, another first-stage output), `Unhealthy` / missing links.

A request is `(exchange, client order id)`. A send to an exchange whose link is dead fails with an
unrecoverable error naming the exchange (`send_request`, send_requests.rs:74-117; with unbounded
channels there is no recoverable failure); the scripted risk manager refuses the requests with
`cid ≥ 5000`. -/
abbrev Req := Nat × Nat
abbrev SendOut := SendRequestsOutput Req Unit Nat
abbrev GenOut := GenerateAlgoOrdersOutput Req Req Unit Nat Req Req
abbrev ActOut := ActionOutput Req Req Unit Nat Req Req

/-- `send_requests` over links described by `dead` -/
def sendRequests (dead : Nat → Bool) (reqs : List Req) : SendOut :=
  .ofResults (reqs.map fun r => (r, if dead r.1 then some (.unrecoverable r.1) else none))

def refused (r : Req) : Bool := decide (5000 ≤ r.2)

/-- `generate_algo_orders` (generate_algo_orders.rs:42-66) as far as its output is concerned -/
def generateAlgoOrders (dead : Nat → Bool) (cancels opens : List Req) : GenOut :=
  { cancelsAndOpens :=
      ⟨sendRequests dead (cancels.filter (!refused ·)), sendRequests dead (opens.filter (!refused ·))⟩,
    cancelsRefused := NOM.fromIter (cancels.filter refused),
    opensRefused := NOM.fromIter (opens.filter refused) }

inductive EngEv where
  | shutdown
  /-- `Command::SendCancelRequests(requests)` -/
  | cmdCancel (reqs : List Req)
  /-- `Command::SendOpenRequests(requests)` -/
  | cmdOpen (reqs : List Req)
  | tsOn
  | tsOff
  /-- an ACCOUNT stream item (a balance snapshot): it updates the state and produces no output. The
  constructor name is historical - it is not a market event. -/
  | mkt
  /-- `MarketStreamEvent::Reconnecting` -/
  | mktRe
  /-- `AccountStreamEvent::Reconnecting` -/
  | accRe
  /-- `Command::CancelOrders(filter)` (action/cancel_orders.rs:41-60): `reqs` are the cancel requests
  `cancel_orders` derives from the tracked orders selected by the filter, in the order it iterates
  them (which orders those are is C19's subject; here they are an input). No risk check. -/
  | cmdCancelOrders (reqs : List Req)
  /-- `Command::ClosePositions(filter)` (action/close_positions.rs:49-68): `cancels` / `opens` are what
  the `ClosePositionsStrategy` returned (user code, an input). No risk check; the cancels are sent
  first, then the opens; the output is `SendCancelsAndOpensOutput`. -/
  | cmdClose (cancels opens : List Req)
  deriving Repr

def EngEv.terminal : EngEv → Bool
  | .shutdown => true
  | _ => false

/-- the `EngineEvent::Command` arm of the first `match` of `Engine::process` (engine/mod.rs:150-158):
`errs` is the per-variant `NoneOneOrMany` of `ActionOutput::unrecoverable_errors` before its
`.into_option()` -/
def cmdPre (ev : EngEv) (errs : NOM Nat) (enabled : Bool) : Pre EngEv Out Nat × Bool :=
  match errs.intoOption with
  | some u => (.commandFatal ev u .cmd, enabled)
  | none => (.command ev .cmd, enabled)

/-- the first `match` of `Engine::process` (engine/mod.rs:146-169) and the trading state after it -/
def enginePre (dead : Nat → Bool) (enabled : Bool) (ev : EngEv) : Pre EngEv Out Nat × Bool :=
  match ev with
  | .shutdown => (.shutdown ev, enabled)
  | .cmdCancel reqs =>
    let out : ActOut := .cancelOrders (sendRequests dead reqs)
    match out.unrecoverableErrors with
    | some u => (.commandFatal ev u .cmd, enabled)
    | none => (.command ev .cmd, enabled)
  | .cmdOpen reqs =>
    let out : ActOut := .openOrders (sendRequests dead reqs)
    match out.unrecoverableErrors with
    | some u => (.commandFatal ev u .cmd, enabled)
    | none => (.command ev .cmd, enabled)
  | .tsOn => (.update ev none, true)
  | .tsOff => (.update ev (if enabled then some (.td 0) else none), false)
  | .mkt => (.update ev none, enabled)
  | .mktRe => (.update ev (some (.md 0)), enabled)
  | .accRe => (.update ev (some (.ad 0)), enabled)
  | .cmdCancelOrders reqs =>
    -- `ActionOutput::CancelOrders(self.cancel_orders(filter))` (engine/mod.rs:232-235)
    let out : ActOut := .cancelOrders (sendRequests dead reqs)
    match out.unrecoverableErrors with
    | some u => (.commandFatal ev u .cmd, enabled)
    | none => (.command ev .cmd, enabled)
  | .cmdClose cancels opens =>
    -- `ActionOutput::ClosePositions(self.close_positions(filter))` (engine/mod.rs:228-231):
    -- `send_requests(cancels)`, then `send_requests(opens)` (close_positions.rs:59-60)
    let out : ActOut := .closePositions ⟨sendRequests dead cancels, sendRequests dead opens⟩
    match out.unrecoverableErrors with
    | some u => (.commandFatal ev u .cmd, enabled)
    | none => (.command ev .cmd, enabled)

/-- `Engine::process`: the audit -/
def engineAudit (dead : Nat → Bool) (enabled : Bool) (ev : EngEv) (algoC algoO : List Req) :
    EngineAudit EngEv Out Nat :=
  let (pre, enabled') := enginePre dead enabled ev
  let g := generateAlgoOrders dead algoC algoO
  assemble pre (if enabled' then some ⟨g.isEmpty, g.unrecoverableErrors, .algo⟩ else none)

/-- the exchanges of the requests whose send fails, in request order -/
def failedSends (dead : Nat → Bool) (reqs : List Req) : List Nat :=
  (reqs.filter fun r => dead r.1).map (·.1)

/-- the unrecoverable send failures of a command's own requests, as (cancel side, open side), each in
request order -/
def cmdErrorParts (dead : Nat → Bool) : EngEv → List Nat × List Nat
  | .cmdCancel r => (failedSends dead r, [])
  | .cmdCancelOrders r => (failedSends dead r, [])
  | .cmdOpen r => ([], failedSends dead r)
  | .cmdClose c o => (failedSends dead c, failedSends dead o)
  | _ => ([], [])

/-- a command's own sends failed unrecoverably -/
def cmdFailed (dead : Nat → Bool) (ev : EngEv) : Bool :=
  !((cmdErrorParts dead ev).1 ++ (cmdErrorParts dead ev).2).isEmpty

/-- the trading state after the event -/
def enabledAfter (enabled : Bool) : EngEv → Bool
  | .tsOn => true
  | .tsOff => false
  | _ => enabled

/-- the unrecoverable send failures of the stage of one `Engine::process` that failed, as (cancel side,
open side), each in request order: a command's own sends; otherwise, if generation runs, the approved
algo cancels and the approved algo opens. -/
def specErrorParts (dead : Nat → Bool) (enabled : Bool) (ev : EngEv) (algoC algoO : List Req) :
    List Nat × List Nat :=
  if cmdFailed dead ev then cmdErrorParts dead ev
  else if enabledAfter enabled ev && !ev.terminal then
    (failedSends dead (algoC.filter (!refused ·)), failedSends dead (algoO.filter (!refused ·)))
  else ([], [])

/-- abstract reading of the errors of one `Engine::process` audit: the unrecoverable errors of the
stage that failed, in request order, cancels before opens (a command's own sends; otherwise, if
generation runs, the approved algo cancels followed by the approved algo opens). -/
def specEngineErrors (dead : Nat → Bool) (enabled : Bool) (ev : EngEv) (algoC algoO : List Req) : List Nat :=
  (specErrorParts dead enabled ev algoC algoO).1 ++ (specErrorParts dead enabled ev algoC algoO).2

/-- The one shape of (cancel side, open side) on which `extend` does not keep "cancels, then opens":
exactly one item `k` on the cancel side and two or more items, not all equal to `k`, on the open
side (`One(k).extend(opens)` = `Many(opens ++ [k])`). Decidable form of the right-hand side of
`nom_extend_order_iff` for a canonical `self`. -/
def Spec.reorders {α : Type} [BEq α] (c o : List α) : Bool :=
  match c with
  | [k] => decide (2 ≤ o.length) && o.any (· != k)
  | _ => false

/-- the length class that determines the variant of a canonical value: 0, 1, "2 or more" -/
def Spec.lenClass {α : Type} (l : List α) : Nat := min l.length 2

/-- abstract reading of the derived `Ord` on values whose representation is determined by the
sequence: the length class first, the lexicographic order of the items within a class -/
def Spec.cmpSeq (l r : List Int) : Ordering :=
  if Spec.lenClass l = Spec.lenClass r then NOM.cmpList l r else compare (Spec.lenClass l) (Spec.lenClass r)

/-- what the first stage of `Engine::process` reports for an event -/
def firstOutputs (enabled : Bool) : EngEv → List Out
  | .shutdown => []
  | .cmdCancel _ => [.cmd]
  | .cmdOpen _ => [.cmd]
  | .tsOn => []
  | .tsOff => if enabled then [.td 0] else []
  | .mkt => []
  | .mktRe => [.md 0]
  | .accRe => [.ad 0]
  | .cmdCancelOrders _ => [.cmd]
  | .cmdClose _ _ => [.cmd]

/-- abstract reading of the outputs of one `Engine::process` audit: what the first stage produced (the
command's output, the on-trading-disabled / on-disconnect output), followed by the AlgoOrders output
whenever generation ran and generated anything at all - sent, failed or refused (since /repo a7785e6
also when a send failed unrecoverably: nothing generated is dropped). -/
def specEngineOutputs (dead : Nat → Bool) (enabled : Bool) (ev : EngEv) (algoC algoO : List Req) : List Out :=
  if !ev.terminal && !cmdFailed dead ev && enabledAfter enabled ev && !(algoC.isEmpty && algoO.isEmpty)
  then firstOutputs enabled ev ++ [.algo]
  else firstOutputs enabled ev

end BarterModel.Collections
