/-
Model of the reconnecting-stream combinators (`barter-data/src/streams/reconnect/stream.rs`,
`reconnect/mod.rs`, `streams/consumer.rs:44-80`) and of `merge`
(`barter-integration/src/stream/merge.rs`, over the channels of `barter-integration/src/channel.rs`).

List-level trace semantics. All the combinators involved are sequential and pull-based (`chain`
polls its second stream only after the first ended, `then`/`scan` poll the source only when no
future is in flight, `flatten` polls the outer stream only when the current inner stream ended,
nothing buffers or polls ahead), so one run of a composed stream is a single linear *trace* of
  * `yield a`   an item handed to the consumer, and
  * `eff e`     a side effect that happened on the way (the `init` closure was invoked, a back-off
                `tokio::time::sleep` was awaited, the error handler was called, ...),
followed by either the end of the stream (`ends = true`) or by staying pending for ever
(`ends = false`). Each combinator is a function on such traces. Sleeps are explicit `sleep ms`
effects; the virtual-clock stamp of a trace entry is the sum of the sleeps before it (`stamps`).

NOT modelled: poll/wake scheduling (a trace is what a consumer sees when it keeps polling and the
paused clock auto-advances), `tokio_stream`'s `Merge` fairness flag as an implementation detail (the
merge model takes the flag of every poll as an *input*; the theorems quantify over all flag
sequences, the driver feeds the alternating sequence tokio-stream 0.1 uses), timer granularity,
`u64` overflow of `backoff_ms_current * multiplier`.
-/
namespace BarterModel.Streams

/-! ## Traces -/

/-- Side effects visible in a trace. -/
inductive Eff where
  /-- the `init_stream` closure was invoked and its future resolved (script entry consumed) -/
  | attempt
  /-- back-off sleep awaited inside `with_reconnect_backoff` (stream.rs:44-49) -/
  | sleep (ms : Nat)
  /-- scripted latency inside a connection (the harness's inner stream sleeps before its next item) -/
  | delay (ms : Nat)
  /-- the `with_error_handler` closure was called with this error (stream.rs:122-125) -/
  | handled (e : Nat)
  deriving DecidableEq, Repr, Inhabited

inductive Step (α : Type) where
  | yield (a : α)
  | eff (e : Eff)
  deriving Repr, Inhabited

instance {α : Type} [DecidableEq α] : DecidableEq (Step α) := fun a b =>
  match a, b with
  | .yield x, .yield y => if h : x = y then isTrue (by rw [h]) else isFalse (by intro h'; cases h'; exact h rfl)
  | .eff x, .eff y => if h : x = y then isTrue (by rw [h]) else isFalse (by intro h'; cases h'; exact h rfl)
  | .yield _, .eff _ => isFalse (by intro h; cases h)
  | .eff _, .yield _ => isFalse (by intro h; cases h)

/-- One run of a stream: its trace, and whether it then ends (`Poll::Ready(None)`) or stays
pending for ever. -/
structure Str (α : Type) where
  steps : List (Step α)
  ends : Bool
  deriving Repr, Inhabited

/-- The items of a trace, in order. -/
def yields {α : Type} : List (Step α) → List α
  | [] => []
  | .yield a :: r => a :: yields r
  | .eff _ :: r => yields r

/-- The effects of a trace, in order. -/
def effects {α : Type} : List (Step α) → List Eff
  | [] => []
  | .yield _ :: r => effects r
  | .eff e :: r => e :: effects r

def Eff.ms : Eff → Nat
  | .sleep ms => ms
  | .delay ms => ms
  | _ => 0

/-- Virtual-clock stamp of every trace entry, starting at `t` (sum of the sleeps before it). -/
def stamps {α : Type} : Nat → List (Step α) → List (Nat × Step α)
  | _, [] => []
  | t, .yield a :: r => (t, .yield a) :: stamps t r
  | t, .eff e :: r => (t + e.ms, .eff e) :: stamps (t + e.ms) r

/-! ## Generic combinators (futures / tokio-stream, by their documented sequential semantics) -/

/-- `StreamExt::map`. -/
def mapSteps {α β : Type} (f : α → β) : List (Step α) → List (Step β)
  | [] => []
  | .yield a :: r => .yield (f a) :: mapSteps f r
  | .eff e :: r => .eff e :: mapSteps f r

def Str.map {α β : Type} (f : α → β) (s : Str α) : Str β := ⟨mapSteps f s.steps, s.ends⟩

/-- `StreamExt::filter_map` whose closure may perform effects before answering. -/
def filterMapSteps {α β : Type} (f : α → List Eff × Option β) : List (Step α) → List (Step β)
  | [] => []
  | .eff e :: r => .eff e :: filterMapSteps f r
  | .yield a :: r =>
    match f a with
    | (effs, some b) => effs.map .eff ++ .yield b :: filterMapSteps f r
    | (effs, none) => effs.map .eff ++ filterMapSteps f r

def Str.filterMap {α β : Type} (f : α → List Eff × Option β) (s : Str α) : Str β :=
  ⟨filterMapSteps f s.steps, s.ends⟩

/-- `tokio_stream::StreamExt::map_while` (map_while.rs:47-62): the first `None` ends the stream,
whatever the source would still have produced (the source is not polled again). Returns the trace
and whether a `None` was hit. -/
def mapWhileSteps {α β : Type} (f : α → Option β) : List (Step α) → List (Step β) × Bool
  | [] => ([], false)
  | .eff e :: r => let (t, hit) := mapWhileSteps f r; (.eff e :: t, hit)
  | .yield a :: r =>
    match f a with
    | some b => let (t, hit) := mapWhileSteps f r; (.yield b :: t, hit)
    | none => ([], true)

def Str.mapWhile {α β : Type} (f : α → Option β) (s : Str α) : Str β :=
  let (t, hit) := mapWhileSteps f s.steps
  ⟨t, hit || s.ends⟩

/-- `stream::once(ready(a))`. -/
def Str.once {α : Type} (a : α) : Str α := ⟨[.yield a], true⟩

/-- `StreamExt::chain`: the second stream is polled only once the first has ended. -/
def Str.chain {α : Type} (s t : Str α) : Str α :=
  if s.ends then ⟨s.steps ++ t.steps, t.ends⟩ else s

/-- `StreamExt::flatten`: the outer stream is polled only when the current inner stream has ended;
an inner stream that stays pending blocks everything after it. -/
def flattenSteps {α : Type} : List (Step (Str α)) → Bool → Str α
  | [], ends => ⟨[], ends⟩
  | .eff e :: r, ends => let s := flattenSteps r ends; ⟨.eff e :: s.steps, s.ends⟩
  | .yield inner :: r, ends =>
    if inner.ends then let s := flattenSteps r ends; ⟨inner.steps ++ s.steps, s.ends⟩
    else ⟨inner.steps, false⟩

def Str.flatten {α : Type} (s : Str (Str α)) : Str α := flattenSteps s.steps s.ends

/-- `StreamExt::scan` whose closure returns a future that performs effects and then resolves to
`Some b` (the closure of `with_reconnect_backoff` never returns `None`). -/
def scanSteps {σ α β : Type} (f : σ → α → σ × List Eff × β) : σ → List (Step α) → List (Step β)
  | _, [] => []
  | s, .eff e :: r => .eff e :: scanSteps f s r
  | s, .yield a :: r =>
    match f s a with
    | (s', effs, b) => effs.map .eff ++ .yield b :: scanSteps f s' r

/-! ## Scripts -/

/-- `E` of the inner streams: an error id and what `is_terminal` answers for it. -/
structure Err where
  id : Nat
  terminal : Bool
  deriving DecidableEq, Repr, Inhabited

/-- `Result<T, E>` items of an inner stream. -/
inductive Res where
  | ok (x : Nat)
  | err (e : Err)
  deriving DecidableEq, Repr, Inhabited

/-- What one connection's inner stream does next. -/
inductive Elem where
  | item (x : Nat)
  | error (e : Nat) (terminal : Bool)
  | delay (ms : Nat)
  deriving DecidableEq, Repr, Inhabited

/-- Outcome of one invocation of the `init` closure. `hang = true`: after its scripted elements the
inner stream stays pending (a connection that is still open); `false`: it ends (dropped). -/
inductive Conn where
  | initFail
  | initOk (elems : List Elem) (hang : Bool)
  deriving DecidableEq, Repr, Inhabited

/-- The inner stream a successful `init` returns. -/
def elemSteps : List Elem → List (Step Res)
  | [] => []
  | .item x :: r => .yield (.ok x) :: elemSteps r
  | .error e t :: r => .yield (.err ⟨e, t⟩) :: elemSteps r
  | .delay ms :: r => .eff (.delay ms) :: elemSteps r

def connStream (elems : List Elem) (hang : Bool) : Str Res := ⟨elemSteps elems, !hang⟩

/-- `Result<St, InitError>` -/
inductive InitRes where
  | ok (s : Str Res)
  | err
  deriving Repr, Inhabited

def Conn.result : Conn → InitRes
  | .initFail => .err
  | .initOk elems hang => .ok (connStream elems hang)

/-- `stream::repeat_with(init_stream).then(identity)` (stream.rs:152) over a finite script: every
entry is one invocation of `init`; when the script is exhausted `init`'s future stays pending. -/
def reconnections : List Conn → List (Step InitRes)
  | [] => []
  | c :: cs => .eff .attempt :: .yield c.result :: reconnections cs

/-! ## `ReconnectionBackoffPolicy` / `ReconnectionState` (stream.rs:157-206) -/

structure Policy where
  initial : Nat
  mult : Nat
  max : Nat
  deriving DecidableEq, Repr, Inhabited

structure ReconnectionState where
  policy : Policy
  current : Nat
  deriving DecidableEq, Repr, Inhabited

/-- `From<ReconnectionBackoffPolicy>` (stream.rs:182-189) -/
def ReconnectionState.ofPolicy (p : Policy) : ReconnectionState := ⟨p, p.initial⟩
/-- `reset_backoff` (stream.rs:192-194) -/
def ReconnectionState.reset (s : ReconnectionState) : ReconnectionState :=
  { s with current := s.policy.initial }
/-- `multiply_backoff` (stream.rs:196-200) -/
def ReconnectionState.multiply (s : ReconnectionState) : ReconnectionState :=
  { s with current := min (s.current * s.policy.mult) s.policy.max }

/-! ## The five combinators of `ReconnectingStream` -/

/-- The `scan` closure of `with_reconnect_backoff` (stream.rs:31-51): success resets the back-off
and passes the stream on at once; failure sleeps the *current* back-off, then multiplies. -/
def backoffStep (st : ReconnectionState) (r : InitRes) : ReconnectionState × List Eff × InitRes :=
  match r with
  | .ok s => (st.reset, [], .ok s)
  | .err => (st.multiply, [.sleep st.current], .err)

/-- `.filter_map(|result| ready(result.ok()))` (stream.rs:53) -/
def okOnly : InitRes → List Eff × Option (Str Res)
  | .ok s => ([], some s)
  | .err => ([], none)

/-- `with_reconnect_backoff` (stream.rs:18-54), started from an arbitrary state (`enumerate`'s
index only feeds the log lines). -/
def withReconnectBackoffFrom (st : ReconnectionState) (s : Str InitRes) : Str (Str Res) :=
  ⟨filterMapSteps okOnly (scanSteps backoffStep st s.steps), s.ends⟩

def withReconnectBackoff (p : Policy) (s : Str InitRes) : Str (Str Res) :=
  withReconnectBackoffFrom (.ofPolicy p) s

/-- the `map_while` closure of `with_termination_on_error` (stream.rs:71-81) -/
def untilTerminal : Res → Option Res
  | .ok x => some (.ok x)
  | .err e => if e.terminal then none else some (.err e)

/-- `with_termination_on_error` (stream.rs:59-84) -/
def withTerminationOnError (s : Str (Str Res)) : Str (Str Res) :=
  s.map (fun inner => inner.mapWhile untilTerminal)

/-- `reconnect::Event<Origin, T>` (reconnect/mod.rs:8-12); the origin is a constant. -/
inductive Event (α : Type) where
  | reconnecting
  | item (a : α)
  deriving DecidableEq, Repr, Inhabited

/-- `with_reconnection_events` (stream.rs:88-105) -/
def withReconnectionEvents {α : Type} (s : Str (Str α)) : Str (Event α) :=
  (s.map (fun inner => (inner.map Event.item).chain (Str.once Event.reconnecting))).flatten

/-- the `filter_map` closure of `with_error_handler` (stream.rs:118-127) -/
def handle : Event Res → List Eff × Option (Event Nat)
  | .reconnecting => ([], some .reconnecting)
  | .item (.ok x) => ([], some (.item x))
  | .item (.err e) => ([.handled e.id], none)

/-- `with_error_handler` (stream.rs:110-128) -/
def withErrorHandler (s : Str (Event Res)) : Str (Event Nat) := s.filterMap handle

/-- `forward_to` (stream.rs:131-138): `map_while(|ev| tx.send(ev).ok()).collect()`. The receiver
accepts `cap` more items and is then gone (`none`: never dropped). A `yield` of the result is an item
that reached the receiver; `ends = true` means the future completed. -/
def forwardSteps {α : Type} : Option Nat → List (Step α) → List (Step α) × Bool
  | _, [] => ([], false)
  | cap, .eff e :: r => let (t, hit) := forwardSteps cap r; (.eff e :: t, hit)
  | none, .yield a :: r => let (t, hit) := forwardSteps none r; (.yield a :: t, hit)
  | some 0, .yield _ :: _ => ([], true)
  | some (n + 1), .yield a :: r => let (t, hit) := forwardSteps (some n) r; (.yield a :: t, hit)

def forwardTo {α : Type} (cap : Option Nat) (s : Str α) : Str α :=
  let (t, hit) := forwardSteps cap s.steps
  ⟨t, hit || s.ends⟩

/-! ## Whole pipelines, as the harness builds them -/

inductive Fin where
  /-- the first `init` never resolved (empty script) -/
  | initPending
  /-- `init_reconnecting_stream` returned `Err` (stream.rs:151) -/
  | initError
  /-- the consumer is left waiting for ever -/
  | pending
  /-- the stream (or the `forward_to` future) completed -/
  | ended
  deriving DecidableEq, Repr, Inhabited

structure Run (α : Type) where
  steps : List (Step α)
  fin : Fin
  deriving Repr, Inhabited

def Str.toRun {α : Type} (s : Str α) : Run α :=
  ⟨.eff .attempt :: s.steps, if s.ends then .ended else .pending⟩

/-- `init_reconnecting_stream` (stream.rs:144-155) after a successful first `init`:
`once(ready(Ok(initial))).chain(repeat_with(init).then(identity))`. -/
def initReconnecting (initial : Str Res) (rest : List Conn) : Str InitRes :=
  (Str.once (InitRes.ok initial)).chain ⟨reconnections rest, false⟩

/-- `init_market_stream`'s composition (consumer.rs:72-79). -/
def eventStream (p : Policy) (initial : Str Res) (rest : List Conn) : Str (Event Res) :=
  withReconnectionEvents (withTerminationOnError (withReconnectBackoff p (initReconnecting initial rest)))

/-- Run the composition on a script with a stage `post` appended (identity, error handler, or
`forward_to`). -/
def runWith {α : Type} (post : Str (Event Res) → Str α) (p : Policy) : List Conn → Run α
  | [] => ⟨[], .initPending⟩
  | .initFail :: _ => ⟨[.eff .attempt], .initError⟩
  | .initOk elems hang :: rest => (post (eventStream p (connStream elems hang) rest)).toRun

def runEvents (p : Policy) (script : List Conn) : Run (Event Res) := runWith id p script
def runHandler (p : Policy) (script : List Conn) : Run (Event Nat) := runWith withErrorHandler p script
def runForward (cap : Option Nat) (p : Policy) (script : List Conn) : Run (Event Res) :=
  runWith (forwardTo cap) p script

/-! ## Abstract specification of the reconnecting stream (from the property text)

"delivers every item of each successfully initialised connection in order and exactly once, up to
that connection's end or first terminal error, then emits exactly one reconnecting notice for it
before anything from the next connection; non-terminal errors are passed through (or handed to the
error handler) without ending the connection. Failed re-initialisation attempts deliver nothing and
are separated by waits that start at the configured initial backoff, multiply up to the configured
maximum and reset after a success; the stream never ends by itself." -/

/-- The wait after the `n`-th consecutive failed attempt since the last success (`n = 0`: first). -/
def backoffAt (p : Policy) : Nat → Nat
  | 0 => p.initial
  | n + 1 => min (backoffAt p n * p.mult) p.max

/-- What a live connection delivers: everything before its first terminal error, errors included. -/
def delivered : List Elem → List (Step (Event Res))
  | [] => []
  | .item x :: r => .yield (.item (.ok x)) :: delivered r
  | .error e false :: r => .yield (.item (.err ⟨e, false⟩)) :: delivered r
  | .error _ true :: _ => []
  | .delay ms :: r => .eff (.delay ms) :: delivered r

def hasTerminal : List Elem → Bool
  | [] => false
  | .error _ true :: _ => true
  | _ :: r => hasTerminal r

/-- A connection is over when it ended by itself or produced a terminal error. -/
def dropped (elems : List Elem) (hang : Bool) : Bool := hasTerminal elems || !hang

/-- The trace the property prescribes from a point where `n` consecutive attempts have failed. -/
def specConns (p : Policy) : Nat → List Conn → List (Step (Event Res))
  | _, [] => []
  | n, .initFail :: cs => .eff .attempt :: .eff (.sleep (backoffAt p n)) :: specConns p (n + 1) cs
  | _, .initOk elems hang :: cs =>
    .eff .attempt :: (delivered elems ++
      if dropped elems hang then .yield .reconnecting :: specConns p 0 cs else [])

def specEvents (p : Policy) : List Conn → Run (Event Res)
  | [] => ⟨[], .initPending⟩
  | .initFail :: _ => ⟨[.eff .attempt], .initError⟩
  | c :: rest => ⟨specConns p 0 (c :: rest), .pending⟩

/-- With an error handler: the same, except that each passed-through error goes to the handler
(once, at the same place) instead of to the consumer. -/
def toHandler : List (Step (Event Res)) → List (Step (Event Nat))
  | [] => []
  | .eff e :: r => .eff e :: toHandler r
  | .yield .reconnecting :: r => .yield .reconnecting :: toHandler r
  | .yield (.item (.ok x)) :: r => .yield (.item x) :: toHandler r
  | .yield (.item (.err e)) :: r => .eff (.handled e.id) :: toHandler r

def specHandler (p : Policy) (script : List Conn) : Run (Event Nat) :=
  let r := specEvents p script
  ⟨toHandler r.steps, r.fin⟩

/-- Forwarding to a receiver that takes `cap` items: exactly the first `cap` delivered items arrive,
and the forwarding future completes exactly when one more item is produced (that item is lost);
everything that happens up to that moment still happens. -/
def cutAfter {α : Type} : Nat → List (Step α) → List (Step α) × Bool
  | _, [] => ([], false)
  | n, .eff e :: r => let (t, c) := cutAfter n r; (.eff e :: t, c)
  | 0, .yield _ :: _ => ([], true)
  | n + 1, .yield a :: r => let (t, c) := cutAfter n r; (.yield a :: t, c)

def specForward (cap : Option Nat) (p : Policy) (script : List Conn) : Run (Event Res) :=
  let r := specEvents p script
  match cap, r.fin with
  | some n, .pending =>
    let (t, c) := cutAfter n r.steps
    ⟨t, if c then .ended else .pending⟩
  | _, _ => r

/-! ### Views of a trace used by the clause-by-clause theorems -/

/-- The items and passed-through errors of one live connection, up to its first terminal error. -/
def connItems : List Elem → List (Event Res)
  | [] => []
  | .item x :: r => .item (.ok x) :: connItems r
  | .error e false :: r => .item (.err ⟨e, false⟩) :: connItems r
  | .error _ true :: _ => []
  | .delay _ :: r => connItems r

/-- What the consumer must receive, connection by connection: failed attempts contribute nothing;
a successful one contributes its items and then, if it is over, one notice, and only then whatever
the following connections contribute. A connection that stays open is the last one heard of. -/
def segments : List Conn → List (Event Res)
  | [] => []
  | .initFail :: cs => segments cs
  | .initOk elems hang :: cs =>
    connItems elems ++ if dropped elems hang then .reconnecting :: segments cs else []

/-- The back-off waits the property prescribes, in order (`n` failures in a row so far). -/
def specWaits (p : Policy) : Nat → List Conn → List Nat
  | _, [] => []
  | n, .initFail :: cs => backoffAt p n :: specWaits p (n + 1) cs
  | _, .initOk elems hang :: cs => if dropped elems hang then specWaits p 0 cs else []

def sleepsOf : List Eff → List Nat
  | [] => []
  | .sleep ms :: r => ms :: sleepsOf r
  | _ :: r => sleepsOf r

def handledOf : List Eff → List Nat
  | [] => []
  | .handled e :: r => e :: handledOf r
  | _ :: r => handledOf r

def attemptsOf : List Eff → Nat
  | [] => 0
  | .attempt :: r => attemptsOf r + 1
  | _ :: r => attemptsOf r

/-- ids of the errors among delivered events, in order -/
def errorIds : List (Event Res) → List Nat
  | [] => []
  | .item (.err e) :: r => e.id :: errorIds r
  | _ :: r => errorIds r

/-- the events with the errors removed -/
def okEvents : List (Event Res) → List (Event Nat)
  | [] => []
  | .item (.err _) :: r => okEvents r
  | .item (.ok x) :: r => .item x :: okEvents r
  | .reconnecting :: r => .reconnecting :: okEvents r

/-! ## `merge` (merge.rs:6-21) over two channel receivers -/

/-- One input of `merge`: `rx.map(Some).chain(once(ready(None)))` over an unbounded receiver.
`queue`: sent and not yet taken; `closed`: every sender dropped; `marker`: the chained `None` has
been yielded. -/
structure Side where
  queue : List Nat
  closed : Bool
  marker : Bool
  deriving DecidableEq, Repr, Inhabited

inductive SidePoll where
  | pending
  | item (x : Nat)
  /-- the chained `Some(None)` end marker -/
  | marker
  /-- `Ready(None)`: the chain is exhausted -/
  | done
  deriving DecidableEq, Repr, Inhabited

def Side.poll (s : Side) : Side × SidePoll :=
  match s.queue with
  | x :: q => ({ s with queue := q }, .item x)
  | [] =>
    if s.closed then
      if s.marker then (s, .done) else ({ s with marker := true }, .marker)
    else (s, .pending)

structure MergeSt where
  a : Side
  b : Side
  /-- `Merge::a_first` (tokio-stream merge.rs:18) -/
  aFirst : Bool
  /-- `MapWhile::done` / `Fuse` -/
  done : Bool
  deriving DecidableEq, Repr, Inhabited

def MergeSt.init : MergeSt := ⟨⟨[], false, false⟩, ⟨[], false, false⟩, true, false⟩

inductive MOut where
  | pending
  /-- an item, tagged with the input it came from (`true` = left) -/
  | item (left : Bool) (x : Nat)
  | ended
  deriving DecidableEq, Repr, Inhabited

/-- One `poll_next` of the merged stream when the inner `Merge` polls the left input first iff
`leftFirst` (tokio-stream merge.rs:42-97, then `map_while(identity)`, `fuse`). tokio-stream's own
choice is `leftFirst = st.aFirst` (`MergeSt.poll`); every poll that reaches `Merge` toggles the
flag (polls after the end are answered by `MapWhile`/`Fuse`). -/
def MergeSt.pollWith (leftFirst : Bool) (st : MergeSt) : MergeSt × MOut :=
  if st.done then (st, .ended) else
  let st := { st with aFirst := !leftFirst }
  if leftFirst then
    match st.a.poll with
    | (a', .item x) => ({ st with a := a' }, .item true x)
    | (a', .marker) => ({ st with a := a', done := true }, .ended)
    | (a', ra) =>
      match st.b.poll with
      | (b', .item x) => ({ st with a := a', b := b' }, .item false x)
      | (b', .marker) => ({ st with a := a', b := b', done := true }, .ended)
      | (b', rb) =>
        if ra == .done && rb == .done then ({ st with a := a', b := b', done := true }, .ended)
        else ({ st with a := a', b := b' }, .pending)
  else
    match st.b.poll with
    | (b', .item x) => ({ st with b := b' }, .item false x)
    | (b', .marker) => ({ st with b := b', done := true }, .ended)
    | (b', rb) =>
      match st.a.poll with
      | (a', .item x) => ({ st with a := a', b := b' }, .item true x)
      | (a', .marker) => ({ st with a := a', b := b', done := true }, .ended)
      | (a', ra) =>
        if ra == .done && rb == .done then ({ st with a := a', b := b', done := true }, .ended)
        else ({ st with a := a', b := b' }, .pending)

/-- tokio-stream's own schedule. -/
def MergeSt.poll (st : MergeSt) : MergeSt × MOut := st.pollWith st.aFirst

/-- What happens to `merge` and its inputs. The flag of a `poll` is the fairness choice of that poll. -/
inductive MOp where
  | send (left : Bool) (x : Nat)
  | close (left : Bool)
  | poll (leftFirst : Bool)
  deriving DecidableEq, Repr, Inhabited

/-- What each operation shows. -/
inductive MObs where
  /-- the send was queued (`UnboundedTx::send` returned `Ok`, channel.rs:60-62) -/
  | accepted (left : Bool) (x : Nat)
  /-- this input's sender has been dropped: nothing can be sent -/
  | closed
  /-- the merged stream has ended and its `Fuse` has dropped both receivers: `send` fails -/
  | gone
  /-- a sender was dropped -/
  | ack
  | out (o : MOut)
  deriving DecidableEq, Repr, Inhabited

def MergeSt.side (st : MergeSt) (left : Bool) : Side := if left then st.a else st.b
def MergeSt.setSide (st : MergeSt) (left : Bool) (s : Side) : MergeSt :=
  if left then { st with a := s } else { st with b := s }

def MergeSt.step (st : MergeSt) : MOp → MergeSt × MObs
  | .send left x =>
    if (st.side left).closed then (st, .closed)
    else if st.done then (st, .gone)
    else (st.setSide left { st.side left with queue := (st.side left).queue ++ [x] }, .accepted left x)
  | .close left => (st.setSide left { st.side left with closed := true }, .ack)
  | .poll f => let (st', o) := st.pollWith f; (st', .out o)

/-- Run a history, collecting what every operation showed. -/
def MergeSt.run (st : MergeSt) : List MOp → MergeSt × List MObs
  | [] => (st, [])
  | op :: ops =>
    match st.step op with
    | (st', o) => let (st'', os) := st'.run ops; (st'', o :: os)

/-- The items the merged stream handed over from one input, in order. -/
def polled (left : Bool) : List MObs → List Nat
  | [] => []
  | .out (.item l x) :: r => if l == left then x :: polled left r else polled left r
  | _ :: r => polled left r

/-- The items one input accepted, in order. -/
def acceptedOf (left : Bool) : List MObs → List Nat
  | [] => []
  | .accepted l x :: r => if l == left then x :: acceptedOf left r else acceptedOf left r
  | _ :: r => acceptedOf left r

/-! ### Abstract specification of `merge` (from the property text): a nondeterministic machine

"merging two streams preserves each input's order and every item up to the point either input
ends": a poll may hand over the *oldest* undelivered item of either input; it may report the end
only when some input has been closed and everything it sent has been delivered (and after the end
only the end); it may stay pending only when there is nothing to hand over. -/

structure MCfg where
  l : List Nat
  r : List Nat
  lClosed : Bool
  rClosed : Bool
  ended : Bool
  deriving DecidableEq, Repr, Inhabited

def MCfg.init : MCfg := ⟨[], [], false, false, false⟩

/-- All outcomes the property allows for one poll. -/
def MCfg.allowed (c : MCfg) : List (MCfg × MOut) :=
  if c.ended then [(c, .ended)] else
  let li := match c.l with | x :: q => [({ c with l := q }, MOut.item true x)] | [] => []
  let ri := match c.r with | x :: q => [({ c with r := q }, MOut.item false x)] | [] => []
  let le := if c.l.isEmpty && c.lClosed then [({ c with ended := true }, MOut.ended)] else []
  let re := if c.r.isEmpty && c.rClosed then [({ c with ended := true }, MOut.ended)] else []
  let all := li ++ ri ++ le ++ re
  if all.isEmpty then [(c, .pending)] else all

def MCfg.send (c : MCfg) (left : Bool) (x : Nat) : MCfg :=
  if c.ended then c else
  if left then (if c.lClosed then c else { c with l := c.l ++ [x] })
  else (if c.rClosed then c else { c with r := c.r ++ [x] })

def MCfg.close (c : MCfg) (left : Bool) : MCfg :=
  if left then { c with lClosed := true } else { c with rClosed := true }

/-- Abstraction of the concrete state. -/
def MergeSt.abs (st : MergeSt) : MCfg := ⟨st.a.queue, st.b.queue, st.a.closed, st.b.closed, st.done⟩

end BarterModel.Streams
