import BarterModel.Model.Connectors
import BarterModel.Model.Names
/-!
# C13V — which subscriptions are accepted: support tables, validation, batch grouping

Concrete model of

* `barter-data/src/subscription/mod.rs` — `SubKind`, the `SubscriptionKind::as_str` literals,
  `Subscription::new`, both `Validator for Subscription` impls, `exchange_supports_instrument_kind`,
  `exchange_supports_instrument_kind_sub_kind`, `Display for Subscription`,
  `display_subscriptions_without_exchange`, `Map::{from_iter, find, find_mut}`;
* `barter-data/src/streams/builder/dynamic/mod.rs` — `validate_subscriptions`, `validate_batches`,
  `Channels::try_from`, the per-batch grouping of `DynamicStreams::init` (`sort_unstable_by_key` +
  `chunk_by`), the dispatch over the `(ExchangeId, SubKind)` arms ending in `DataError::Unsupported`,
  `select_*` / `select_all_*` / `select_all`;
* `barter-data/src/streams/builder/dynamic/indexed.rs` —
  `generate_indexed_market_data_subscription_batches`, `index_market_data_subscription_batches`
  (on top of the `IndexedInstruments` model of C11, `Model/Index.lean`);
* `barter-data/src/streams/builder/mod.rs`, `multi.rs` — `StreamBuilder::{subscribe, init}`,
  `MultiStreamBuilder::{add, init}` up to the first network action;
* the `impl StreamSelector<_, Kind> for Exchange` list (`exchange/*/mod.rs`) and `Connector::ID`.

REUSED: `Connectors.Exch` (the 15 connector types), `Connectors.Kind`, `Connectors.supported` (the 21
arms of `DynamicStreams::init`), `Connectors.supports`, `Connectors.IMap`; `Names.ExchangeId` (the whole
enum of 42 variants, declaration order = derived `Ord`), `Names.MDKind` (Display), `Index.*` (sort keys,
`sortDedup`, the builder and its lookups).

The network is outside the model: a connection that `init_market_stream` would open is the *value*
`Conn` (exchange, kind, channel it forwards to, instruments in subscription order).

`slice::sort_unstable_by_key` is a parameter `usort` of every definition that uses it (its
documentation promises an ordered permutation and nothing about equal keys; the pinned toolchain's
implementation does reorder equal keys from 21 elements on); the driver instantiates it with the
stable merge sort.

Second half of the file: the abstract specification, written from the README table "Supported Exchange
Subscriptions" and the doc comments.  Core Lean only.
-/
namespace BarterModel.Subscribe
open BarterModel.Names (ExchangeId Str)
open BarterModel.Connectors (Exch)

/-! ## `SubKind` and the kind types -/

/-- `SubKind` (subscription/mod.rs:76-85), declaration order = derived `Ord`. The unit structs
`PublicTrades`, `OrderBooksL1`, `OrderBooksL2`, `OrderBooksL3`, `Liquidations`, `Candles` that implement
`SubscriptionKind` correspond one to one and are identified with it. -/
inductive SubKind where
  | publicTrades | orderBooksL1 | orderBooksL2 | orderBooksL3 | liquidations | candles
  deriving DecidableEq, Repr, Inhabited

def SubKind.all : List SubKind :=
  [.publicTrades, .orderBooksL1, .orderBooksL2, .orderBooksL3, .liquidations, .candles]

/-- position in declaration order (`#[derive(Ord)]`) -/
def SubKind.toNat : SubKind → Nat
  | .publicTrades => 0 | .orderBooksL1 => 1 | .orderBooksL2 => 2 | .orderBooksL3 => 3
  | .liquidations => 4 | .candles => 5

def SubKind.ofNat? (n : Nat) : Option SubKind := SubKind.all[n]?

/-- `#[derive(Display)]` (derive_more): the variant identifier. -/
def SubKind.display : SubKind → Str
  | .publicTrades => "PublicTrades".toList
  | .orderBooksL1 => "OrderBooksL1".toList
  | .orderBooksL2 => "OrderBooksL2".toList
  | .orderBooksL3 => "OrderBooksL3".toList
  | .liquidations => "Liquidations".toList
  | .candles => "Candles".toList

/-- `SubscriptionKind::as_str` (= `Display`) of the kind type (trade.rs:16, book.rs:21,76,100,
liquidation.rs:16, candle.rs:15). -/
def SubKind.asStr : SubKind → Str
  | .publicTrades => "public_trades".toList
  | .orderBooksL1 => "l1".toList
  | .orderBooksL2 => "l2".toList
  | .orderBooksL3 => "l3".toList
  | .liquidations => "liquidations".toList
  | .candles => "candles".toList

/-- `Connectors.Kind` (the four kinds the builder routes) inside `SubKind`. -/
def ofKind : BarterModel.Connectors.Kind → SubKind
  | .publicTrades => .publicTrades
  | .orderBooksL1 => .orderBooksL1
  | .orderBooksL2 => .orderBooksL2
  | .liquidations => .liquidations

/-! ## Instrument kinds -/

/-- The variant of a `MarketDataInstrumentKind`: all the support tables look at. -/
inductive IKC where
  | spot | perpetual | future | option
  deriving DecidableEq, Repr, Inhabited

def IKC.all : List IKC := [.spot, .perpetual, .future, .option]

/-- `MarketDataInstrumentKind` (market_data/kind.rs:11-16) with naturals: expiry in ms, `put`: Call = 0,
Put = 1, `exercise`: American = 0, Bermudan = 1, European = 2, integer strike. -/
inductive IK where
  | spot
  | perpetual
  | future (expiry : Nat)
  | option (put exercise expiry strike : Nat)
  deriving DecidableEq, Repr, Inhabited

def IK.cls : IK → IKC
  | .spot => .spot
  | .perpetual => .perpetual
  | .future _ => .future
  | .option .. => .option

/-- `#[derive(Ord)]` of `MarketDataInstrumentKind` as a sort key of length 5 (tag, then the fields of the
contract in declaration order). -/
def IK.sortKey : IK → List Nat
  | .spot => [0, 0, 0, 0, 0]
  | .perpetual => [1, 0, 0, 0, 0]
  | .future e => [2, e, 0, 0, 0]
  | .option p x e k => [3, p, x, e, k]

def IK.toMD : IK → BarterModel.Names.MDKind
  | .spot => .spot
  | .perpetual => .perpetual
  | .future e => .future e
  | .option p x e k => .option p x e ⟨k, 0⟩

/-- `From<&InstrumentKind<AssetKey>> for MarketDataInstrumentKind` (kind/mod.rs:95-118). -/
def IK.ofKind {A : Type} : BarterModel.Index.Kind A → IK
  | .spot => .spot
  | .perpetual _ _ => .perpetual
  | .future _ _ e => .future e
  | .option _ _ p x e k => .option p x e k

/-- `InstrumentKind::eq_market_data_instrument_kind` (kind/mod.rs:55-70). -/
def eqKind {A : Type} : BarterModel.Index.Kind A → IK → Bool
  | .spot, .spot => true
  | .perpetual _ _, .perpetual => true
  | .future _ _ e, .future e' => e == e'
  | .option _ _ p x e k, .option p' x' e' k' => p == p' && x == x' && e == e' && k == k'
  | _, _ => false

/-! ## The support tables -/

/-- `exchange_supports_instrument_kind` (subscription/mod.rs:182-219), arm by arm. -/
def supportsIK : ExchangeId → IKC → Bool
  | .binanceFuturesUsd, .spot | .bitmex, .spot | .bybitPerpetualsUsd, .spot
  | .gateioPerpetualsUsd, .spot | .gateioPerpetualsBtc, .spot => false
  | _, .spot => true
  | .gateioFuturesUsd, .future | .gateioFuturesBtc, .future | .okx, .future => true
  | _, .future => false
  | .binanceFuturesUsd, .perpetual | .bitmex, .perpetual | .okx, .perpetual
  | .bybitPerpetualsUsd, .perpetual | .gateioPerpetualsUsd, .perpetual
  | .gateioPerpetualsBtc, .perpetual => true
  | _, .perpetual => false
  | .gateioOptions, .option | .okx, .option => true
  | _, .option => false

/-- `exchange_supports_instrument_kind_sub_kind` (subscription/mod.rs:248-280), arm by arm. -/
def supportsIKSK : ExchangeId → IKC → SubKind → Bool
  | .binanceSpot, .spot, .publicTrades | .binanceSpot, .spot, .orderBooksL1
  | .binanceSpot, .spot, .orderBooksL2 => true
  | .binanceFuturesUsd, .perpetual, .publicTrades | .binanceFuturesUsd, .perpetual, .orderBooksL1
  | .binanceFuturesUsd, .perpetual, .orderBooksL2 | .binanceFuturesUsd, .perpetual, .liquidations => true
  | .bitfinex, .spot, .publicTrades => true
  | .bitmex, .perpetual, .publicTrades => true
  | .bybitSpot, .spot, .publicTrades => true
  | .bybitPerpetualsUsd, .perpetual, .publicTrades => true
  | .coinbase, .spot, .publicTrades => true
  | .gateioSpot, .spot, .publicTrades => true
  | .gateioFuturesUsd, .future, .publicTrades => true
  | .gateioFuturesBtc, .future, .publicTrades => true
  | .gateioPerpetualsUsd, .perpetual, .publicTrades => true
  | .gateioPerpetualsBtc, .perpetual, .publicTrades => true
  | .gateioOptions, .option, .publicTrades => true
  | .kraken, .spot, .publicTrades | .kraken, .spot, .orderBooksL1 => true
  | .okx, .spot, .publicTrades | .okx, .future, .publicTrades | .okx, .perpetual, .publicTrades
  | .okx, .option, .publicTrades => true
  | _, _, _ => false

/-- `Connector::ID` of the 15 connector types (exchange/*/mod.rs, `const ID`). -/
def connId : Exch → ExchangeId
  | .binanceSpot => .binanceSpot
  | .binanceFuturesUsd => .binanceFuturesUsd
  | .bitfinex => .bitfinex
  | .bitmex => .bitmex
  | .bybitSpot => .bybitSpot
  | .bybitPerpetualsUsd => .bybitPerpetualsUsd
  | .coinbase => .coinbase
  | .gateioSpot => .gateioSpot
  | .gateioFuturesUsd => .gateioFuturesUsd
  | .gateioFuturesBtc => .gateioFuturesBtc
  | .gateioPerpetualsUsd => .gateioPerpetualsUsd
  | .gateioPerpetualsBtc => .gateioPerpetualsBtc
  | .gateioOptions => .gateioOptions
  | .kraken => .kraken
  | .okx => .okx

/-- The connector types in the order of `Connectors.Exch`. -/
def connAll : List Exch :=
  [.binanceSpot, .binanceFuturesUsd, .bitfinex, .bitmex, .bybitSpot, .bybitPerpetualsUsd, .coinbase,
   .gateioSpot, .gateioFuturesUsd, .gateioFuturesBtc, .gateioPerpetualsUsd, .gateioPerpetualsBtc,
   .gateioOptions, .kraken, .okx]

/-- The `(ExchangeId, SubKind)` arms of the `match` in `DynamicStreams::init` (dynamic/mod.rs:127-542),
in source order: `Connectors.supported` read as values of the full enums. -/
def arms : List (ExchangeId × SubKind) :=
  BarterModel.Connectors.supported.map (fun p => (connId p.exch, ofKind p.kind))

def hasArm (e : ExchangeId) (k : SubKind) : Bool := decide ((e, k) ∈ arms)

/-- `impl StreamSelector<Instrument, K> for E` exists (binance/mod.rs:102,112, binance/spot/mod.rs:39,
binance/futures/mod.rs:44,52, bitfinex/mod.rs:115, bitmex/mod.rs:81, bybit/mod.rs:111, coinbase/mod.rs:88,
gateio/{spot,future,perpetual,option}/mod.rs, kraken/mod.rs:96,105, okx/mod.rs:94). -/
def selector : Exch → SubKind → Bool
  | .binanceSpot, .publicTrades | .binanceFuturesUsd, .publicTrades => true
  | .binanceSpot, .orderBooksL1 | .binanceFuturesUsd, .orderBooksL1 => true
  | .binanceSpot, .orderBooksL2 => true
  | .binanceFuturesUsd, .orderBooksL2 | .binanceFuturesUsd, .liquidations => true
  | .bitfinex, .publicTrades => true
  | .bitmex, .publicTrades => true
  | .bybitSpot, .publicTrades | .bybitPerpetualsUsd, .publicTrades => true
  | .coinbase, .publicTrades => true
  | .gateioSpot, .publicTrades => true
  | .gateioFuturesUsd, .publicTrades | .gateioFuturesBtc, .publicTrades => true
  | .gateioPerpetualsUsd, .publicTrades | .gateioPerpetualsBtc, .publicTrades => true
  | .gateioOptions, .publicTrades => true
  | .kraken, .publicTrades | .kraken, .orderBooksL1 => true
  | .okx, .publicTrades => true
  | _, _ => false

/-- The four channel families of `DynamicStreams` / `Txs` / `Rxs` (dynamic/mod.rs:52-63, 800-825). -/
inductive Chan where
  | trades | l1s | l2s | liquidations
  deriving DecidableEq, Repr, Inhabited

def Chan.all : List Chan := [.trades, .l1s, .l2s, .liquidations]

/-- Which `txs.<family>` an arm of kind `k` forwards to / which family `Channels::try_from` fills
(dynamic/mod.rs:755-789); `none` = `DataError::UnsupportedSubKind`. -/
def route : SubKind → Option Chan
  | .publicTrades => some .trades
  | .orderBooksL1 => some .l1s
  | .orderBooksL2 => some .l2s
  | .liquidations => some .liquidations
  | .orderBooksL3 => none
  | .candles => none

/-! ## Subscriptions -/

/-- What the generic code needs from an `Instrument: InstrumentData + Ord`: the variant of
`InstrumentData::kind()` and the derived order as a sort key (`Model/Index.lean` convention). -/
structure InstOps (ι : Type) where
  cls : ι → IKC
  sortKey : ι → List Nat

/-- The order is a total order on values (`inj`) and keys line up (`sep`): no key is a proper prefix of
another one, so that the lexicographic order of `exchange :: key ++ [kind]` (`Subscr.sortKey`) is the order
of the TUPLE (exchange, instrument, kind), as for every `derive(Ord)` struct. Keys of one fixed length line
up (`InstOps.Lawful.of_len`, Lemmas); so do keys built from `strKey`-encoded names, whose length varies with
the name. The theorems only use `inj`; `sep` is what makes the key a faithful rendering of the derived order
(`Props.C13V.sort_key_is_tuple_order`). -/
structure InstOps.Lawful {ι : Type} (ops : InstOps ι) : Prop where
  inj : Function.Injective ops.sortKey
  sep : ∀ i j, ops.sortKey i <+: ops.sortKey j → ops.sortKey i = ops.sortKey j

/-- `Subscription<ExchangeId, Instrument, SubKind>` (subscription/mod.rs:41-48); field order = derived
`Ord`. -/
structure Subscr (ι : Type) where
  exchange : ExchangeId
  instrument : ι
  kind : SubKind
  deriving DecidableEq, Repr

/-- `Subscription::new` (subscription/mod.rs:147-159); the `Into` conversion is the caller's. -/
def Subscr.new {ι : Type} (exchange : ExchangeId) (instrument : ι) (kind : SubKind) : Subscr ι :=
  ⟨exchange, instrument, kind⟩

variable {ι : Type}

/-- `#[derive(Ord)]` of `Subscription`: exchange, instrument, kind. -/
def Subscr.sortKey (ops : InstOps ι) (s : Subscr ι) : List Nat :=
  s.exchange.toNat :: (ops.sortKey s.instrument ++ [s.kind.toNat])

/-- The key of `sort_unstable_by_key` / `chunk_by` in `DynamicStreams::init` (dynamic/mod.rs:115,117). -/
def Subscr.gkey (s : Subscr ι) : ExchangeId × SubKind := (s.exchange, s.kind)

/-- `(ExchangeId, SubKind)` tuple order. -/
def gkeyNat (k : ExchangeId × SubKind) : List Nat := [k.1.toNat, k.2.toNat]

/-- `Validator for Subscription<ExchangeId, Instrument, SubKind>` (subscription/mod.rs:221-243):
`true` = `Ok(self)`, `false` = `Err(SocketError::Unsupported { .. })`. -/
def Subscr.valid (ops : InstOps ι) (s : Subscr ι) : Bool :=
  supportsIKSK s.exchange (ops.cls s.instrument) s.kind

/-- `Validator for Subscription<Exchange, Instrument, Kind>` with `Exchange: Connector`
(subscription/mod.rs:161-180): only the instrument kind is looked at. -/
def staticValid (c : Exch) (ik : IKC) : Bool := supportsIK (connId c) ik

/-! ## `validate_subscriptions`, `validate_batches` -/

/-- `iter.map(f).collect::<Result<Vec<_>, _>>()`: stops at the first `Err`. -/
def collectM {α β ε : Type} (f : α → Except ε β) : List α → Except ε (List β)
  | [] => .ok []
  | a :: t =>
    match f a with
    | .error e => .error e
    | .ok b =>
      match collectM f t with
      | .error e => .error e
      | .ok bs => .ok (b :: bs)

/-- One subscription through `Validator::validate`; the error carries the rejected subscription (the
text of `SocketError::Unsupported` is rendered from it, see `unsupportedText`). -/
def Subscr.validate (ops : InstOps ι) (s : Subscr ι) : Except (Subscr ι) (Subscr ι) :=
  if s.valid ops then .ok s else .error s

/-- `validate_subscriptions` (dynamic/mod.rs:714-734): validate all, `sort()`, `dedup()`. -/
def validateSubscriptions [DecidableEq ι] (ops : InstOps ι) (batch : List (Subscr ι)) :
    Except (Subscr ι) (List (Subscr ι)) :=
  match collectM (Subscr.validate ops) batch with
  | .error s => .error s
  | .ok l => .ok (BarterModel.Index.sortDedup (Subscr.sortKey ops) l)

/-- `validate_batches` (dynamic/mod.rs:699-712). -/
def validateBatches [DecidableEq ι] (ops : InstOps ι) (batches : List (List (Subscr ι))) :
    Except (Subscr ι) (List (List (Subscr ι))) :=
  collectM (validateSubscriptions ops) batches

/-! ## `Channels::try_from` -/

/-- The exchanges that own a channel, per family (`Txs` / `Rxs`; the hash maps are key lists in
insertion order, which no caller can observe: outputs are compared sorted). -/
structure Chans where
  trades : List ExchangeId := []
  l1s : List ExchangeId := []
  l2s : List ExchangeId := []
  liquidations : List ExchangeId := []
  deriving DecidableEq, Repr

def Chans.get (c : Chans) : Chan → List ExchangeId
  | .trades => c.trades
  | .l1s => c.l1s
  | .l2s => c.l2s
  | .liquidations => c.liquidations

def Chans.set (c : Chans) (f : Chan) (l : List ExchangeId) : Chans :=
  match f with
  | .trades => { c with trades := l }
  | .l1s => { c with l1s := l }
  | .l2s => { c with l2s := l }
  | .liquidations => { c with liquidations := l }

/-- `if let (None, None) = (txs.get(e), rxs.get(e)) { insert }` -/
def insertNew (l : List ExchangeId) (e : ExchangeId) : List ExchangeId :=
  if e ∈ l then l else l ++ [e]

/-- One iteration of the loop of `Channels::try_from` (dynamic/mod.rs:754-791). -/
def Chans.add (c : Chans) (s : Subscr ι) : Except SubKind Chans :=
  match route s.kind with
  | some f => .ok (c.set f (insertNew (c.get f) s.exchange))
  | none => .error s.kind

def Chans.addAll (c : Chans) : List (Subscr ι) → Except SubKind Chans
  | [] => .ok c
  | s :: t =>
    match c.add s with
    | .error k => .error k
    | .ok c' => c'.addAll t

/-- `Channels::try_from(&batches)` (dynamic/mod.rs:741-798). -/
def channels (batches : List (List (Subscr ι))) : Except SubKind Chans :=
  ({} : Chans).addAll batches.flatten

/-! ## Grouping and dispatch of `DynamicStreams::init` -/

/-- itertools `chunk_by`: maximal runs of consecutive elements with equal keys, with their key. -/
def chunkBy {α κ : Type} [DecidableEq κ] (key : α → κ) : List α → List (κ × List α)
  | [] => []
  | a :: t =>
    match chunkBy key t with
    | (k, g) :: rest => if key a = k then (k, a :: g) :: rest else (key a, [a]) :: (k, g) :: rest
    | [] => [(key a, [a])]

/-- dynamic/mod.rs:115-123: sort the (validated) batch by `(exchange, kind)`, chunk it by the same key. -/
def groups (usort : List (Subscr ι) → List (Subscr ι)) (batch : List (Subscr ι)) :
    List ((ExchangeId × SubKind) × List (Subscr ι)) :=
  chunkBy Subscr.gkey (usort batch)

/-- What the documentation of `slice::sort_unstable_by_key` promises about the result: a permutation of the
input, ordered by the key (`code` = the key's derived order as a sort key); nothing about elements with
equal keys. -/
structure UnstableSortBy {α : Type} (code : α → List Nat) (usort : List α → List α) : Prop where
  perm : ∀ l, (usort l).Perm l
  sorted : ∀ l, (usort l).Pairwise (fun a b => code a ≤ code b)

/-- `sort_unstable_by_key(|sub| (sub.exchange, sub.kind))` -/
abbrev UnstableSort (usort : List (Subscr ι) → List (Subscr ι)) : Prop :=
  UnstableSortBy (fun s => gkeyNat s.gkey) usort

/-- The stable sort by `(exchange, kind)`: what the driver uses for `usort`, and what the pinned
toolchain's `sort_unstable_by_key` does on at most 20 elements (insertion sort). -/
def stableSort (l : List (Subscr ι)) : List (Subscr ι) :=
  l.mergeSort (BarterModel.Index.leKey (fun s => gkeyNat s.gkey))

/-- A connection `init_market_stream` is asked to open: the arm's connector (`= exchange`), its kind type,
the instruments in subscription order, and the channel family the spawned task forwards to. -/
structure Conn (ι : Type) where
  exchange : ExchangeId
  kind : SubKind
  chan : Chan
  instruments : List ι
  deriving DecidableEq, Repr

/-- Everything `DynamicStreams::init` can return as an error, plus the panic of `.unwrap()` on a missing
transmitter (dynamic/mod.rs:143 etc.). -/
inductive InitErr (ι : Type) where
  /-- `DataError::Socket(SocketError::Unsupported { .. }.to_string())` from `validate_batches` -/
  | validation (s : Subscr ι)
  /-- `DataError::UnsupportedSubKind` from `Channels::try_from` -/
  | unsupportedSubKind (k : SubKind)
  /-- `DataError::Unsupported { exchange, sub_kind }`: no arm -/
  | unsupported (e : ExchangeId) (k : SubKind)
  /-- `init_market_stream` on an empty list: `DataError::SubscriptionsEmpty` (consumer.rs:58-61) -/
  | subscriptionsEmpty
  /-- `txs.<family>.get(&exchange).unwrap()` on `None` -/
  | panic
  deriving DecidableEq, Repr

/-- One arm of the `match (exchange, sub_kind)` (dynamic/mod.rs:126-546) up to the network. -/
def dispatch (chans : Chans) (g : (ExchangeId × SubKind) × List (Subscr ι)) : Except (InitErr ι) (Conn ι) :=
  if hasArm g.1.1 g.1.2 then
    match route g.1.2 with
    | none => .error (.unsupported g.1.1 g.1.2)
    | some f =>
      if g.2.isEmpty then .error .subscriptionsEmpty
      else if g.1.1 ∈ chans.get f then .ok ⟨g.1.1, g.1.2, f, g.2.map (·.instrument)⟩
      else .error .panic
  else .error (.unsupported g.1.1 g.1.2)

/-- What a successful `DynamicStreams::init` amounts to: the connections per batch and the channel
owners. -/
structure InitOk (ι : Type) where
  conns : List (List (Conn ι))
  chans : Chans
  deriving DecidableEq, Repr

/-- `DynamicStreams::init` (dynamic/mod.rs:75-581) up to the network. -/
def init [DecidableEq ι] (ops : InstOps ι) (usort : List (Subscr ι) → List (Subscr ι))
    (batches : List (List (Subscr ι))) : Except (InitErr ι) (InitOk ι) :=
  match validateBatches ops batches with
  | .error s => .error (.validation s)
  | .ok vs =>
    match channels vs with
    | .error k => .error (.unsupportedSubKind k)
    | .ok chans =>
      match collectM (fun b => collectM (dispatch chans) (groups usort b)) vs with
      | .error e => .error e
      | .ok conns => .ok ⟨conns, chans⟩

/-! ## `DynamicStreams::select_*` -/

/-- `VecMap::remove` on the key list. -/
def Chans.select (c : Chans) (f : Chan) (e : ExchangeId) : Chans × Bool :=
  if e ∈ c.get f then (c.set f ((c.get f).erase e), true) else (c, false)

/-- `select_all_<family>` (`std::mem::take`): every stream of the family, the family left empty. -/
def Chans.selectAll (c : Chans) (f : Chan) : Chans × List ExchangeId := (c.set f [], c.get f)

/-- `select_all` (consuming): trades, l1s, l2s, liquidations chained. -/
def Chans.everything (c : Chans) : List (Chan × ExchangeId) :=
  Chan.all.flatMap (fun f => (c.get f).map (fun e => (f, e)))

/-- The calls a user can make on a `DynamicStreams`. -/
inductive SelOp where
  | select (f : Chan) (e : ExchangeId)
  | selectAll (f : Chan)
  /-- `select_all(self)`: consumes the value; modelled as leaving nothing behind -/
  | everything
  deriving DecidableEq, Repr

def Chans.step (c : Chans) : SelOp → Chans
  | .select f e => (c.select f e).1
  | .selectAll f => (c.selectAll f).1
  | .everything => {}

def Chans.run (c : Chans) (ops : List SelOp) : Chans := ops.foldl Chans.step c

/-! ## `StreamBuilder` / `MultiStreamBuilder` up to the network -/

/-- What the future pushed by one `StreamBuilder::subscribe` call does when first polled
(builder/mod.rs:101-118 and consumer.rs:58-61). -/
inductive SubscribeOutcome (ι : Type) where
  /-- some subscription fails the static `validate`: `DataError::Socket(..)` -/
  | unsupported (i : ι)
  /-- nothing to subscribe to: `DataError::SubscriptionsEmpty` -/
  | empty
  /-- validated, sorted, de-duplicated subscriptions handed to the network -/
  | connect (instruments : List ι)
  deriving DecidableEq, Repr

/-- The future of `subscribe::<_, _, Exchange, Instrument>` for connector `c`. -/
def subscribeOutcome [DecidableEq ι] (ops : InstOps ι) (c : Exch) (insts : List ι) : SubscribeOutcome ι :=
  match collectM (fun i => if staticValid c (ops.cls i) then Except.ok i else Except.error i) insts with
  | .error i => .unsupported i
  | .ok l =>
    match BarterModel.Index.sortDedup ops.sortKey l with
    | [] => .empty
    | l' => .connect l'

/-- `StreamBuilder<InstrumentKey, Kind>`: the exchanges with a channel (a hash map: a key list without
duplicates) and the futures in `subscribe` order. -/
structure Builder (ι : Type) where
  kind : SubKind
  channels : List ExchangeId := []
  futures : List (Exch × List ι) := []
  deriving Repr

/-- `StreamBuilder::subscribe` (builder/mod.rs:77-121). -/
def Builder.subscribe (b : Builder ι) (c : Exch) (insts : List ι) : Builder ι :=
  { b with channels := insertNew b.channels (connId c), futures := b.futures ++ [(c, insts)] }

/-- A builder after a sequence of `subscribe` calls. -/
def Builder.ofCalls (kind : SubKind) (calls : List (Exch × List ι)) : Builder ι :=
  calls.foldl (fun b c => b.subscribe c.1 c.2) { kind := kind }

/-- What a future — or `try_join_all` over futures — has done when its FIRST poll returns: `Ready(Err(e))`
(`error e`), or `Pending` on the network (`network`: what happens next is outside the model). `Ready(Ok(..))`
is `none` of `Option (PreNet ε)`. -/
inductive PreNet (ε : Type) where
  | error (e : ε)
  /-- pending on a connection attempt: outside the model -/
  | network
  deriving DecidableEq, Repr

/-- `join_all::SMALL` (futures-util 0.3.34, future/join_all.rs:35): up to this many futures `try_join_all`
polls them itself, above it hands them to `FuturesOrdered` (try_join_all.rs:136-143). -/
def tryJoinSmall : Nat := 30

/-- `try_join_all`, small mode, first poll (try_join_all.rs:158-186): EVERY future is polled once, in order;
the first `Err` OF THE PASS ends the pass and is returned — although an earlier future may be pending on the
network; without an `Err` the result is `Pending` if some future is pending, `Ok` if none is. The argument
is what each future does when first polled. -/
def joinSmall {ε : Type} : List (Option (PreNet ε)) → Option (PreNet ε)
  | [] => none
  | none :: t => joinSmall t
  | some (.error e) :: _ => some (.error e)
  | some .network :: t =>
    match joinSmall t with
    | some (.error e) => some (.error e)
    | _ => some .network

/-- `try_join_all`, big mode, first poll (`FuturesOrdered` + `try_collect`, stream/futures_ordered.rs): all
futures are polled, but the results are consumed in INDEX order, so the first future that is not `Ok` at
once decides — its error if it fails when first polled, `Pending` if it waits for the network (a later
future's error stays queued behind it). -/
def joinBig {ε : Type} : List (Option (PreNet ε)) → Option (PreNet ε)
  | [] => none
  | none :: t => joinBig t
  | some r :: _ => some r

/-- a future that does not fail when first polled (it is `Ok` at once, or pending on the network) -/
def NoErr {ε : Type} (x : Option (PreNet ε)) : Prop := ∀ e, x ≠ some (.error e)

/-- `futures::future::try_join_all(futures)` up to the network. -/
def tryJoinAll {ε : Type} (l : List (Option (PreNet ε))) : Option (PreNet ε) :=
  if l.length ≤ tryJoinSmall then joinSmall l else joinBig l

/-- What the future pushed by one `subscribe` call does when first polled: it fails before the network (the
error carries the connector: the error text names it) or is pending on its connection attempt; never `Ok`
at once. -/
def callPoll [DecidableEq ι] (ops : InstOps ι) (call : Exch × List ι) :
    Option (PreNet (Exch × SubscribeOutcome ι)) :=
  match subscribeOutcome ops call.1 call.2 with
  | .connect _ => some .network
  | o => some (.error (call.1, o))

/-- What each pushed future does when first polled, in `subscribe` order. -/
def Builder.firstPolls [DecidableEq ι] (ops : InstOps ι) (b : Builder ι) :
    List (Option (PreNet (Exch × SubscribeOutcome ι))) :=
  b.futures.map (callPoll ops)

/-- `StreamBuilder::init` (builder/mod.rs:130-145) up to the network: `try_join_all(self.futures).await?`.
`none`: `Ok` with the channel receivers (no future at all). With at most 30 `subscribe` calls the first
future IN ORDER THAT FAILS WHEN FIRST POLLED decides, even behind calls that went to the network; only if
none fails is the outcome the network's. -/
def Builder.init [DecidableEq ι] (ops : InstOps ι) (b : Builder ι) :
    Option (PreNet (Exch × SubscribeOutcome ι)) :=
  tryJoinAll (b.firstPolls ops)

/-- `MultiStreamBuilder<Output>` -/
structure Multi (ι : Type) where
  channels : List ExchangeId := []
  futures : List (Builder ι) := []
  deriving Repr

/-- `MultiStreamBuilder::add` (builder/multi.rs:51-99). -/
def Multi.add (m : Multi ι) (b : Builder ι) : Multi ι :=
  { channels := b.channels.foldl insertNew m.channels, futures := m.futures ++ [b] }

/-- `MultiStreamBuilder::init` (builder/multi.rs:104-116) up to the network: `try_join_all` over one future
per added builder, each `builder.init().await?` first (multi.rs:74-76) — a builder without futures yields
`Ok` at once. -/
def Multi.init [DecidableEq ι] (ops : InstOps ι) (m : Multi ι) :
    Option (PreNet (Exch × SubscribeOutcome ι)) :=
  tryJoinAll (m.futures.map fun b => b.init ops)

/-! ## Concrete instrument types -/

/-- `MarketDataInstrument` (market_data/mod.rs:12-19) with the asset names `a000`, `a001`, …, `a999`,
`a1000`, … the harness builds (`format!("a{n:03}")`). The derived `Ord` compares the NAMES (`SmolStr`, i.e.
`str` order = byte-wise lexicographic): for numbers below 1000 that is the order of the numbers
(`Props.C13V.asset_names_below_1000_order_as_numbers`), from 1000 on it is not (`a1000 < a999`:
`Props.C13V.asset_name_1000_sorts_before_999`). -/
structure Inst where
  base : Nat
  quote : Nat
  kind : IK
  deriving DecidableEq, Repr, Inhabited

def assetName (n : Nat) : Str := 'a' :: BarterModel.Names.pad 3 n

/-- The `str` order as a sort key: code point + 1 per character (all names are ASCII, where byte order is
code-point order), closed by `0` — so that a name that is a prefix of another sorts first and keys of
consecutive fields line up whatever the lengths of the names. -/
def strKey (s : Str) : List Nat := s.map (fun c => c.toNat + 1) ++ [0]

/-- `#[derive(Ord)]` of `MarketDataInstrument`: base name, quote name (as strings), kind. -/
def Inst.sortKey (i : Inst) : List Nat :=
  strKey (assetName i.base) ++ (strKey (assetName i.quote) ++ i.kind.sortKey)

/-- `Display for MarketDataInstrument` (market_data/mod.rs:22-26). -/
def Inst.display (i : Inst) : Str :=
  assetName i.base ++ '_' :: assetName i.quote ++ '_' :: i.kind.toMD.display

def instOps : InstOps Inst := ⟨fun i => i.kind.cls, Inst.sortKey⟩

/-- `Keyed<InstrumentIndex, MarketDataInstrument>` (the instrument type of
`index_market_data_subscription_batches`). -/
structure KInst where
  key : Nat
  value : Inst
  deriving DecidableEq, Repr, Inhabited

def KInst.sortKey (i : KInst) : List Nat := i.key :: i.value.sortKey

/-- `Display for Keyed` over `Display for InstrumentIndex`. -/
def KInst.display (i : KInst) : Str :=
  BarterModel.Names.keyedDisplay (BarterModel.Names.indexDisplay "InstrumentIndex" i.key) i.value.display

def kinstOps : InstOps KInst := ⟨fun i => i.value.kind.cls, KInst.sortKey⟩

/-- `MarketInstrumentData<InstrumentIndex>` (barter-data/src/instrument.rs:51-56); the exchange name is
the number of `i000`, `i001`, …. -/
structure MInst where
  key : Nat
  nameExchange : Nat
  kind : IK
  deriving DecidableEq, Repr, Inhabited

def instrumentName (n : Nat) : Str := 'i' :: BarterModel.Names.pad 3 n

/-- `#[derive(Ord)]` of `MarketInstrumentData`: key, exchange name (a string: `i1000 < i999`), kind. -/
def MInst.sortKey (i : MInst) : List Nat := i.key :: (strKey (instrumentName i.nameExchange) ++ i.kind.sortKey)

/-- `Display for MarketInstrumentData` (instrument.rs:74-88). -/
def MInst.display (i : MInst) : Str :=
  BarterModel.Names.indexDisplay "InstrumentIndex" i.key ++ '_' :: instrumentName i.nameExchange ++
    '_' :: i.kind.toMD.display

def minstOps : InstOps MInst := ⟨fun i => i.kind.cls, MInst.sortKey⟩

/-! ## Texts -/

/-- `Display for Subscription` (subscription/mod.rs:69-79): `(exchange|kind|instrument)`. -/
def subDisplay (disp : ι → Str) (s : Subscr ι) : Str :=
  '(' :: s.exchange.display ++ '|' :: s.kind.display ++ '|' :: disp s.instrument ++ [')']

/-- `display_subscriptions_without_exchange` (subscription/mod.rs:50-67): `(instrument, kind)` joined
by `,`. -/
def displayWithoutExchange (disp : ι → Str) (subs : List (Subscr ι)) : Str :=
  ",".toList.intercalate (subs.map fun s => '(' :: disp s.instrument ++ ", ".toList ++ s.kind.display ++ [')'])

/-- `SocketError::Unsupported { entity, item }` `Display` (barter-integration/src/error.rs:41). -/
def unsupportedText (entity item : Str) : Str := entity ++ " does not support: ".toList ++ item

/-- The error of the dynamic `validate` (subscription/mod.rs:237-240) as text. -/
def dynErrorText (kindDisp : Str) (e : ExchangeId) (k : SubKind) : Str :=
  unsupportedText e.display ('(' :: kindDisp ++ ", ".toList ++ k.display ++ [')'])

/-- The error of the static `validate` (subscription/mod.rs:174-177) as text. -/
def statErrorText (kindDisp : Str) (c : Exch) : Str := unsupportedText (connId c).display kindDisp

/-- `Display for DataError` (barter-data/src/error.rs:9-42) on the values `DynamicStreams::init` can
return; `kindDisp` = `Display` of the instrument's `MarketDataInstrumentKind`. -/
def InitErr.text (kindDisp : ι → Str) : InitErr ι → Str
  | .validation s => "SocketError: ".toList ++ dynErrorText (kindDisp s.instrument) s.exchange s.kind
  | .unsupportedSubKind k => "unsupported DynamicStreams Subscription SubKind: ".toList ++ k.display
  | .unsupported e k =>
    "unsupported dynamic Subscription for exchange: ".toList ++ e.display ++ ", kind: ".toList ++ k.display
  | .subscriptionsEmpty =>
    "failed to initialise reconnecting MarketStream due to empty subscriptions".toList
  | .panic => "panic".toList

/-- The `DataError` of a failing `subscribe` future as text. -/
def SubscribeOutcome.text (kindDisp : ι → Str) (c : Exch) : SubscribeOutcome ι → Str
  | .unsupported i => "SocketError: ".toList ++ statErrorText (kindDisp i) c
  | .empty => "failed to initialise reconnecting MarketStream due to empty subscriptions".toList
  | .connect _ => "network".toList

/-! ## `Map` (subscription/mod.rs:298-334) -/

open BarterModel.Connectors (IMap)

/-- `Map::from_iter`: `HashMap::from_iter`, a later pair replaces an earlier one with the same key. -/
def mapFromIter (l : List (Str × Nat)) : IMap := l.foldl (fun m kv => m.insert kv.1 kv.2) []

/-- `Map::find`: `none` = `Err(SocketError::Unidentifiable(id))`. -/
def mapFind (m : IMap) (id : Str) : Option Nat := m.find id

/-- `Map::find_mut` followed by an assignment through the reference. -/
def mapFindMutSet (m : IMap) (id : Str) (v : Nat) : Option IMap :=
  match m.find id with
  | some _ => some (m.insert id v)
  | none => none

/-! ## `indexed.rs` -/

open BarterModel.Index (Indexed Keyed IInstrument)

/-- `MarketInstrumentData::from(&Keyed<InstrumentIndex, Instrument<..>>)` (instrument.rs:90-103). -/
def MInst.ofIndexed (k : Keyed Nat IInstrument) : MInst :=
  ⟨k.key, k.value.nameExchange, IK.ofKind k.value.kind⟩

/-- `generate_indexed_market_data_subscription_batches` (indexed.rs:66-100). Exchanges are the naturals of
`Model/Index.lean` here (declaration positions). `usort` = itertools `sorted_unstable_by_key`. -/
def generateBatches (usort : List (Nat × MInst) → List (Nat × MInst)) (ii : Indexed)
    (kinds : List SubKind) : List (List (Nat × MInst × SubKind)) :=
  let instruments := ii.instruments.map (fun k => (k.value.exchange.value, MInst.ofIndexed k))
  (chunkBy (·.1) (usort instruments)).map fun g =>
    g.2.flatMap fun ei => kinds.map fun k => (ei.1, ei.2, k)

/-- Errors of `index_market_data_subscription_batches`: `DataError::Index(IndexError::..)`. -/
inductive IndexErr where
  | assetIndex
  | instrumentIndex
  deriving DecidableEq, Repr

/-- The closure `find_instrument` (indexed.rs:131-148): first instrument of the exchange with that kind
and those asset indices. -/
def findInstrument (ii : Indexed) (exchange : Nat) (kind : IK) (base quote : Nat) : Option Nat :=
  ii.instruments.findSome? fun x =>
    if x.value.exchange.value = exchange ∧ eqKind x.value.kind kind = true ∧ x.value.base = base ∧
        x.value.quote = quote then some x.key else none

/-- One subscription through the closure of indexed.rs:125-157. -/
def indexSub (ii : Indexed) (s : Nat × Inst × SubKind) : Except IndexErr (Nat × KInst × SubKind) :=
  match ii.findAssetIndex s.1 s.2.1.base with
  | none => .error .assetIndex
  | some b =>
    match ii.findAssetIndex s.1 s.2.1.quote with
    | none => .error .assetIndex
    | some q =>
      match findInstrument ii s.1 s.2.1.kind b q with
      | none => .error .instrumentIndex
      | some k => .ok (s.1, ⟨k, s.2.1⟩, s.2.2)

/-- `index_market_data_subscription_batches` (indexed.rs:115-163). -/
def indexBatches (ii : Indexed) (batches : List (List (Nat × Inst × SubKind))) :
    Except IndexErr (List (List (Nat × KInst × SubKind))) :=
  collectM (collectM (indexSub ii)) batches

/-! # Abstract specification

Written from the README table "Supported Exchange Subscriptions" (barter-data/README.md:45-62) and the
doc comments of `DynamicStreams::init`, `validate_subscriptions`, `StreamBuilder::subscribe`,
`generate_indexed_market_data_subscription_batches`, `index_market_data_subscription_batches`. -/

/-- One row of the README table: exchange, instrument kinds, subscription kinds. -/
structure DocRow where
  exchange : ExchangeId
  instrumentKinds : List IKC
  subKinds : List SubKind

/-- barter-data/README.md:48-62, row by row. -/
def docTable : List DocRow :=
  [ ⟨.binanceSpot, [.spot], [.publicTrades, .orderBooksL1, .orderBooksL2]⟩,
    ⟨.binanceFuturesUsd, [.perpetual], [.publicTrades, .orderBooksL1, .orderBooksL2]⟩,
    ⟨.bitfinex, [.spot], [.publicTrades]⟩,
    ⟨.bitmex, [.perpetual], [.publicTrades]⟩,
    ⟨.bybitSpot, [.spot], [.publicTrades]⟩,
    ⟨.bybitPerpetualsUsd, [.perpetual], [.publicTrades]⟩,
    ⟨.coinbase, [.spot], [.publicTrades]⟩,
    ⟨.gateioSpot, [.spot], [.publicTrades]⟩,
    ⟨.gateioFuturesUsd, [.future], [.publicTrades]⟩,
    ⟨.gateioFuturesBtc, [.future], [.publicTrades]⟩,
    ⟨.gateioPerpetualsUsd, [.perpetual], [.publicTrades]⟩,
    ⟨.gateioPerpetualsBtc, [.perpetual], [.publicTrades]⟩,
    ⟨.gateioOptions, [.option], [.publicTrades]⟩,
    ⟨.kraken, [.spot], [.publicTrades, .orderBooksL1]⟩,
    ⟨.okx, [.spot, .future, .perpetual, .option], [.publicTrades]⟩ ]

/-- The documentation lists the combination. -/
def documented (e : ExchangeId) (ik : IKC) (k : SubKind) : Bool :=
  docTable.any fun r => r.exchange == e && r.instrumentKinds.contains ik && r.subKinds.contains k

/-- The documentation lists the instrument kind for the exchange. -/
def documentedIK (e : ExchangeId) (ik : IKC) : Bool :=
  docTable.any fun r => r.exchange == e && r.instrumentKinds.contains ik

/-- The documentation lists the subscription kind for the exchange. -/
def documentedSK (e : ExchangeId) (k : SubKind) : Bool :=
  docTable.any fun r => r.exchange == e && r.subKinds.contains k

/-- The one combination the code supports on purpose (a `Liquidations` kind with a Binance futures
implementation exists) that the README table does not list. -/
def undocumentedExtra (e : ExchangeId) (ik : IKC) (k : SubKind) : Bool :=
  e == .binanceFuturesUsd && ik == .perpetual && k == .liquidations

/-- Acceptance of a batch, "a batch is accepted iff every element is". -/
def specAccepts (ok : Subscr ι → Bool) (batches : List (List (Subscr ι))) : Bool :=
  batches.all fun b => b.all ok

/-- The subscriptions of a batch as a set: ascending, without repetition. -/
def specSet [DecidableEq ι] (ops : InstOps ι) (batch : List (Subscr ι)) : List (Subscr ι) :=
  BarterModel.Index.sortDedup (Subscr.sortKey ops) batch

/-- "If the batch contains more-than-one ExchangeId and/or SubKind, it will be further split": one
connection per distinct `(exchange, kind)` of the batch, carrying exactly the batch's subscriptions with
that key (as a set, ascending). -/
def specGroups [DecidableEq ι] (ops : InstOps ι) (batch : List (Subscr ι)) :
    List ((ExchangeId × SubKind) × List (Subscr ι)) :=
  (BarterModel.Index.sortDedup gkeyNat (batch.map Subscr.gkey)).map fun k =>
    (k, (specSet ops batch).filter fun s => s.gkey = k)

/-- The connection a group stands for: its exchange, its kind, the channel family of the kind, the
instruments. (`none` of `route` cannot occur for a validated group: `validated_kind_is_routed`.) -/
def connOf (g : (ExchangeId × SubKind) × List (Subscr ι)) : Conn ι :=
  ⟨g.1.1, g.1.2, (match route g.1.2 with | some f => f | none => .trades), g.2.map (·.instrument)⟩

/-- The exchanges that must own a channel of family `f`: those with a subscription routed to it. -/
def specChanOwner (batches : List (List (Subscr ι))) (f : Chan) (e : ExchangeId) : Bool :=
  batches.any fun b => b.any fun s => s.exchange == e && route s.kind == some f

/-- "Note that calling this method will permanently remove this `Stream`": a stream is still in the
collection iff the collection was built with it and no call since has taken it. -/
def specPresent (init : Chans) (hist : List SelOp) (f : Chan) (e : ExchangeId) : Bool :=
  decide (e ∈ init.get f) && hist.all fun h =>
    match h with
    | .everything => false
    | .selectAll f' => f' != f
    | .select f' e' => !(f' == f && e' == e)

/-- the stable sort of the instruments by exchange (what `sorted_unstable_by_key` is instantiated with in
the driver) -/
def stableSortIdx (l : List (Nat × MInst)) : List (Nat × MInst) :=
  l.mergeSort (BarterModel.Index.leKey (fun x => BarterModel.Index.exchangeKey x.1))

/-- "Generates indexed `Subscriptions` for each Instrument-SubKind combination … grouped by
`ExchangeId`": per distinct exchange one batch, instruments in index order, kinds in the given order. -/
def specGenerate (ii : Indexed) (kinds : List SubKind) : List (List (Nat × MInst × SubKind)) :=
  (BarterModel.Index.sortDedup BarterModel.Index.exchangeKey
      (ii.instruments.map fun k => k.value.exchange.value)).map fun e =>
    (ii.instruments.filter fun k => k.value.exchange.value = e).flatMap fun k =>
      kinds.map fun sk => (e, MInst.ofIndexed k, sk)

/-- "Finding the `InstrumentIndex` associated with the `Subscription` `ExchangeId`, [kind] and assets": a
subscription can be indexed iff some indexed instrument of that exchange has that kind and underlying
assets with those internal names. -/
def specIndexable (ii : Indexed) (s : Nat × Inst × SubKind) : Bool :=
  ii.instruments.any fun x =>
    x.value.exchange.value == s.1 && eqKind x.value.kind s.2.1.kind &&
      ((BarterModel.Index.resolveAsset ii.assets s.1 x.value.base).map (·.nameInternal)) == some s.2.1.base &&
      ((BarterModel.Index.resolveAsset ii.assets s.1 x.value.quote).map (·.nameInternal)) == some s.2.1.quote

end BarterModel.Subscribe
