import BarterModel.Model.Book
/-!
# Order book event dispatch, `OrderBookMap` and the L2 manager (sub-check C05M of C05)

Grows the order-book model of `Model/Book.lean` (C05) by the code around it, function for function:

* `barter-data/src/books/mod.rs`: `struct Level` with its derived `PartialEq` / `Ord`; the *real*
  search of `upsert_single` (`slice::binary_search_by`, transcribed from `core::slice`, where C05
  models it as a front-to-back scan and lists that as an assumption); `OrderBook` with all four
  fields (`sequence`, `time_engine`, `bids`, `asks`); `OrderBook::new` for **arbitrary** input
  (unsorted, duplicate prices, zero amounts); `update` (dispatch on `Snapshot` / `Update`);
  `snapshot(depth)`; `bids()` / `asks()` / `levels()` (plain accessors: the fields themselves).
  There is no `best()` in this tree: the best level is `levels().first()` (used by `mid_price`).
* `barter-data/src/books/map.rs`: `OrderBookMapSingle`, `OrderBookMapMulti` (`find`, `keys`,
  `insert`); the `Arc<RwLock<OrderBook>>` cells are modelled as indices into a heap of books, so two
  keys (or two maps) sharing one cell is expressible.
* `barter-data/src/books/manager.rs`: `OrderBookL2Manager::run`.

What is reused from `Model/Book.lean` (imported, not copied): `Level`, `Side` (`cmp`, `before`, `le`),
`cmpRat`, `sortLevels` (the constructors' sort), `upsertSingle` / `upsert` (the scan model, proved
equal to the binary-search model on strictly ordered sides), `OrderBook` (the time-less core),
`midPrice`, `volumeWeightedMidPrice`, and the map specification `PMap` / `Spec`.

Core Lean only. `Decimal` is `Rat`, `u64`/`usize` are `Nat`, `DateTime<Utc>` is `Int` (milliseconds).
-/
namespace BarterModel.BookManager
open BarterModel.Book

/-! ## `struct Level` (`books/mod.rs:269-296`): derived equality and order -/

/-- `#[derive(PartialEq)]` + `impl Eq for Level` (`books/mod.rs:269`, `:284`): field by field. -/
def levelEq (a b : Level) : Bool := a.price == b.price && a.amount == b.amount

/-- `#[derive(PartialOrd, Ord)]` (`books/mod.rs:269`): lexicographic in declaration order,
`price` first, then `amount`. -/
def levelCmp (a b : Level) : Ordering :=
  match cmpRat a.price b.price with
  | .eq => cmpRat a.amount b.amount
  | o => o

/-- `Ord::max` (std default method: `if other < self { self } else { other }`). -/
def levelMax (a b : Level) : Level := if levelCmp b a = .lt then a else b

/-- `Ord::min` (std default method: `if other < self { other } else { self }`). -/
def levelMin (a b : Level) : Level := if levelCmp b a = .lt then b else a

/-- `Vec<Level>::sort()` (the derived order as `≤`). -/
def levelLe (a b : Level) : Bool := levelCmp a b != .gt

/-- `Level::new` / `From<(T, T)>` (`books/mod.rs:275-296`). -/
def levelNew (price amount : Rat) : Level := ⟨price, amount⟩

/-! ## `slice::binary_search_by` (`core/src/slice/mod.rs`, the branch-free loop of std ≥ 1.82)

`g i` is the comparator applied to element `i` (`f(self.get_unchecked(i))`). -/

/-- The `while size > 1` loop: `half = size / 2; mid = base + half;
base = if cmp == Greater { base } else { mid }; size -= half`. Returns the final `base`. -/
def bsLoop (g : Nat → Ordering) (base size : Nat) : Nat :=
  if 1 < size then
    bsLoop g (if g (base + size / 2) = .gt then base else base + size / 2) (size - size / 2)
  else base
termination_by size
decreasing_by omega

/-- `Result<usize, usize>` of the search. -/
inductive Found where
  | ok (index : Nat)
  | err (index : Nat)
deriving DecidableEq, Repr

/-- `binary_search_by` on indices `0..n`: `Err(0)` on an empty slice; otherwise one last
comparison at `base`: `Equal ⇒ Ok(base)`, else `Err(base + (cmp == Less) as usize)`. -/
def searchIdx (g : Nat → Ordering) (n : Nat) : Found :=
  if n = 0 then .err 0 else
    let base := bsLoop g 0 n
    match g base with
    | .eq => .ok base
    | .lt => .err (base + 1)
    | .gt => .err base

/-- `self.levels.binary_search_by(fn_ord)`. -/
def binarySearchBy (f : Level → Ordering) (ls : List Level) : Found :=
  searchIdx (fun i => f (ls.getD i default)) ls.length

/-- `OrderBookSide::upsert_single` (`books/mod.rs:219-247`) with the real search:

* `(Ok(index), 0)`   — 1a: `levels.remove(index)`
* `(Ok(index), a)`   — 1b: `levels[index].amount = a` (the stored price is kept)
* `(Err(_), 0)`      — 2a: log and continue
* `(Err(index), a)`  — 2b: `levels.insert(index, new_level)`

`fn_ord` is `|existing| side.cmp existing.price new.price` (`:167-169`, `:195`). -/
def upsertSingleBS (side : Side) (new : Level) (ls : List Level) : List Level :=
  match binarySearchBy (fun existing => side.cmp existing.price new.price) ls with
  | .ok index =>
    if new.amount = 0 then ls.eraseIdx index
    else ls.modify index (fun x => { x with amount := new.amount })
  | .err index =>
    if new.amount = 0 then ls else ls.insertIdx index new

/-- `OrderBookSide::<Bids|Asks>::upsert` (`books/mod.rs:160-171`, `188-197`). -/
def upsertBS (side : Side) (levels : List Level) (update : List Level) : List Level :=
  update.foldl (fun acc u => upsertSingleBS side u acc) levels

/-! ## `struct OrderBook` with all fields (`books/mod.rs:17-91`) -/

/-- `books/mod.rs:17-23`. `bids` / `asks` are the `levels` of the two `OrderBookSide`s (the `side`
tag is a unit type). `OrderBook::bids()`, `::asks()` (`:84-91`) and `OrderBookSide::levels()`
(`:205-207`) return these fields. -/
structure TBook where
  sequence : Nat
  timeEngine : Option Int
  bids : List Level
  asks : List Level
deriving DecidableEq, Repr, Inhabited

/-- `#[derive(Default)]`: sequence 0, no time, no levels. -/
def TBook.default : TBook := ⟨0, none, [], []⟩

/-- `OrderBook::new` (`books/mod.rs:29-46`) = `OrderBookSide::bids` / `::asks` (`:148-157`,
`:176-185`): collect and `sort_by` price (`:154`, `:182`; bids reversed). `slice::sort_by` is
documented stable, and `sortLevels` (`Model/Book.lean`) is `List.mergeSort`, a stable sort: the
order among equal-priced levels is the input order in both. Nothing else: no de-duplication, no
removal of zero amounts. -/
def TBook.new (sequence : Nat) (timeEngine : Option Int) (bids asks : List Level) : TBook :=
  ⟨sequence, timeEngine, sortLevels .bids bids, sortLevels .asks asks⟩

/-- `OrderBook::snapshot(depth)` (`books/mod.rs:49-56`). -/
def TBook.snapshot (self : TBook) (depth : Nat) : TBook :=
  { sequence := self.sequence
    timeEngine := self.timeEngine
    bids := sortLevels .bids (self.bids.take depth)
    asks := sortLevels .asks (self.asks.take depth) }

/-- `OrderBookEvent` (`subscription/book.rs:122-126`). -/
inductive TEvent where
  | snapshot (book : TBook)
  | update (book : TBook)
deriving DecidableEq, Repr, Inhabited

def TEvent.book : TEvent → TBook
  | .snapshot b => b
  | .update b => b

/-- `OrderBook::update` (`books/mod.rs:59-71`): `Snapshot ⇒ *self = snapshot`; `Update ⇒` copy
`sequence` and `time_engine`, `upsert_bids`, then `upsert_asks`. -/
def TBook.update (self : TBook) : TEvent → TBook
  | .snapshot snapshot => snapshot
  | .update update =>
    { sequence := update.sequence
      timeEngine := update.timeEngine
      bids := upsertBS .bids self.bids update.bids
      asks := upsertBS .asks self.asks update.asks }

def TBook.run (self : TBook) (events : List TEvent) : TBook := events.foldl TBook.update self

/-- forget `time_engine`: the C05 core book. -/
def TBook.toCore (b : TBook) : OrderBook := ⟨b.sequence, b.bids, b.asks⟩

def TEvent.toCore : TEvent → Event
  | .snapshot b => .snapshot b.toCore
  | .update b => .update b.toCore

/-- `levels().first()` of a side: the best level. -/
def best (ls : List Level) : Option Level := ls.head?

/-- `OrderBook::mid_price` (`books/mod.rs:96-103`), through the C05 model. -/
def TBook.midPrice (b : TBook) : Option Rat := b.toCore.midPrice

/-- `Decimal` division by zero panics: `volume_weighed_mid_price` (`books/mod.rs:109-118`,
`:309-312`) panics exactly when both sides have a best level and their amounts sum to zero. -/
def TBook.vwMidPanics (b : TBook) : Bool :=
  match b.bids.head?, b.asks.head? with
  | some bb, some ba => bb.amount + ba.amount == 0
  | _, _ => false

def TBook.volumeWeightedMidPrice (b : TBook) : Option Rat := b.toCore.volumeWeightedMidPrice

/-! ## `OrderBookMap` (`books/map.rs`) and `OrderBookL2Manager::run` (`books/manager.rs:42-65`) -/

/-- The `Arc<RwLock<OrderBook>>` cells, by allocation index. -/
abbrev Heap := List TBook

/-- `OrderBookMapSingle { instrument, book }` (`map.rs:24-27`) or `OrderBookMapMulti { books }`
(`map.rs:50-55`; the `FnvHashMap` as an association list with one entry per key). -/
inductive BookMap where
  | single (instrument : Nat) (cell : Nat)
  | multi (books : List (Nat × Nat))
deriving DecidableEq, Repr, Inhabited

/-- `OrderBookMap::find` (`map.rs:39-45`: `if &self.instrument == key`; `:67-69`:
`self.books.get(key).cloned()`): the cell, shared (`Arc::clone`). -/
def BookMap.find : BookMap → Nat → Option Nat
  | .single instrument cell, key => if instrument = key then some cell else none
  | .multi books, key => books.lookup key

/-- `OrderBookMap::keys` (`map.rs:35-37`: `once(&self.instrument)`; `:63-65`: `self.books.keys()`,
in unspecified order — the drivers sort). -/
def BookMap.keys : BookMap → List Nat
  | .single instrument _ => [instrument]
  | .multi books => books.map (·.1)

/-- `HashMap::insert`: replaces the value of an existing key. -/
def hashInsert (books : List (Nat × Nat)) (key cell : Nat) : List (Nat × Nat) :=
  (key, cell) :: books.filter (fun e => e.1 != key)

/-- `OrderBookMapMulti::insert` (`map.rs:77-79`). (Not defined on `OrderBookMapSingle`.) -/
def BookMap.insert : BookMap → Nat → Nat → BookMap
  | .multi books, key, cell => .multi (hashInsert books key cell)
  | m, _, _ => m

/-- A `FnvHashMap` collected from `(key, cell)` pairs, later pairs winning
(`init_multi_order_book_l2_manager`, `manager.rs:92-108`: "duplicates upserted"). -/
def multiOf (pairs : List (Nat × Nat)) : BookMap :=
  .multi (pairs.foldl (fun acc kc => hashInsert acc kc.1 kc.2) [])

/-- `MarketStreamEvent<Key, OrderBookEvent>`. -/
inductive TStreamEvent where
  | reconnecting
  | item (instrument : Nat) (event : TEvent)
deriving DecidableEq, Repr, Inhabited

/-- One iteration of `while let Some(stream_event) = self.stream.next().await`:
`Reconnecting ⇒ continue`; `find` fails `⇒` warn, `continue`; else `book.write().update(kind)`. -/
def managerStep (map : BookMap) (heap : Heap) : TStreamEvent → Heap
  | .reconnecting => heap
  | .item instrument event =>
    match map.find instrument with
    | none => heap
    | some cell => heap.modify cell (fun book => book.update event)

/-- `OrderBookL2Manager::run` over a finite stream. -/
def managerRun (map : BookMap) (heap : Heap) (stream : List TStreamEvent) : Heap :=
  stream.foldl (managerStep map) heap

/-! ## Abstract specification

Written from the documentation, not from the code above:

* *"Maintains a set of local L2 OrderBooks by applying streamed OrderBookEvents to the associated
  OrderBook in the OrderBookMap"* (`manager.rs:27-28`): the book in cell `c` after a stream is the
  fold of exactly the events whose instrument is associated with `c`, in stream order.
* *"Normalised Barter OrderBook snapshot"*, *"Construct a new sorted OrderBook … levels do not need
  to be pre-sorted"*: a `Snapshot` is the whole new state; constructed sides are the given levels in
  price order.
* `upsert_single`'s documented scenarios (`mod.rs:211-218`): a level exists or does not; zero removes
  one, non-zero replaces or inserts. On a side viewed as a *bag of prices* that is: zero removes one
  occurrence (if any), non-zero adds the price unless present. For well-formed sides (one level per
  price, no zero amount) the finer map specification `PMap` of C05 applies.
* derived `Ord` on `Level`: lexicographic `(price, amount)`.
-/

/-- strict lexicographic order on `(price, amount)` -/
def levelLtSpec (a b : Level) : Bool :=
  decide (a.price < b.price) || (a.price == b.price && decide (a.amount < b.amount))

def levelCmpSpec (a b : Level) : Ordering :=
  if levelLtSpec a b then .lt else if levelLtSpec b a then .gt else .eq

/-- The events of the stream whose instrument is associated with cell `c`, in stream order. -/
def eventsForCell (map : BookMap) (c : Nat) (stream : List TStreamEvent) : List TEvent :=
  stream.filterMap fun
    | .reconnecting => none
    | .item k ev => if map.find k = some c then some ev else none

/-- The events of the stream addressed to instrument `k`, in stream order. -/
def eventsForKey (k : Nat) (stream : List TStreamEvent) : List TEvent :=
  stream.filterMap fun
    | .reconnecting => none
    | .item k' ev => if k' = k then some ev else none

/-- A side as a bag of prices (multiplicities matter, order does not). -/
abbrev Bag := List Rat

/-- One documented upsert on the bag: zero removes one occurrence if there is one; non-zero leaves
an existing price alone and adds an absent one. -/
def Bag.set (bag : Bag) (price amount : Rat) : Bag :=
  if amount = 0 then bag.erase price else if bag.contains price then bag else price :: bag

def Bag.apply (bag : Bag) (changes : List Level) : Bag :=
  changes.foldl (fun b l => b.set l.price l.amount) bag

/-- the bag in book order (bids: descending, asks: ascending) -/
def Bag.inOrder (side : Side) (bag : Bag) : List Rat :=
  bag.mergeSort (fun a b => !side.before b a)

/-- the best price: one that no other price of the bag beats -/
def Bag.best (side : Side) (bag : Bag) : Option Rat :=
  bag.find? fun p => bag.all fun q => !side.before q p

/-- one level per price and no zero amount -/
def cleanSide (ls : List Level) : Bool :=
  decide (ls.map Level.price).Nodup && ls.all (fun l => l.amount != 0)

/-- The abstract state of one cell: the fields copied from the last event, the two price bags, and
— as long as the cell descends from a clean base (the default book or a clean snapshot) — the two
price → amount maps of C05. -/
structure SCell where
  sequence : Nat
  timeEngine : Option Int
  bidPrices : Bag
  askPrices : Bag
  maps : Option (PMap × PMap)
deriving Repr, Inhabited

/-- the abstract state denoted by a given book (a snapshot *is* the new state) -/
def SCell.ofBook (b : TBook) : SCell :=
  { sequence := b.sequence
    timeEngine := b.timeEngine
    bidPrices := b.bids.map Level.price
    askPrices := b.asks.map Level.price
    maps := if cleanSide b.bids && cleanSide b.asks then some (PMap.ofLevels b.bids, PMap.ofLevels b.asks) else none }

def SCell.step (c : SCell) : TEvent → SCell
  | .snapshot s => SCell.ofBook s
  | .update u =>
    { sequence := u.sequence
      timeEngine := u.timeEngine
      bidPrices := c.bidPrices.apply u.bids
      askPrices := c.askPrices.apply u.asks
      maps := c.maps.map fun (mb, ma) => (mb.apply u.bids, ma.apply u.asks) }

def SCell.run (c : SCell) (events : List TEvent) : SCell := events.foldl SCell.step c

/-- The manager, abstractly: every cell independently folds the events associated with it. -/
def specRun (map : BookMap) (cells : List SCell) (stream : List TStreamEvent) : List SCell :=
  cells.mapIdx fun c cell => cell.run (eventsForCell map c stream)

/-- mid-price from the bags alone: mean of the best prices, the only best price, or none. -/
def SCell.midPrice (c : SCell) : Option Rat :=
  match Bag.best .bids c.bidPrices, Bag.best .asks c.askPrices with
  | some b, some a => some ((b + a) / 2)
  | some b, none => some b
  | none, some a => some a
  | none, none => none

/-- the C05 map specification of a clean cell -/
def SCell.spec? (c : SCell) : Option Spec :=
  c.maps.map fun (mb, ma) => ⟨c.sequence, mb, ma⟩

/-! ## Predicates used in the statements -/

/-- in (weak) book order: no level is stored after a level it should precede; equal prices may
repeat. This is what the constructors' sort establishes for every input. -/
def WSorted (s : Side) (ls : List Level) : Prop := ls.Pairwise (fun a b => s.le a b = true)

instance (s : Side) (ls : List Level) : Decidable (WSorted s ls) := by unfold WSorted; infer_instance

/-- both sides in weak book order -/
structure WSortedBook (b : TBook) : Prop where
  bids : WSorted .bids b.bids
  asks : WSorted .asks b.asks

/-- number of stored levels at a price -/
def countAt (ls : List Level) (p : Rat) : Nat := ls.countP (fun l => l.price == p)

/-- Every book a user of the public API can hold. `P` constrains the level lists given to
`OrderBook::new` for *states* (stand-alone books and `Snapshot` payloads); `Update` payloads are
never constrained.

Out of scope (no constructor here): `#[derive(Deserialize)]` on `OrderBook` / `OrderBookSide`
(`books/mod.rs:16`, `:121`). serde fills the `levels` vector as it stands in the document, without
sorting, so a *deserialised* book can hold its sides in any order and none of the invariants proved
for `Reachable` books is claimed for it. (The public fields `sequence` / `time_engine` can also be
assigned directly; they carry no invariant.) -/
inductive Reachable (P : List Level → Prop) : TBook → Prop where
  | default : Reachable P TBook.default
  | new (seq te bids asks) : P bids → P asks → Reachable P (TBook.new seq te bids asks)
  | snapshotEvent {b} (seq te bids asks) : Reachable P b → P bids → P asks →
      Reachable P (b.update (.snapshot (TBook.new seq te bids asks)))
  | updateEvent {b} (seq te bids asks) : Reachable P b →
      Reachable P (b.update (.update (TBook.new seq te bids asks)))
  | depthSnapshot {b} (depth) : Reachable P b → Reachable P (b.snapshot depth)

/-- the documented well-formed constructor input: pairwise distinct prices, no zero amount -/
def CleanInput (ls : List Level) : Prop := (ls.map Level.price).Nodup ∧ NonZero ls

/-! ## Additions after the review of the sub-check theorems (`audit/sub/report_A.md`, C05M)

### the `Decimal` division by zero of `volume_weighted_mid_price`, on both sides of the refinement

`Rat` division is total (`x / 0 = 0`), `Decimal` division panics. `TBook.vwMidPanics` (above) is the
model-side condition. The specification gets its own, written on the price → amount maps: the
micro-price is *undefined* when both maps have a best entry and the two best amounts cancel. -/

/-- spec side: the volume-weighted mid-price of the map specification is undefined (the divisor
`best bid amount + best ask amount` is zero). Computed from the abstract maps alone. -/
def vwMidUndefined (sp : Spec) : Bool :=
  match PMap.best .bids sp.bids, PMap.best .asks sp.asks with
  | some b, some a => b.amount + a.amount == 0
  | _, _ => false

/-- What a caller of `OrderBook::volume_weighed_mid_price` observes: `none` = the call panics
(`Decimal` division by zero), `some r` = it returns `r`. This is what `drv_c05m model` prints. -/
def TBook.vwMidChecked (b : TBook) : Option (Option Rat) :=
  if b.vwMidPanics then none else some b.volumeWeightedMidPrice

/-- the same observation as the specification defines it: `none` = undefined. This is what
`drv_c05m spec` prints (`vw<cell> panic` for `none`). -/
def vwMidCheckedSpec (sp : Spec) : Option (Option Rat) :=
  if vwMidUndefined sp then none else some sp.volumeWeightedMidPrice

/-! ### `OrderBookMap` abstractly: the log of associations

Written from the documentation of `books/map.rs` / `manager.rs` (*"Collection of shared-state
Instrument OrderBooks"*, `find`: *"Attempt to find the OrderBook associated with the provided Key"*,
`keys`: *"an Iterator over the OrderBookMap Keys"*, `insert`: *"Insert a new OrderBook into the
OrderBookMapMulti"*, the multi manager's map: *"Insert OrderBook Entry for each unique Subscription
(duplicates upserted)"*): a map *is* the list of `(key, cell)` associations in the order in which they were made
(`OrderBookMapSingle::new(k, c)`: one association; `OrderBookMapMulti::new(pairs)`: the pairs;
`insert(k, c)`: one more at the end). The association in force for a key is the **last** one made;
the keys are the keys that have an association. No hash map, no replacement. -/

abbrev AssocLog := List (Nat × Nat)

/-- the cell of the last association made for `key` (a later one wins over an earlier one) -/
def AssocLog.find : AssocLog → Nat → Option Nat
  | [], _ => none
  | (k, c) :: rest, key => (AssocLog.find rest key).or (if k = key then some c else none)

/-- the keys that have an association, each once (order irrelevant: the drivers sort) -/
def AssocLog.keys : AssocLog → List Nat
  | [] => []
  | (k, _) :: rest => if (AssocLog.keys rest).contains k then AssocLog.keys rest else k :: AssocLog.keys rest

/-- the events of the stream that a key resolution `find` sends to cell `c`, in stream order
(`eventsForCell m` is `eventsForCellBy m.find`) -/
def eventsForCellBy (find : Nat → Option Nat) (c : Nat) (stream : List TStreamEvent) : List TEvent :=
  stream.filterMap fun
    | .reconnecting => none
    | .item k ev => if find k = some c then some ev else none

/-- `specRun` with the key resolution as a parameter: `drv_c05m spec` runs it with `AssocLog.find`
of its own log, so that no `BookMap` (no `lookup`, no `hashInsert`) occurs on the spec side. -/
def specRunBy (find : Nat → Option Nat) (cells : List SCell) (stream : List TStreamEvent) : List SCell :=
  cells.mapIdx fun c cell => cell.run (eventsForCellBy find c stream)

/-- a concrete map resolves every key as the log does -/
def MapRefines (m : BookMap) (log : AssocLog) : Prop := ∀ k, m.find k = log.find k

end BarterModel.BookManager
