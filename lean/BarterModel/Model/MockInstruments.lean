import BarterModel.Model.Index
import BarterModel.Model.ExecMap
import BarterModel.Model.MockExchange
/-
Model of the *mock exchange instrument table* that `ExecutionBuilder` derives from the indexed
instruments, and of the plumbing around it:

* `generate_mock_exchange_instruments` (barter/src/execution/builder.rs:389-493),
* `ExecutionBuilder::{add_mock, init_mock_exchange, add_live, add_execution, build}`
  (builder.rs:88-234) as far as they are decision logic (what is created for which exchange, in
  which order the checks happen, which request channel / event broadcast a mock client shares with
  which `MockExchange`),
* `ExecutionBuild::init` / `ExecutionBuildFutures::init_internal` (builder.rs:255-351): which futures
  are spawned,
* `MockExchange::new` (barter-execution/src/exchange/mock/mod.rs:53-70) as far as it consumes the
  table, `find_instrument_data` (mod.rs:393-403) and the lookups `open_order` does with it
  (mod.rs:264-267, 274-277, 306-309),
* the path of one open request from the engine side (`execution_txs.find(..).send(..)`) through the
  `ExecutionManager` (manager.rs:241-339), the `MockExecution` client
  (barter-execution/src/client/mock/mod.rs:205-245), the `MockExchange` and back through the
  `AccountEventIndexer` to the merged account channel.

Everything that exists already is imported, not copied: the indexed collection and its builder are
`BarterModel.Index` (property C11), the per-exchange `ExecutionInstrumentMap`, the builder's
transmitter table and the engine's routing are `BarterModel.ExecMap` (property C04), the ledger of the
simulated exchange is `BarterModel.MockExchange` (property C08).

Identifiers as in `Model/Index`: exchange ids, names, decimals of an `InstrumentSpec` are `Nat`.
A `FnvHashMap` built by `collect()` is an association list built by in-place upsert
(`ExecMap.collectG`: a later pair with an existing key replaces the value) and read by `List.lookup`;
hash-map iteration order is never observed.

Second half of the file: the abstract specification, written from the documented intent ("mocks a
specific exchange internally", `MockExchange is not set-up for managing: {instrument}`,
`MockExchange has Balance for all configured Instrument assets`), not from the code.

Core Lean only.
-/
namespace BarterModel.MockInstruments
open BarterModel.Index

/-! ## The table (builder.rs:389-493) -/

/-- `Instrument<ExchangeId, AssetNameExchange>`: the value type of `MockExchange::instruments`
(mock/mod.rs:45). The exchange key is the `ExchangeId`, every asset key an `AssetNameExchange`. -/
abbrev MInstrument := Instrument Nat Nat

/-- The two ways `generate_mock_exchange_instruments` panics. -/
inductive Panic where
  /-- builder.rs:417-419 `panic!("MockExchange does not support: {unsupported:?}")` -/
  | unsupportedKind
  /-- builder.rs:437-439, 462-464, 469-471 `instruments.find_asset(..).unwrap()` -/
  | unknownAsset
  deriving DecidableEq, Repr, Inhabited

/-- `instruments.find_asset(index).unwrap().asset.name_exchange.clone()`
(builder.rs:437-442, 462-467, 469-474); `find_asset` is the lookup *by key* of index/mod.rs:129-137. -/
def assetName (ii : Indexed) (k : Nat) : Except Panic Nat :=
  match ii.findAsset k with
  | some a => .ok a.asset.nameExchange
  | none => .error .unknownAsset

/-- builder.rs:415-420: only `Spot` is supported. -/
def mockKind : Kind Nat → Except Panic (Kind Nat)
  | .spot => .ok .spot
  | _ => .error .unsupportedKind

/-- builder.rs:435-447. -/
def mockUnit (ii : Indexed) : Units Nat → Except Panic (Units Nat)
  | .asset a =>
    match assetName ii a with
    | .error e => .error e
    | .ok n => .ok (.asset n)
  | .contract => .ok .contract
  | .quote => .ok .quote

/-- builder.rs:422-460: the spec is rebuilt field by field, only the quantity unit changes type. -/
def mockSpec (ii : Indexed) : Option (Spec Nat) → Except Panic (Option (Spec Nat))
  | none => .ok none
  | some s =>
    match mockUnit ii s.unit with
    | .error e => .error e
    | .ok u =>
      .ok (some { priceMin := s.priceMin, tick := s.tick, unit := u, qtyMin := s.qtyMin,
                  qtyInc := s.qtyInc, notionalMin := s.notionalMin })

/-- The body of the `filter_map` closure for an instrument that passed the exchange test
(builder.rs:405-489), in the order the code evaluates: kind, spec, base, quote. The pair is
`(instrument.name_exchange.clone(), instrument)`. -/
def mockEntry (ii : Indexed) (i : IInstrument) : Except Panic (Nat × MInstrument) :=
  match mockKind i.kind with
  | .error e => .error e
  | .ok kind =>
    match mockSpec ii i.spec with
    | .error e => .error e
    | .ok spec =>
      match assetName ii i.base with
      | .error e => .error e
      | .ok base =>
        match assetName ii i.quote with
        | .error e => .error e
        | .ok quote =>
          .ok (i.nameExchange,
            { exchange := i.exchange.value, nameInternal := i.nameInternal,
              nameExchange := i.nameExchange, base := base, quote := quote,
              quoteAsset := i.quoteAsset, kind := kind, spec := spec })

/-- The instruments that pass `instrument.exchange.value != exchange => return None`
(builder.rs:401-403), in table order. -/
def ofExchange (ii : Indexed) (ex : Nat) : List IInstrument :=
  (ii.instruments.filter fun x => x.value.exchange.value == ex).map (·.value)

/-- The table type: `FnvHashMap<InstrumentNameExchange, Instrument<ExchangeId, AssetNameExchange>>`. -/
abbrev Table := List (Nat × MInstrument)

/-- `generate_mock_exchange_instruments` (builder.rs:389-493): the iterator is lazy, so the first
offending instrument *of this exchange* in table order decides the panic; `collect()` into the hash
map inserts in order, a later equal key replaces the value. -/
def genMockInstruments (ii : Indexed) (ex : Nat) : Except Panic Table :=
  match ExecMap.mapE (mockEntry ii) (ofExchange ii ex) with
  | .error e => .error e
  | .ok pairs => .ok (ExecMap.collectG pairs)

/-- `MockExchange::find_instrument_data` (mock/mod.rs:393-403): `none` = `ApiError::InstrumentInvalid`. -/
def findInstrumentData (t : Table) (name : Nat) : Option MInstrument := t.lookup name

/-! ## From the indexed collection to the C04 collection -/

/-- The part of an `IndexedInstruments` that `generate_execution_instrument_map` reads
(map.rs:123-156): keys, exchange ids and exchange names. -/
def toColl (ii : Indexed) : ExecMap.Coll :=
  { exchanges := ii.exchanges.map fun x => ⟨x.key, x.value⟩
    assets := ii.assets.map fun x => ⟨x.key, x.value.exchange, x.value.asset.nameExchange⟩
    instruments := ii.instruments.map fun x => ⟨x.key, x.value.exchange.value, x.value.nameExchange⟩ }

/-! ## ExecutionBuilder (builder.rs:63-235) -/

/-- `MockExecutionConfig` (client/mock/mod.rs:31-36): the mocked exchange, latency, fee and the
balances of `initial_state` (asset `name_exchange`, amount; `total = free = amount`). Orders of the
initial state are property C08C and not part of this model. -/
structure MockConfig where
  exchange : Nat
  latency : Nat
  fee : Rat
  balances : List (Nat × Rat)
  deriving Repr, Inhabited

/-- One call on the builder. -/
inductive Add where
  | mock (c : MockConfig)
  /-- `add_live::<Client>` with `Client::EXCHANGE = exchange` -/
  | live (exchange : Nat)
  deriving Repr, Inhabited

def Add.exchange : Add → Nat
  | .mock c => c.exchange
  | .live e => e

def Add.isMock : Add → Bool
  | .mock _ => true
  | .live _ => false

/-- Which client an `ExecutionManager` is initialised with. A mock client is identified by the
channel pair created for it at builder.rs:99-100 (`request_tx`, `event_rx`). -/
inductive Client where
  | mock (chan : Nat)
  | live
  deriving DecidableEq, Repr, Inhabited

/-- What `init_mock_exchange` boxes (builder.rs:120-129): `MockExchange::new(config, request_rx,
event_tx, instruments).run()`; `chan` identifies the channel pair whose other ends went into the
client configuration. -/
structure MockFuture where
  chan : Nat
  config : MockConfig
  table : Table
  deriving Repr, Inhabited

/-- One element of `execution_init_futures` (builder.rs:173-190): the manager of `exchange`, its
`ExchangeIndex`, its map and its client. -/
structure InitFuture where
  exchange : Nat
  index : Nat
  map : ExecMap.EMap
  client : Client
  deriving Repr, Inhabited

/-- `ExecutionBuilder` (builder.rs:63-69). `added` is `execution_txs` in the C04 representation;
`chans` counts the channel pairs created so far. -/
structure Builder where
  added : List (Nat × ExecMap.Link) := []
  mockFutures : List MockFuture := []
  initFutures : List InitFuture := []
  chans : Nat := 0
  deriving Repr, Inhabited

inductive AddError where
  /-- `generate_mock_exchange_instruments` panicked -/
  | panic (p : Panic)
  /-- `add_execution` returned `Err` -/
  | build (e : ExecMap.BuildError)
  deriving DecidableEq, Repr, Inhabited

/-- `add_execution` (builder.rs:145-193) = C04's `addExecution` on the transmitter table, plus the
init future pushed at the end. -/
def addExecution (ii : Indexed) (b : Builder) (ex : Nat) (client : Client) : Except AddError Builder :=
  match ExecMap.addExecution (toColl ii) b.added ex with
  | .error e => .error (.build e)
  | .ok added =>
    match added.lookup ex with
    | none => .error (.build .index)  -- unreachable: `addExecution` has just inserted `ex`
    | some l =>
      .ok { b with added := added,
                   initFutures := b.initFutures ++ [{ exchange := ex, index := l.index, map := l.map, client := client }] }

/-- `add_mock` (builder.rs:88-118): channels first, then the table (may panic), then the mock
exchange future is registered, then `add_execution` (may return `Err`). -/
def addMock (ii : Indexed) (b : Builder) (c : MockConfig) : Except AddError Builder :=
  let chan := b.chans
  match genMockInstruments ii c.exchange with
  | .error p => .error (.panic p)
  | .ok table =>
    let b' := { b with chans := b.chans + 1,
                       mockFutures := b.mockFutures ++ [{ chan := chan, config := c, table := table }] }
    addExecution ii b' c.exchange (.mock chan)

/-- `add_live` (builder.rs:132-143). -/
def addLive (ii : Indexed) (b : Builder) (ex : Nat) : Except AddError Builder :=
  addExecution ii b ex .live

def add (ii : Indexed) (b : Builder) : Add → Except AddError Builder
  | .mock c => addMock ii b c
  | .live e => addLive ii b e

/-- A sequence of `add_*` calls; the first failure ends the construction (`Result<Self, _>` / the
panic). The number is the position of the failing call. -/
def addAll (ii : Indexed) : Builder → List Add → Nat → Except (Nat × AddError) Builder
  | b, [], _ => .ok b
  | b, a :: rest, k =>
    match add ii b a with
    | .error e => .error (k, e)
    | .ok b' => addAll ii b' rest (k + 1)

/-! ## ExecutionBuild::init (builder.rs:255-351) and the running system -/

/-- A spawned `MockExchange::run` task: the table, the names of the configured balances (position =
position in the C08 model's balance list), the C08 ledger state, and whether the task has died
(`expect("MockExchange has Balance for all configured Instrument assets")`). -/
structure MockTask where
  chan : Nat
  exchange : Nat
  table : Table
  names : List Nat
  st : MockExchange.State
  dead : Bool
  deriving Repr, Inhabited

/-- A spawned `ExecutionManager::run` task (+ its account-stream forwarder). `alive = false` after the
panic on a non-configured key (manager.rs:246-251): the request receiver is dropped with the task. -/
structure ManagerTask where
  exchange : Nat
  index : Nat
  map : ExecMap.EMap
  client : Client
  alive : Bool
  deriving Repr, Inhabited

/-- `Execution` (+ the state of the spawned tasks). -/
structure Exec where
  txmap : ExecMap.TxMap
  managers : List ManagerTask
  mocks : List MockTask
  deriving Repr, Inhabited

/-- The C08 configuration a `MockExchange::new(config, .., instruments)` amounts to: balances by
position in `config.initial_state.balances`, instruments by position in the table, each reduced to
its `underlying` with the asset names replaced by the position of the balance carrying that name
(`List.idxOf`: a name without balance is position `length`, the C08 model's `expect` panic). -/
def toCfg (c : MockConfig) (t : Table) : MockExchange.Cfg :=
  let names := c.balances.map (·.1)
  { latency := c.latency, fee := c.fee
    init := c.balances.map fun b => (b.2, b.2)
    instruments := t.map fun e => { base := names.idxOf e.2.base, quote := names.idxOf e.2.quote } }

def spawnMock (f : MockFuture) : MockTask :=
  { chan := f.chan, exchange := f.config.exchange, table := f.table,
    names := f.config.balances.map (·.1), st := MockExchange.init (toCfg f.config f.table), dead := false }

/-- The initial account snapshot of one manager, indexed (manager.rs:96-123, 171-189):
`(asset index, amount)` per balance, or `none` when a balance name has no index on this exchange
(`indexer.snapshot(snapshot)?` fails and with it `ExecutionBuild::init`). A live stub reports no
balances. -/
def initSnapshot (mocks : List MockFuture) (f : InitFuture) : Option (List (Nat × Rat)) :=
  match f.client with
  | .live => some []
  | .mock chan =>
    match mocks.find? (fun m => m.chan == chan) with
    | none => none
    | some m =>
      ExecMap.mapO (fun (b : Nat × Rat) =>
        match f.map.findAssetIndex b.1 with
        | .ok a => some (a, b.2)
        | .error _ => none) m.config.balances

/-- Outcome of `ExecutionBuilder::build` + `ExecutionBuild::init`. -/
inductive InitResult where
  /-- the `assert_eq!` of `build` (builder.rs:216-219) -/
  | buildPanic
  /-- `try_join_all(execution_init_futures)` returned `Err` -/
  | initErr
  | ok (e : Exec) (snapshots : List (Nat × List (Nat × Rat)))
  deriving Repr, Inhabited

/-- `build()` then `init()`: every mock exchange future is spawned, every manager initialised (its
first account event is the indexed snapshot, tagged with its exchange index), then manager and
forwarder are spawned. -/
def buildInit (ii : Indexed) (b : Builder) : InitResult :=
  match ExecMap.buildTxMap (toColl ii) b.added with
  | none => .buildPanic
  | some txmap =>
    match ExecMap.mapO (fun f => (initSnapshot b.mockFutures f).map fun s => (f.index, s)) b.initFutures with
    | none => .initErr
    | some snaps =>
      .ok { txmap := txmap
            managers := b.initFutures.map fun f =>
              { exchange := f.exchange, index := f.index, map := f.map, client := f.client, alive := true }
            mocks := b.mockFutures.map spawnMock } snaps

/-- `ExecutionHandles` (builder.rs:354-358): lengths of `mock_exchanges`, `managers`,
`account_to_engines`. -/
def Exec.handles (e : Exec) : Nat × Nat × Nat := (e.mocks.length, e.managers.length, e.managers.length)

/-! ## One open request, engine side to engine side -/

/-- The request the engine hands over: exchange index, instrument index, and the `RequestOpen`. -/
structure Open where
  exchange : Nat
  instrument : Nat
  cid : Nat
  side : MockExchange.Side
  kind : MockExchange.Kind
  price : Rat
  qty : Rat
  deriving Repr, Inhabited

/-- State of the order snapshot that comes back (manager.rs:363-397). -/
inductive OrderOutcome where
  /-- `Ok(open)` with nothing remaining: `OrderState::fully_filled()` -/
  | filled
  /-- `Ok(open)` with a remainder: `OrderState::active(open)` -/
  | active
  /-- `OpenFailed(Rejected(OrderRejected))` -/
  | rejected
  /-- `OpenFailed(Rejected(BalanceInsufficient(asset index)))` -/
  | insufficient (asset : Nat)
  /-- `OpenFailed(Connectivity(ExchangeOffline))` -/
  | offline
  deriving DecidableEq, Repr, Inhabited

/-- What arrives on the merged account channel for one request. -/
structure Events where
  /-- the order snapshot: `(exchange index, instrument index, outcome)`; `none` = the response could
  not be indexed and was filtered (manager.rs:311-318) -/
  order : Option (Nat × Nat × OrderOutcome)
  /-- `BalanceSnapshot`: `(asset index, total, free)`; filtered when the asset name has no index -/
  balance : Option (Nat × Rat × Rat)
  /-- `Trade`: `(instrument index, side, price, quantity, fees)` -/
  trade : Option (Nat × MockExchange.Side × Rat × Rat × Rat)
  deriving DecidableEq, Repr, Inhabited

inductive SendResult where
  /-- `execution_txs.find(..)` failed: nothing sent -/
  | noTx
  /-- the manager's receiver is gone: `tx.send(..)` fails -/
  | closed
  /-- the manager panicked on a non-configured key; its client is not called -/
  | managerPanic
  /-- a live (stub) client was called with this instrument name; the stub rejects the order -/
  | live (client : Nat) (name : Nat) (ev : Events)
  /-- the mock client was called; `name` is the instrument name the exchange was asked for -/
  | mock (client : Nat) (name : Nat) (ev : Events)
  deriving DecidableEq, Repr, Inhabited

def setManager (ms : List ManagerTask) (ex : Nat) (f : ManagerTask → ManagerTask) : List ManagerTask :=
  ms.map fun m => if m.exchange = ex then f m else m

def setMock (ms : List MockTask) (chan : Nat) (f : MockTask → MockTask) : List MockTask :=
  ms.map fun m => if m.chan = chan then f m else m

/-- Position of an instrument name in the table = its instrument number in the C08 model
(`length` when absent: the C08 model's `InstrumentInvalid`). -/
def tablePos (t : Table) (name : Nat) : Nat := (t.map (·.1)).idxOf name

/-- The request as the mock exchange's C08 model sees it: the instrument is the table position of
the name. -/
def mockReq (t : Table) (name : Nat) (o : Open) : MockExchange.Req :=
  { instr := tablePos t name, strategy := 0, cid := o.cid, side := o.side,
    price := o.price, qty := o.qty, kind := o.kind }

/-- The `MockExchange` handling one open request for `name` (mock/mod.rs:106-117, 253-378), and the
manager indexing what comes back (`process_open_response`, `IndexedAccountStream`). -/
def mockOpen (map : ExecMap.EMap) (m : MockTask) (name : Nat) (o : Open) : MockTask × Events :=
  let key : Option (Nat × Nat) :=
    match map.findInstrumentIndex name with
    | .ok i => some (map.exchange.key, i)
    | .error _ => none
  if m.dead then
    (m, { order := key.map fun k => (k.1, k.2, .offline), balance := none, trade := none })
  else
    -- the client's clock is constant 0 (the harness injects a fixed clock)
    let res := MockExchange.step m.st 0 (.openOrder (mockReq m.table name o))
    let m' : MockTask := { m with st := res.1 }
    match res.2.1 with
    | .order (.accepted f) =>
      let outcome : OrderOutcome := if o.qty - f.filled = 0 then .filled else .active
      let bal : Option (Nat × Rat × Rat) :=
        match m.names[f.asset]? with
        | none => none
        | some an =>
          match map.findAssetIndex an with
          | .ok a => some (a, f.balance.total, f.balance.free)
          | .error _ => none
      (m', { order := key.map fun k => (k.1, k.2, outcome), balance := bal,
             trade := key.map fun k => (k.2, f.trade.side, f.trade.price, f.trade.qty, f.trade.fees) })
    | .order (.rejected .kindUnsupported) =>
      (m', { order := key.map fun k => (k.1, k.2, .rejected), balance := none, trade := none })
    | .order (.rejected (.instrumentInvalid _)) =>
      -- `InstrumentInvalid(name)`: the name has no index either, the response is filtered
      (m', { order := none, balance := none, trade := none })
    | .order (.rejected (.balanceInsufficient a _ _)) =>
      let ord : Option (Nat × Nat × OrderOutcome) :=
        match key, m.names[a]? with
        | some k, some an =>
          match map.findAssetIndex an with
          | .ok ai => some (k.1, k.2, .insufficient ai)
          | .error _ => none
        | _, _ => none
      (m', { order := ord, balance := none, trade := none })
    | .order .panic =>
      -- the exchange task dies; the client's oneshot is dropped: `ExchangeOffline`
      ({ m' with dead := true },
       { order := key.map fun k => (k.1, k.2, .offline), balance := none, trade := none })
    | _ => (m', { order := none, balance := none, trade := none })

/-- `Engine::send_request` on the built system followed by everything the request triggers, run to
quiescence: transmitter lookup by exchange *index* (C04 `TxMap.find`), the manager's
`order_request` (panic on a non-configured key), the client call. -/
def sendOpen (e : Exec) (o : Open) : Exec × SendResult :=
  match e.txmap.find o.exchange with
  | .error _ => (e, .noTx)
  | .ok l =>
    match e.managers.find? (fun m => m.exchange == l.client) with
    | none => (e, .closed)
    | some mgr =>
      if !mgr.alive then (e, .closed) else
      match ExecMap.managerClientRequest mgr.map
          { key := { exchange := o.exchange, instrument := o.instrument, cid := o.cid }, state := 0 } with
      | none => ({ e with managers := setManager e.managers mgr.exchange fun m => { m with alive := false } }, .managerPanic)
      | some r =>
        match mgr.client with
        | .live =>
          let ord : Option (Nat × Nat × OrderOutcome) :=
            match mgr.map.findInstrumentIndex r.key.instrument with
            | .ok i => some (mgr.map.exchange.key, i, .rejected)
            | .error _ => none
          (e, .live r.key.exchange r.key.instrument { order := ord, balance := none, trade := none })
        | .mock chan =>
          match e.mocks.find? (fun m => m.chan == chan) with
          | none => (e, .closed)
          | some mt =>
            let res := mockOpen mgr.map mt r.key.instrument o
            ({ e with mocks := setMock e.mocks chan fun _ => res.1 }, .mock r.key.exchange r.key.instrument res.2)

/-! ## Abstract specification (from the documented intent)

The mock exchange of `ex` *is* exchange `ex` as far as the system is concerned: it manages exactly
the instruments that were defined on `ex`, knows each under its exchange name, and describes it in
the exchange's own vocabulary — the same instrument with every asset replaced by the name the
exchange uses for that asset. Nothing about indices appears. -/

/-- Replace the asset keys of a quantity unit. -/
def Units.mapA {A B : Type} (f : A → B) : Units A → Units B
  | .asset a => .asset (f a)
  | .contract => .contract
  | .quote => .quote

def Kind.mapA {A B : Type} (f : A → B) : Kind A → Kind B
  | .spot => .spot
  | .perpetual s a => .perpetual s (f a)
  | .future s a e => .future s (f a) e
  | .option s a p x e k => .option s (f a) p x e k

def Spec.mapA {A B : Type} (f : A → B) (s : Spec A) : Spec B :=
  { priceMin := s.priceMin, tick := s.tick, unit := Units.mapA f s.unit, qtyMin := s.qtyMin,
    qtyInc := s.qtyInc, notionalMin := s.notionalMin }

/-- The same instrument with every asset key replaced. -/
def Instrument.mapA {E A B : Type} (f : A → B) (i : Instrument E A) : Instrument E B :=
  { exchange := i.exchange, nameInternal := i.nameInternal, nameExchange := i.nameExchange,
    base := f i.base, quote := f i.quote, quoteAsset := i.quoteAsset, kind := Kind.mapA f i.kind,
    spec := i.spec.map (Spec.mapA f) }

/-- An *indexed* instrument in the exchange's own vocabulary: the exchange key replaced by the
exchange id it carries, every asset index by the exchange name of the asset entry with that key;
`none` when an index refers to no entry. (Generic traversal of `Model/Index`, nothing specific to
spot instruments.) -/
def nativeI (ii : Indexed) (i : IInstrument) : Option MInstrument :=
  (i.mapExchangeKey i.exchange.value).mapAssetKeyWithLookup
    fun k => (ii.findAsset k).map (·.asset.nameExchange)

/-- The last instrument of a list carrying exchange name `n`. -/
def lastNamed : List IInstrument → Nat → Option IInstrument
  | [], _ => none
  | i :: t, n =>
    match lastNamed t n with
    | some j => some j
    | none => if i.nameExchange = n then some i else none

/-- What the mock exchange of `ex` knows under the name `n`, for an arbitrary indexed collection:
the instrument of `ex` named `n` in the exchange's vocabulary; should several instruments of `ex`
share the name, the one with the highest position (the hash map keeps the last insert). -/
def specLookup (ii : Indexed) (ex n : Nat) : Option MInstrument :=
  (lastNamed (ofExchange ii ex) n).bind (nativeI ii)

/-- A definition in the exchange's own vocabulary: assets by their exchange names. -/
def native (d : Def) : MInstrument := Instrument.mapA (·.nameExchange) d

/-- The definitions the mock exchange of `ex` has to manage. -/
def specManaged (defs : List Def) (ex : Nat) : List Def := defs.filter fun d => d.exchange == ex

/-- The mock exchange can be set up iff everything it has to manage is spot. -/
def specSupported (defs : List Def) (ex : Nat) : Prop := ∀ d ∈ specManaged defs ex, d.kind = .spot

instance (defs : List Def) (ex : Nat) : Decidable (specSupported defs ex) := by
  unfold specSupported; infer_instance

/-- What the mock exchange of `ex` answers when asked for instrument name `n`: the native form of
the definition of `ex` carrying that name (unique under `UniqueNames`), nothing otherwise. -/
def specFind (defs : List Def) (ex n : Nat) : Option MInstrument :=
  ((specManaged defs ex).find? fun d => d.nameExchange == n).map native

/-- On exchange `ex` an instrument's exchange name determines the definition. -/
def UniqueNames (defs : List Def) (ex : Nat) : Prop :=
  ∀ a ∈ specManaged defs ex, ∀ b ∈ specManaged defs ex, a.nameExchange = b.nameExchange → a = b

instance (defs : List Def) (ex : Nat) : Decidable (UniqueNames defs ex) := by
  unfold UniqueNames; infer_instance

/-- On exchange `ex` an asset's exchange name determines the asset. -/
def UniqueAssetNames (defs : List Def) (ex : Nat) : Prop :=
  ∀ a ∈ defs.flatMap defAssets, ∀ b ∈ defs.flatMap defAssets,
    a.exchange = ex → b.exchange = ex → a.asset.nameExchange = b.asset.nameExchange → a = b

instance (defs : List Def) (ex : Nat) : Decidable (UniqueAssetNames defs ex) := by
  unfold UniqueAssetNames; infer_instance

/-! ### The engine's view of the mock exchange

The engine talks about instrument *indices* and asset *indices*. Seen from there the mock exchange
of `ex` is the C08 specification exchange whose instrument `i` is the engine's instrument `i`
(its base / quote being the engine's asset indices) and whose balance of asset index `a` is the
amount configured for the exchange name of asset `a`. -/

/-- Amount configured for asset index `a` (0 for an asset of another exchange or without a
configured balance). -/
def specInitial (c : MockConfig) (a : Keyed Nat ExchangeAsset) : Rat :=
  if a.value.exchange = c.exchange then
    match c.balances.find? (fun b => b.1 == a.value.asset.nameExchange) with
    | some b => b.2
    | none => 0
  else 0

/-- The engine-side configuration: instruments and assets by *index*. -/
def specCfg (ii : Indexed) (c : MockConfig) : MockExchange.Cfg :=
  { latency := c.latency, fee := c.fee
    init := ii.assets.map fun a => (specInitial c a, specInitial c a)
    instruments := ii.instruments.map fun x => { base := x.value.base, quote := x.value.quote } }

/-- The request as the engine-side exchange sees it: the instrument is the engine's index. -/
def specReq (o : Open) : MockExchange.Req :=
  { instr := o.instrument, strategy := 0, cid := o.cid, side := o.side, price := o.price,
    qty := o.qty, kind := o.kind }

/-- What the engine must observe for a market order on instrument index `o.instrument` of the mock
exchange, given the orders accepted so far (newest first): `none` = no fill and no balance change;
`some (a, b, tr)` = asset *index* `a` now holds `b`, one fill `tr` on instrument *index* `tr.instr`. -/
def specObserve (ii : Indexed) (c : MockConfig) (acc : List MockExchange.Spec.Ev) (o : Open) :
    Option (Nat × Rat × MockExchange.Trade) :=
  MockExchange.Spec.respond (specCfg ii c) acc ⟨MockExchange.exchangeTime (specCfg ii c) 0, specReq o⟩

/-- The accepted-order history (newest first) after one more request: extended exactly when the
specification prescribes a fill. -/
def specNext (ii : Indexed) (c : MockConfig) (acc : List MockExchange.Spec.Ev) (o : Open) :
    List MockExchange.Spec.Ev :=
  if (specObserve ii c acc o).isSome then
    ⟨MockExchange.exchangeTime (specCfg ii c) 0, specReq o⟩ :: acc
  else acc

/-- The history after a list of requests (oldest first). -/
def specHistory (ii : Indexed) (c : MockConfig) (os : List Open) : List MockExchange.Spec.Ev :=
  os.foldl (specNext ii c) []

/-- The exchange name under which the engine's instrument index is addressed. -/
def nameOf (ii : Indexed) (o : Open) : Nat :=
  match ii.instruments[o.instrument]? with
  | some x => x.value.nameExchange
  | none => 0

/-- A mock exchange task after a list of requests (oldest first), each addressed by the exchange name
of its instrument index. -/
def mockRun (ii : Indexed) (m : ExecMap.EMap) (mt : MockTask) (os : List Open) : MockTask :=
  os.foldl (fun mt o => (mockOpen m mt (nameOf ii o) o).1) mt

/-! ### What the specification says where the driver used to be silent (oracle review C04-M2) -/

/-- (init) The account snapshot the engine must be handed for the mocked exchange of `c` when the
system starts: for every asset INDEX of that exchange, ascending, the amount configured for the
asset's exchange name. Names have disappeared from the statement. -/
def specSnapshot (ii : Indexed) (c : MockConfig) : List (Nat × Rat) :=
  (ii.assets.filter fun a => a.value.exchange == c.exchange).map fun a => (a.key, specInitial c a)

/-- (every order, filled or not) The state of the order snapshot that must come back for an open
request on an instrument of the mocked exchange, given the orders accepted so far: filled / active
when the index-level C08 specification prescribes a fill; otherwise the reason — only market orders
are supported; else the asset INDEX the order would have spent (quote index for a buy, base index
for a sell: `MockExchange.Spec.spends` over the engine-view configuration) holds too little. -/
def specOutcome (ii : Indexed) (c : MockConfig) (acc : List MockExchange.Spec.Ev) (o : Open) :
    OrderOutcome :=
  match specObserve ii c acc o with
  | some (_, _, tr) => if o.qty - tr.qty = 0 then .filled else .active
  | none =>
    if o.kind ≠ .market then .rejected
    else
      match MockExchange.Spec.spends (specCfg ii c).instruments (specReq o) with
      | some a => .insufficient a
      | none => .rejected

/-! ## The manager's request timeout on a mock link (theorem review A, C04M-2)

`add_mock` hands the `ExecutionManager` of every mock link a request timeout of ONE second
(`DUMMY_EXECUTION_REQUEST_TIMEOUT`, builder.rs:97). The `MockExchange` executes an open request the
moment it receives it (ledger debited, mock/mod.rs:106-117) but completes the client's oneshot — and
broadcasts the balance / trade notifications — only `latency_ms` later (`respond_with_latency`,
`send_notifications_with_latency`, mod.rs:176-229). With `latency_ms ≥ 1000` the manager's
`RequestFuture` (execution/request.rs:51-56, `tokio::time::timeout`) expires first: the engine is
handed the manager's OWN order snapshot `OpenFailed(Connectivity(Timeout))` under the request's key
(`process_open_timeout`, manager.rs:400-416) — for an order the exchange HAS executed; the
notifications still arrive afterwards. `mockOpen` / `sendOpen` above describe the exchange and the
indexing of what it answers; this layer adds what the engine is actually handed. -/

/-- `DUMMY_EXECUTION_REQUEST_TIMEOUT` (builder.rs:97) in milliseconds. -/
def mockRequestTimeoutMs : Nat := 1000

/-- State of the order snapshot as the ENGINE sees it: the indexed response of the client, or the
manager's own `OpenFailed(Connectivity(Timeout))`. -/
inductive Seen where
  | response (o : OrderOutcome)
  | timeout
  deriving DecidableEq, Repr, Inhabited

/-- What arrives on the merged account channel for one request, the manager's timeout included. -/
structure SeenEvents where
  order : Option (Nat × Nat × Seen)
  balance : Option (Nat × Rat × Rat)
  trade : Option (Nat × MockExchange.Side × Rat × Rat × Rat)
  deriving DecidableEq, Repr, Inhabited

/-- No timeout: the events as they are. -/
def Events.seen (ev : Events) : SeenEvents :=
  { order := ev.order.map fun k => (k.1, k.2.1, .response k.2.2), balance := ev.balance, trade := ev.trade }

/-- The manager timed out: its own order snapshot under the REQUEST's key (engine indices, nothing to
translate, never filtered); the notifications of the exchange are what they are. -/
def Events.timedOut (ev : Events) (x i : Nat) : SeenEvents :=
  { order := some (x, i, .timeout), balance := ev.balance, trade := ev.trade }

/-- Does the answer of a mock exchange task (in the state AFTER the request) come too late for the
manager? A task that is dead — it was dead already, or the request has just killed it — drops the
client's oneshot at once (`ExchangeOffline`, no waiting). A living task answers `latency` ms after
the request; the manager gives up after `mockRequestTimeoutMs`. At equality the timeout wins: both
timers expire in the same tick and the manager's `Timeout` future is polled before the exchange's
responder task has run (observed on the paused tokio clock; in real time the manager's timer is the
older one). -/
def answersLate (after : MockTask) : Bool :=
  !after.dead && decide (mockRequestTimeoutMs ≤ after.st.latency)

/-- The mock exchange task behind exchange index `x`, if that link is a mock link. -/
def linkMock (e : Exec) (x : Nat) : Option MockTask :=
  match e.txmap.find x with
  | .error _ => none
  | .ok l =>
    match e.managers.find? (fun m => m.exchange == l.client) with
    | none => none
    | some mgr =>
      match mgr.client with
      | .live => none
      | .mock chan => e.mocks.find? (fun m => m.chan == chan)

inductive SeenResult where
  | noTx
  | closed
  | managerPanic
  | live (client : Nat) (name : Nat) (ev : SeenEvents)
  | mock (client : Nat) (name : Nat) (ev : SeenEvents)
  deriving DecidableEq, Repr, Inhabited

/-- `Engine::send_request` on the built system, run to quiescence, as the ENGINE sees it: `sendOpen`,
with the order snapshot of a mock link replaced by the manager's timeout when the exchange answers
too late. The system state is `sendOpen`'s: the timeout undoes nothing. -/
def sendOpenSeen (e : Exec) (o : Open) : Exec × SeenResult :=
  let r := sendOpen e o
  match r.2 with
  | .noTx => (r.1, .noTx)
  | .closed => (r.1, .closed)
  | .managerPanic => (r.1, .managerPanic)
  | .live c n ev => (r.1, .live c n ev.seen)
  | .mock c n ev =>
    let late := match linkMock r.1 o.exchange with
      | some mt => answersLate mt
      | none => false
    (r.1, .mock c n (if late then ev.timedOut o.exchange o.instrument else ev.seen))

/-! ## Composition: which requests of a history a mock exchange gets to see (theorem review A, C04M-1) -/

/-- Instrument index `o.instrument` exists and belongs to exchange `ex` (executable form of `Own`). -/
def ownB (ii : Indexed) (ex : Nat) (o : Open) : Bool :=
  match ii.instruments[o.instrument]? with
  | some x => x.value.exchange.value == ex
  | none => false

/-- The requests of a history `os` that the mock exchange behind exchange index `xi` (exchange id
`ex`) gets to see, in order: those addressed to `xi`, up to the first one whose instrument is not an
instrument of `ex` — that one makes the manager panic (manager.rs:261-266), its receiver is dropped
and nothing addressed to `xi` is delivered any more. -/
def routedTo (ii : Indexed) (ex xi : Nat) (os : List Open) : List Open :=
  (os.filter fun o => o.exchange == xi).takeWhile (ownB ii ex)

/-- Is the manager behind exchange index `xi` still running after the history `os`? -/
def managerAlive (ii : Indexed) (ex xi : Nat) (os : List Open) : Bool :=
  (os.filter fun o => o.exchange == xi).all (ownB ii ex)

/-! ## Specification of the timeout (engine view) -/

/-- What the engine must be handed as order state for a request that reaches the running mock
exchange of `c`: the manager waits `mockRequestTimeoutMs`; an exchange configured with at least that
latency is never heard in time, whatever it did with the order. -/
def specSeen (c : MockConfig) (oc : OrderOutcome) : Seen :=
  if mockRequestTimeoutMs ≤ c.latency then .timeout else .response oc

/-- The system after a history of open requests (oldest first). -/
def runAll (e : Exec) (os : List Open) : Exec := os.foldl (fun e o => (sendOpen e o).1) e

/-- ... as the engine sees it; the same states (`Lemmas.MockInstruments.runAllSeen_eq`). -/
def runAllSeen (e : Exec) (os : List Open) : Exec := os.foldl (fun e o => (sendOpenSeen e o).1) e

end BarterModel.MockInstruments
