import BarterModel.Model.Audit
/-
Model of the `System` handle and of the `SystemBuilder` wiring (sub-check C20S, registered under C20):
  `barter/src/system/builder.rs:36-61`   `EngineFeedMode`, `AuditMode` (+ their defaults)
  `barter/src/system/builder.rs:97-260`  `SystemBuilder::{new, engine_feed_mode, audit_mode, trading_state, build}`
  `barter/src/system/builder.rs:336-434` `SystemBuild::init_internal` (feed channel, the two forwarders,
                                         the four engine runners, the audit snapshot + channel)
  `barter/src/system/mod.rs:57-191`      `System::{shutdown, abort, send_cancel_requests,
                                         send_open_requests, close_positions, cancel_orders,
                                         trading_state, take_audit, send}`
  `barter/src/system/mod.rs:193-229`     `SystemAuxillaryHandles::{shutdown, abort}`
  `barter/src/shutdown.rs`               `Shutdown`, `SyncShutdown`, `AsyncShutdown`
  `barter/src/engine/run.rs:25-230`      `sync_run`, `sync_run_with_audit`, `async_run`, `async_run_with_audit`
  `barter/src/engine/mod.rs:81-90,188-200` `process_with_audit`, `SyncShutdown for Engine`
  `barter/src/engine/audit/mod.rs:39-66` `Auditor::{audit, audit_snapshot}` (`sequence.fetch_add`)
  `barter-integration/src/channel.rs:99-111,156-174` `Iterator for UnboundedRx`, `ChannelTxDroppable::send`
  `barter-data/src/streams/reconnect/stream.rs:131-138` `forward_to`

A running system is a small concurrent program: the market forwarder, the account forwarder, the
engine runner (a tokio task or a blocking thread) and the user holding the handle, all talking
through ONE unbounded FIFO channel (the engine feed). Exactly as in `Model/Backtest.lean` the engine
and the execution side are ABSTRACT records of functions and every scheduling decision (tokio's or
the operating system's) is an explicit `Act` chosen by an arbitrary scheduler; theorems quantify over
every action list. What this model cannot exhibit: WHEN the blocking thread of the `Iterator` feed
mode gets to run relative to the runtime thread (its busy-wait on `try_recv`), OS timing, wall-clock
time; in the model the two feed modes differ in nothing but the name of the runner, which is the
content of the theorems `Props.C20S.feed_modes_agree*`.
-/
namespace BarterModel.SysHandle

/-! ## The engine feed -/

/-- `EngineEvent` (`barter/src/lib.rs:118-131`): `μ` market stream events, `α` account stream
events, `κ` commands. -/
inductive Ev (μ α κ : Type) where
  | market (m : μ)
  | account (a : α)
  | command (c : κ)
  | trading (on : Bool)
  | shutdown
  deriving DecidableEq, Repr

variable {σ χ μ α κ ρ : Type}

def Ev.market? : Ev μ α κ → Option μ
  | .market m => some m
  | _ => none

def Ev.account? : Ev μ α κ → Option α
  | .account a => some a
  | _ => none

/-- Events that only the `System` handle puts on the feed (`System::send`, system/mod.rs:183-190). -/
def Ev.isHandle : Ev μ α κ → Bool
  | .command _ => true
  | .trading _ => true
  | .shutdown => true
  | _ => false

/-- `Terminal for EngineEvent` (lib.rs:131-137). -/
def Ev.isShutdown : Ev μ α κ → Bool
  | .shutdown => true
  | _ => false

/-- The market events of a feed / history, in order. -/
def marketOf (l : List (Ev μ α κ)) : List μ := l.filterMap Ev.market?
/-- The account events of a feed / history, in order. -/
def accountOf (l : List (Ev μ α κ)) : List α := l.filterMap Ev.account?
/-- The events of a feed / history that came through the handle, in order. -/
def handleOf (l : List (Ev μ α κ)) : List (Ev μ α κ) := l.filter Ev.isHandle

/-- `Engine::process` (engine/mod.rs:143-186) as a function of state and event returning the new
state and the execution requests sent during the tick; `fatal` = the tick's audit carries an
unrecoverable error (`ProcessAudit::is_terminal`, audit/mod.rs:170-177). Strategy, risk manager,
clock and every state component are inside `σ` / `process`. -/
structure Engine (σ μ α κ ρ : Type) where
  process : σ → Ev μ α κ → σ × List ρ
  fatal : σ → Ev μ α κ → Bool

/-- The execution side (execution manager + mock exchange, spawned by
`ExecutionBuildFutures::init_internal`, execution/builder.rs:322-350): consumes the engine's
requests in FIFO order and produces the account events they cause. -/
structure Exchange (χ ρ α : Type) where
  respond : χ → ρ → χ × List α

def respondAll (X : Exchange χ ρ α) (x : χ) : List ρ → χ × List α
  | [] => (x, [])
  | r :: rs =>
    let (x1, a1) := X.respond x r
    let (x2, a2) := respondAll X x1 rs
    (x2, a1 ++ a2)

/-- The engine state reached by feeding a history to an engine, alone and synchronously. -/
def engFold (E : Engine σ μ α κ ρ) (e0 : σ) (h : List (Ev μ α κ)) : σ :=
  h.foldl (fun e ev => (E.process e ev).1) e0

/-! ## `system/builder.rs`: modes, builder, build -/

/-- `EngineFeedMode` (builder.rs:36-50). -/
inductive EngineFeedMode where
  /-- "Process events synchronously with an `Iterator` in a blocking thread (default)." -/
  | iterator
  /-- "Process events asynchronously with a `Stream` and tokio tasks." -/
  | stream
  deriving DecidableEq, Repr

/-- `#[default] Iterator` (builder.rs:43-44). -/
instance : Inhabited EngineFeedMode := ⟨.iterator⟩

/-- `AuditMode` (builder.rs:52-61). -/
inductive AuditMode where
  | enabled
  | disabled
  deriving DecidableEq, Repr

/-- `#[default] Disabled` (builder.rs:58-60). -/
instance : Inhabited AuditMode := ⟨.disabled⟩

/-- `TradingState::default()` = `Disabled` (engine/state/trading/mod.rs:15-19); `true` = enabled. -/
def tradingDefault : Bool := false

/-- The optional settings of `SystemBuilder` (builder.rs:99-105); the `SystemArgs` (instruments,
executions, clock, strategy, risk, market stream, data) are what `mkEngine` / the exchange / the
`push` actions stand for. -/
structure SystemBuilder where
  engineFeedMode : Option EngineFeedMode
  auditMode : Option AuditMode
  tradingState : Option Bool
  deriving DecidableEq, Repr

/-- `SystemBuilder::new` (builder.rs:113-123): every optional setting unset. -/
def SystemBuilder.new : SystemBuilder := ⟨none, none, none⟩
/-- `SystemBuilder::engine_feed_mode` (builder.rs:128-133). -/
def SystemBuilder.engine_feed_mode (b : SystemBuilder) (v : EngineFeedMode) : SystemBuilder :=
  { b with engineFeedMode := some v }
/-- `SystemBuilder::audit_mode` (builder.rs:138-143). -/
def SystemBuilder.audit_mode (b : SystemBuilder) (v : AuditMode) : SystemBuilder :=
  { b with auditMode := some v }
/-- `SystemBuilder::trading_state` (builder.rs:148-153). -/
def SystemBuilder.trading_state (b : SystemBuilder) (v : Bool) : SystemBuilder :=
  { b with tradingState := some v }

/-- `SystemBuild` (builder.rs:266-286). -/
structure SystemBuild (σ : Type) where
  engine : σ
  engineFeedMode : EngineFeedMode
  auditMode : AuditMode

/-- `SystemBuilder::build` (builder.rs:180-259): `unwrap_or_default` of the three settings; the
engine state is built with the chosen initial trading state (`mkEngine`). -/
def SystemBuilder.build (b : SystemBuilder) (mkEngine : Bool → σ) : SystemBuild σ :=
  { engine := mkEngine (b.tradingState.getD tradingDefault),
    engineFeedMode := b.engineFeedMode.getD default,
    auditMode := b.auditMode.getD default }

/-! ## `engine/run.rs`: the four runners -/

/-- `AuditTick<EngineAudit>` as far as the runners look at it: its sequence number, the event of a
`Process` audit and whether it carries unrecoverable errors; or `FeedEnded`. -/
inductive Tick (ε : Type) where
  | process (seq : Nat) (ev : ε) (fatal : Bool)
  | feedEnded (seq : Nat)
  deriving DecidableEq, Repr

def Tick.seq {ε : Type} : Tick ε → Nat
  | .process s _ _ => s
  | .feedEnded s => s

def Tick.event? {ε : Type} : Tick ε → Option ε
  | .process _ e _ => some e
  | .feedEnded _ => none

/-- `Terminal for EngineAudit` (audit/mod.rs:97-107, 170-177). -/
def Tick.terminal : Tick (Ev μ α κ) → Bool
  | .process _ ev fatal => ev.isShutdown || fatal
  | .feedEnded _ => true

/-- The engine as the runners hold it: state + `EngineMeta::sequence`. -/
structure Eng (σ : Type) where
  state : σ
  seq : Nat

/-- `process_with_audit` (engine/mod.rs:81-90) + `Auditor::audit` (audit/mod.rs:54-65): process,
then stamp the audit with `sequence.fetch_add()`. Third component: the execution requests sent. -/
def processWithAudit (E : Engine σ μ α κ ρ) (e : Eng σ) (ev : Ev μ α κ) :
    Eng σ × Tick (Ev μ α κ) × List ρ :=
  let r := E.process e.state ev
  (⟨r.1, e.seq + 1⟩, .process e.seq ev (E.fatal e.state ev), r.2)

/-- `engine.audit(FeedEnded)` (run.rs:41-43). -/
def auditFeedEnded (e : Eng σ) : Eng σ × Tick (Ev μ α κ) := (⟨e.state, e.seq + 1⟩, .feedEnded e.seq)

/-- What a runner leaves behind: the engine, the returned shutdown audit, the audit ticks it sent
(empty for the runners without audit), the requests the engine sent, the feed it did not consume. -/
structure RunOut (σ μ α κ ρ : Type) where
  engine : Eng σ
  shutdownAudit : Tick (Ev μ α κ)
  sent : List (Tick (Ev μ α κ))
  requests : List ρ
  rest : List (Ev μ α κ)

/-- `sync_run` (run.rs:25-63). `feed` is everything `feed.next()` will ever yield, in order; the
list running out is `None`, i.e. every sender dropped (`Iterator for UnboundedRx` spins on
`try_recv` until then, channel.rs:99-111 — the spinning itself is not modelled). -/
def syncRun (E : Engine σ μ α κ ρ) (e : Eng σ) : List (Ev μ α κ) → RunOut σ μ α κ ρ
  | [] =>
    let r := auditFeedEnded (μ := μ) (α := α) (κ := κ) e
    ⟨r.1, r.2, [], [], []⟩
  | ev :: rest =>
    let r := processWithAudit E e ev
    if r.2.1.terminal then ⟨r.1, r.2.1, [], r.2.2, rest⟩
    else
      let o := syncRun E r.1 rest
      { o with requests := r.2.2 ++ o.requests }

/-- `sync_run_with_audit` (run.rs:75-120): every non-terminal audit is sent inside the loop, the
shutdown audit after it. -/
def syncRunWithAudit (E : Engine σ μ α κ ρ) (e : Eng σ) : List (Ev μ α κ) → RunOut σ μ α κ ρ
  | [] =>
    let r := auditFeedEnded (μ := μ) (α := α) (κ := κ) e
    ⟨r.1, r.2, [r.2], [], []⟩
  | ev :: rest =>
    let r := processWithAudit E e ev
    if r.2.1.terminal then ⟨r.1, r.2.1, [r.2.1], r.2.2, rest⟩
    else
      let o := syncRunWithAudit E r.1 rest
      { o with sent := r.2.1 :: o.sent, requests := r.2.2 ++ o.requests }

/-- `async_run` (run.rs:131-169): the same loop over `feed.next().await`. -/
def asyncRun (E : Engine σ μ α κ ρ) (e : Eng σ) : List (Ev μ α κ) → RunOut σ μ α κ ρ
  | [] =>
    let r := auditFeedEnded (μ := μ) (α := α) (κ := κ) e
    ⟨r.1, r.2, [], [], []⟩
  | ev :: rest =>
    let r := processWithAudit E e ev
    if r.2.1.terminal then ⟨r.1, r.2.1, [], r.2.2, rest⟩
    else
      let o := asyncRun E r.1 rest
      { o with requests := r.2.2 ++ o.requests }

/-- `async_run_with_audit` (run.rs:181-230). -/
def asyncRunWithAudit (E : Engine σ μ α κ ρ) (e : Eng σ) : List (Ev μ α κ) → RunOut σ μ α κ ρ
  | [] =>
    let r := auditFeedEnded (μ := μ) (α := α) (κ := κ) e
    ⟨r.1, r.2, [r.2], [], []⟩
  | ev :: rest =>
    let r := processWithAudit E e ev
    if r.2.1.terminal then ⟨r.1, r.2.1, [r.2.1], r.2.2, rest⟩
    else
      let o := asyncRunWithAudit E r.1 rest
      { o with sent := r.2.1 :: o.sent, requests := r.2.2 ++ o.requests }

/-- The runner `init_internal` picks (builder.rs:368-422). -/
def runner (E : Engine σ μ α κ ρ) (feedMode : EngineFeedMode) (audit : AuditMode) :
    Eng σ → List (Ev μ α κ) → RunOut σ μ α κ ρ :=
  match feedMode, audit with
  | .iterator, .enabled => syncRunWithAudit E
  | .iterator, .disabled => syncRun E
  | .stream, .enabled => asyncRunWithAudit E
  | .stream, .disabled => asyncRun E

/-- The audit ticks `process_with_audit` yields along a history (whether or not they are sent). -/
def ticksOf (E : Engine σ μ α κ ρ) (e : Eng σ) : List (Ev μ α κ) → List (Tick (Ev μ α κ))
  | [] => []
  | ev :: rest => (processWithAudit E e ev).2.1 :: ticksOf E (processWithAudit E e ev).1 rest

/-! ## The running system as a scheduler-driven transition system -/

inductive Stop where
  /-- the engine processed `Shutdown` -/
  | shutdown
  /-- the engine stopped on a tick with unrecoverable errors -/
  | fatal
  deriving DecidableEq, Repr

/-- How the handle was given up. -/
inductive Closed where
  /-- `System::shutdown` (system/mod.rs:62-74): forwarders aborted, execution tasks awaited -/
  | graceful
  /-- `System::abort` (system/mod.rs:77-88): every auxiliary task aborted -/
  | aborted
  deriving DecidableEq, Repr

/-- `System` + its tasks. Fields marked ghost exist only to state theorems. -/
structure Sys (σ χ μ α κ ρ : Type) where
  /-- the engine (owned by the runner) -/
  eng : Eng σ
  /-- execution side state -/
  exch : χ
  feedMode : EngineFeedMode
  auditMode : AuditMode
  /-- items the market stream has yielded to the market forwarder, not yet sent to the feed -/
  market : List μ
  /-- account events produced by the execution side, not yet sent to the feed -/
  pending : List α
  /-- the engine feed (`mpsc_unbounded`, FIFO; builder.rs:356) -/
  feed : List (Ev μ α κ)
  /-- the runner has returned (its `feed_rx` is dropped), and why -/
  stopped : Option Stop
  /-- the audit returned by the runner -/
  shutdownAudit : Option (Tick (Ev μ α κ))
  /-- `SnapUpdates.snapshot` built by `init_internal` when the audit is enabled: the engine state and
  the sequence number the snapshot consumed -/
  snapshot : Option (σ × Nat)
  /-- everything the runner sent on the audit channel, in order -/
  ticks : List (Tick (Ev μ α κ))
  /-- `System.audit` is still `Some` -/
  auditHeld : Bool
  /-- the handle has been consumed by `shutdown` / `abort` -/
  closed : Option Closed
  /-- `shutdown` / `abort` panicked in `self.send(Shutdown)`: no engine is returned -/
  closePanicked : Bool
  /-- handle calls that panicked (`expect("Engine cannot drop Feed receiver")`, system/mod.rs:187-189) -/
  panics : Nat
  /-- ghost: every event the engine processed, in order -/
  processed : List (Ev μ α κ)
  /-- ghost: every event the handle put on the feed, in order -/
  sent : List (Ev μ α κ)
  /-- ghost: every item the market stream yielded, in order -/
  pushed : List μ
  /-- ghost: every account event the execution side produced (initial ones first), in order -/
  produced : List α
  /-- ghost: every execution request the engine sent, in order -/
  requests : List ρ

/-- Sequence number of the first processed event: `audit_snapshot()` consumes `Sequence(0)` when the
audit is enabled (builder.rs:374-377 / 401-404, audit/mod.rs:50-64). -/
def seq0 (a : AuditMode) : Nat := if a = .enabled then 1 else 0

/-- `SystemBuild::init_internal` (builder.rs:336-434). `acc0`: what the account streams of the
execution managers yield on their own (the initial account snapshots, manager.rs:118-124). -/
def SystemBuild.init (b : SystemBuild σ) (exch0 : χ) (acc0 : List α) : Sys σ χ μ α κ ρ :=
  { eng := ⟨b.engine, seq0 b.auditMode⟩, exch := exch0, feedMode := b.engineFeedMode,
    auditMode := b.auditMode, market := [], pending := acc0, feed := [], stopped := none,
    shutdownAudit := none,
    snapshot := if b.auditMode = .enabled then some (b.engine, 0) else none,
    ticks := [], auditHeld := decide (b.auditMode = .enabled), closed := none,
    closePanicked := false, panics := 0,
    processed := [], sent := [], pushed := [], produced := acc0, requests := [] }

/-- The calls of the handle that put an event on the feed while the handle is kept
(`send_cancel_requests`, `send_open_requests`, `close_positions`, `cancel_orders` are the four
constructors of `Command`; `trading_state`). -/
inductive Call (κ : Type) where
  | command (c : κ)
  | tradingState (on : Bool)
  deriving DecidableEq, Repr

def Call.event : Call κ → Ev μ α κ
  | .command c => .command c
  | .tradingState on => .trading on

/-- Scheduling decisions and user actions. -/
inductive Act (μ κ : Type) where
  /-- the market stream yields an item to the market forwarder -/
  | push (m : μ)
  /-- the market forwarder sends its next item to the feed (`forward_to`, builder.rs:359-361) -/
  | fwdMarket
  /-- the account forwarder sends the `k`-th pending account event (builder.rs:364-365) -/
  | fwdAccount (k : Nat)
  /-- the runner takes the next feed event (one iteration of the loop of run.rs) -/
  | engine
  /-- one of the five sending methods of the handle -/
  | call (c : Call κ)
  /-- `System::shutdown` / `System::abort` up to and including `self.send(Shutdown)` -/
  | close (how : Closed)
  /-- `System::take_audit` -/
  | takeAudit
  deriving DecidableEq, Repr

/-- `System::send` (system/mod.rs:183-190): a closed feed makes the `expect` panic. -/
def send (s : Sys σ χ μ α κ ρ) (e : Ev μ α κ) : Sys σ χ μ α κ ρ :=
  if s.stopped.isSome then { s with panics := s.panics + 1 }
  else { s with feed := s.feed ++ [e], sent := s.sent ++ [e] }

def stepPush (s : Sys σ χ μ α κ ρ) (m : μ) : Sys σ χ μ α κ ρ :=
  { s with market := s.market ++ [m], pushed := s.pushed ++ [m] }

/-- The market forwarder sends its next item; `map_while(|e| tx.send(e).ok())` (stream.rs:137): a
closed feed ends the forwarder, what it still held is dropped. -/
def stepFwdMarket (s : Sys σ χ μ α κ ρ) : Sys σ χ μ α κ ρ :=
  match s.market with
  | [] => s
  | m :: ms =>
    if s.stopped.isSome then { s with market := [] }
    else { s with market := ms, feed := s.feed ++ [.market m] }

/-- The account path delivers the `k`-th pending account event into the feed. -/
def stepFwdAccount (s : Sys σ χ μ α κ ρ) (k : Nat) : Sys σ χ μ α κ ρ :=
  match s.pending[k]? with
  | none => s
  | some a =>
    if s.stopped.isSome then { s with pending := s.pending.eraseIdx k }
    else { s with pending := s.pending.eraseIdx k, feed := s.feed ++ [.account a] }

/-- One iteration of the runner's loop (the four runners share it, see `Props.C20S.feed_modes_agree`)
plus the execution side's reaction to the requests of the tick. On an empty feed the runner waits
(`feed.next().await`) or spins (`try_recv`): the handle and the two forwarders hold senders, so
`FeedEnded` cannot occur while the `System` value lives. -/
def stepEngine (E : Engine σ μ α κ ρ) (X : Exchange χ ρ α) (s : Sys σ χ μ α κ ρ) : Sys σ χ μ α κ ρ :=
  if s.stopped.isSome then s else
  match s.feed with
  | [] => s
  | e :: rest =>
    let r := processWithAudit E s.eng e
    let x := respondAll X s.exch r.2.2
    { s with
      eng := r.1, exch := x.1, feed := rest, pending := s.pending ++ x.2,
      produced := s.produced ++ x.2, requests := s.requests ++ r.2.2,
      processed := s.processed ++ [e],
      ticks := if s.auditMode = .enabled then s.ticks ++ [r.2.1] else s.ticks,
      stopped := if e.isShutdown then some .shutdown
                 else if E.fatal s.eng.state e then some .fatal else none,
      shutdownAudit := if r.2.1.terminal then some r.2.1 else none }

/-- A call through the handle; impossible once the handle has been consumed. -/
def stepCall (s : Sys σ χ μ α κ ρ) (c : Call κ) : Sys σ χ μ α κ ρ :=
  if s.closed.isSome then s else send s c.event

/-- `System::shutdown` / `System::abort` (system/mod.rs:62-88): BOTH start with `self.send(Shutdown)`
and then await the engine task; they differ only in what happens to the auxiliary tasks afterwards. -/
def stepClose (s : Sys σ χ μ α κ ρ) (how : Closed) : Sys σ χ μ α κ ρ :=
  if s.closed.isSome then s
  else { send s .shutdown with closed := some how, closePanicked := s.stopped.isSome }

/-- `System::take_audit` (system/mod.rs:175-180). -/
def stepTakeAudit (s : Sys σ χ μ α κ ρ) : Sys σ χ μ α κ ρ :=
  if s.closed.isSome then s else { s with auditHeld := false }

/-- What `take_audit` returns in state `s`: the snapshot (with the receiver of the ticks) the first
time, provided the system was built with the audit enabled. -/
def takeAuditResult (s : Sys σ χ μ α κ ρ) : Option (σ × Nat) :=
  if s.auditHeld then s.snapshot else none

def step (E : Engine σ μ α κ ρ) (X : Exchange χ ρ α) (s : Sys σ χ μ α κ ρ) :
    Act μ κ → Sys σ χ μ α κ ρ
  | .push m => stepPush s m
  | .fwdMarket => stepFwdMarket s
  | .fwdAccount k => stepFwdAccount s k
  | .engine => stepEngine E X s
  | .call c => stepCall s c
  | .close how => stepClose s how
  | .takeAudit => stepTakeAudit s

/-- Run a schedule. -/
def run (E : Engine σ μ α κ ρ) (X : Exchange χ ρ α) (s : Sys σ χ μ α κ ρ)
    (acts : List (Act μ κ)) : Sys σ χ μ α κ ρ :=
  acts.foldl (step E X) s

/-- What `shutdown().await` / `abort().await` evaluate to once the engine task has finished:
`Ok((engine, shutdown_audit))`; nothing while the engine runs, nothing if the call panicked. -/
def result (s : Sys σ χ μ α κ ρ) : Option (Eng σ × Tick (Ev μ α κ)) :=
  match s.closed, s.closePanicked, s.stopped, s.shutdownAudit with
  | some _, false, some _, some t => some (s.eng, t)
  | _, _, _, _ => none

/-- Awaiting the public `engine` join handle directly (possible at any time). -/
def joinResult (s : Sys σ χ μ α κ ρ) : Option (Eng σ × Tick (Ev μ α κ)) :=
  match s.stopped, s.shutdownAudit with
  | some _, some t => some (s.eng, t)
  | _, _ => none

/-- What the CALLER of `System::shutdown()` / `System::abort()` gets (system/mod.rs:62-88). Both first
await the engine task (`result`); then `shutdown()` awaits the execution tasks
(`self.handles.shutdown().await?`, system/mod.rs:70, `SystemAuxillaryHandles::shutdown` :211-219) and
hands a `JoinError` of one of them to the caller INSTEAD of the engine, whereas `abort()` only aborts
them (`self.handles.abort()`, :221-229), which cannot fail. -/
inductive Outcome (σ ε : Type) where
  /-- `Ok((engine, shutdown_audit))` -/
  | ok (e : Eng σ) (t : Tick ε)
  /-- `Err(JoinError)` of an execution task that has panicked -/
  | joinError

/-- The value of `shutdown().await` / `abort().await`; `died x`: an execution task (execution
manager / mock exchange, spawned by `ExecutionBuildFutures::init`) of the execution side in state `x`
has panicked. `none`: nothing yet (the engine still runs) or the call itself panicked. -/
def outcome (died : χ → Bool) (s : Sys σ χ μ α κ ρ) : Option (Outcome σ (Ev μ α κ)) :=
  match result s with
  | none => none
  | some (e, t) =>
    if s.closed = some .graceful && died s.exch then some .joinError else some (.ok e t)

def Outcome.isJoinError {σ ε : Type} : Outcome σ ε → Bool
  | .joinError => true
  | .ok _ _ => false

/-- Nothing is in flight anywhere and the engine is waiting. -/
def Quiescent (s : Sys σ χ μ α κ ρ) : Prop :=
  s.stopped = none ∧ s.feed = [] ∧ s.market = [] ∧ s.pending = []

/-! ## Schedulers used by the driver (they only PRODUCE action lists; states come from `run`) -/

def schedActs (E : Engine σ μ α κ ρ) (X : Exchange χ ρ α)
    (pick : Sys σ χ μ α κ ρ → Option (Act μ κ)) : Nat → Sys σ χ μ α κ ρ → List (Act μ κ)
  | 0, _ => []
  | fuel + 1, s =>
    match pick s with
    | none => []
    | some a => a :: schedActs E X pick fuel (step E X s a)

/-- "await until nothing moves any more": the engine drains the feed, then the forwarders deliver
what has arrived (market first, then account events in the order they were produced), and so on. -/
def pickSettle (s : Sys σ χ μ α κ ρ) : Option (Act μ κ) :=
  if s.stopped.isSome then none
  else if !s.feed.isEmpty then some .engine
  else if !s.market.isEmpty then some .fwdMarket
  else if !s.pending.isEmpty then some (.fwdAccount 0)
  else none

/-- `self.engine.await` inside `shutdown` / `abort`: the runner works through the feed. -/
def pickDrain (s : Sys σ χ μ α κ ρ) : Option (Act μ κ) :=
  if s.stopped.isSome then none
  else if !s.feed.isEmpty then some .engine
  else none

/-! ## Abstract specification (from the documentation of `System`, `SystemBuilder`, `EngineFeedMode`,
`AuditMode`, `TradingState`, the example `engine_sync_with_live_market_data_and_mock_execution_and_audit`
— not from the code)

A user holding the handle sends commands and trading-state updates, then calls `shutdown()`. What
the documentation promises, and what the example relies on ("Before shutting down, CancelOrders and
then ClosePositions"), is: the engine it gets back has processed a history that
* contains every event sent through the handle, each once, in the order of the calls, and ends
  with the `Shutdown` (`SentInOrder`);
* interleaves them with market events in the order the market stream yielded them and with account
  events the execution side really produced (`FromTheStreams`);
* and is nothing but that history applied to the engine the builder built (`IsFoldOf`).
Which interleaving it is, is the scheduler's business. -/

/-- every handle event, once, in call order -/
def SentInOrder (sent history : List (Ev μ α κ)) : Prop := handleOf history = sent

/-- market events: a gap-free prefix of what the stream yielded, in order; account events: events
the execution side produced, none twice (their order is the scheduler's) -/
def FromTheStreams (pushed : List μ) (produced : List α) (history : List (Ev μ α κ)) : Prop :=
  marketOf history <+: pushed ∧ ∃ rest, (accountOf history ++ rest).Perm produced

/-- the returned engine is the built engine fed the history, and its sequence counts it -/
def IsFoldOf (E : Engine σ μ α κ ρ) (e0 : σ) (a : AuditMode) (history : List (Ev μ α κ)) (e : Eng σ) : Prop :=
  e.state = engFold E e0 history ∧ e.seq = seq0 a + history.length

/-- The trading state after a history of handle events (documentation of `TradingState` and of
`System::trading_state`): the last update wins, commands do not touch it. -/
def specTrading (init : Bool) : List (Ev μ α κ) → Bool
  | [] => init
  | .trading on :: rest => specTrading on rest
  | _ :: rest => specTrading init rest

/-- Number of `Enabled → Disabled` transitions (`on_trading_disabled` is invoked exactly then;
documentation of `Engine::update_from_trading_state_update`). -/
def specDisabledCalls (init : Bool) : List (Ev μ α κ) → Nat
  | [] => 0
  | .trading on :: rest => (if init && !on then 1 else 0) + specDisabledCalls on rest
  | _ :: rest => specDisabledCalls init rest

/-- The audit a user can take (documentation of `AuditMode`, `System::take_audit`): present exactly
when built with `AuditMode::Enabled`, and only the first time. -/
def specTakeAudit (a : AuditMode) (alreadyTaken : Bool) : Bool := decide (a = .enabled) && !alreadyTaken

/-- Audit ticks are gap-free: consecutive sequence numbers following the snapshot's (C10). -/
def consecutiveFrom {ε : Type} (n : Nat) : List (Tick ε) → Bool
  | [] => true
  | t :: ts => t.seq == n && consecutiveFrom (n + 1) ts

/-- No tick but the last is terminal, and the last one is. -/
def terminalLast : List (Tick (Ev μ α κ)) → Bool
  | [] => false
  | [t] => t.terminal
  | t :: ts => !t.terminal && terminalLast ts

/-! ## The concrete engine / exchange of the correspondence

Engine = the engine model of `Model/Engine.lean` (orders, positions, prices, trading state, execution
links, delivered-request log) wrapped with the harness's strategy; exchange = `MockExchange` for
market orders with zero fees (`barter-execution/src/exchange/mock/mod.rs:253-345`) behind an
`ExecutionManager` (`manager.rs:221-330`), cancel requests being answered at once with an error
(`mock/mod.rs:96-105` drops the responder, `client/mock/mod.rs:180-188`). -/

open BarterModel.Engine BarterModel.Orders

/-- One market stream event: a trade `id` on instrument `inst` at `price` (`react`: the order the
harness's strategy answers it with), or — `marker` — `MarketStreamEvent::Reconnecting`. -/
structure MktEv where
  id : Nat
  inst : Nat
  price : Rat
  react : Option (Side × Rat)
  marker : Bool
  deriving DecidableEq, Repr

inductive AccEv where
  /-- the initial `AccountSnapshot` (balances only, no orders): quote balance, base balances -/
  | snapshot (quote : Rat) (base : List Rat)
  /-- `OrderSnapshot` answering an open request: fully filled or open-failed -/
  | order (i cid : Nat) (q p : Rat) (filled : Bool) (ex : Nat)
  /-- `OrderCancelled` with an error -/
  | cancelErr (i cid : Nat)
  /-- `BalanceSnapshot` (asset `k` = quote, `j < k` = base of instrument `j`) -/
  | balance (asset : Nat) (total : Rat)
  | trade (i : Nat) (side : Side) (q p : Rat)
  deriving DecidableEq, Repr

abbrev CEv := Ev MktEv AccEv Command

/-- Engine state + what the harness's strategy keeps. -/
structure CEng where
  eng : Engine.Eng
  /-- market trades recorded so far (the recording clock sees every event first) -/
  trades : List MktEv
  /-- how many of them the strategy has answered -/
  answered : Nat
  /-- `on_disconnect` invocations -/
  disconnects : Nat

/-- client order id of the strategy's answer to trade `id` -/
def reactCid (id : Nat) : Nat := 7000 + id

/-- The harness's `AlgoStrategy`: one market order per not yet answered trade that asks for one. -/
def stratOpens (e : Engine.Eng) (trades : List MktEv) (answered : Nat) : List OpenReq :=
  (trades.drop answered).filterMap fun t =>
    t.react.map fun sq =>
      ⟨⟨(e.instruments[t.inst]?.map (·.exchange)).getD 0, t.inst, reactCid t.id⟩, sq.1, t.price, sq.2⟩

/-- Net effect of a fill on `(side, quantity_abs)` (`PositionManager::update_from_trade`,
engine/state/position.rs:25-120; the arithmetic itself is C02's). -/
def netPosition (cur : Option (Side × Rat)) (side : Side) (q : Rat) : Option (Side × Rat) :=
  match cur with
  | none => some (side, q)
  | some (s0, q0) =>
    if s0 = side then some (s0, q0 + q)
    else if q < q0 then some (s0, q0 - q)
    else if q = q0 then none
    else some (side, q - q0)

/-- The `Model/Engine.lean` event a feed event is. -/
def toEngineEvent (e : Engine.Eng) : CEv → Engine.Event
  | .shutdown => .shutdown
  | .command c => .command c
  | .trading on => .tradingState on
  | .market m => if m.marker then .update .other else .update (.price m.inst m.price)
  | .account a =>
    match a with
    | .snapshot _ _ => .update .other
    | .balance _ _ => .update .other
    | .order i cid q p filled ex =>
      .update (.order i (.snapshot ⟨cid, q, p, .inactive (if filled then .fullyFilled else .openFailed), ex⟩))
    | .cancelErr i cid => .update (.order i (.cancelResp cid false))
    | .trade i side q _ =>
      match netPosition ((e.instruments[i]?).bind (·.position)) side q with
      | some (sd, q') => .update (.position i sd q')
      | none => .update (.flat i)

def tradesAfter (trades : List MktEv) : CEv → List MktEv
  | .market m => if m.marker then trades else trades ++ [m]
  | _ => trades

/-- What the strategy would answer on this tick (it is only asked while trading is enabled). -/
def cAsk (s : CEng) (ev : CEv) : Audit.Ask :=
  ⟨[], stratOpens s.eng (tradesAfter s.trades ev) s.answered, fun _ => false⟩

/-- `Engine::process` of the real engine with the harness's strategy and `DefaultRiskManager`. -/
def cStep (s : CEng) (ev : CEv) : CEng × Engine.Audit :=
  let trades := tradesAfter s.trades ev
  let ask := cAsk s ev
  let r := BarterModel.Engine.process s.eng (toEngineEvent s.eng ev) ask.algoC ask.algoO ask.refuse
  ({ eng := r.1, trades := trades,
     answered := if r.2.generated.isSome then trades.length else s.answered,
     disconnects := s.disconnects + (match ev with | .market m => if m.marker then 1 else 0 | _ => 0) },
   r.2)

def cProcess (s : CEng) (ev : CEv) : CEng × List Req :=
  let r := cStep s ev
  (r.1, r.1.eng.log.drop s.eng.log.length)

def cEngine : Engine CEng MktEv AccEv Command Req :=
  { process := cProcess, fatal := fun s ev => (cStep s ev).2.fatal }

/-- Mock exchange: `k` instruments (instrument `j`: base asset `j`, quote asset `k`). `dead`: the
`ExecutionManager` task of the mocked exchange has panicked — it does so when it is handed a request
(open or cancel) for an instrument the exchange's `ExecutionInstrumentMap` does not list
(`self.indexer.order_request(&request).unwrap_or_else(|error| panic!("ExecutionManager received
… request for non-configured key"))`, manager.rs:244-268; review B C20S-1) — and with it the request receiver, the in-flight futures and the account
stream of that exchange are gone: no request is answered any more. -/
structure CExch where
  k : Nat
  quote : Rat
  base : List Rat
  dead : Bool := false
  deriving DecidableEq, Repr

def ratAbs (q : Rat) : Rat := if q < 0 then -q else q

/-- `ExecutionManager` + `MockExchange::open_order` (market orders, zero fees): a buy needs
`price * |quantity|` of quote, a sell `|quantity|` of base; an insufficient balance rejects. -/
def cRespondLive (x : CExch) : Req → CExch × List AccEv
  | .cnl r => (x, [.cancelErr r.key.instrument r.key.cid])
  | .opn r =>
    if r.key.instrument < x.k then
      match r.side with
      | .buy =>
        let cost := r.price * ratAbs r.quantity
        if cost ≤ x.quote then
          ({ x with quote := x.quote - cost },
           [.order r.key.instrument r.key.cid r.quantity r.price true r.key.exchange,
            .balance x.k (x.quote - cost), .trade r.key.instrument .buy r.quantity r.price])
        else (x, [.order r.key.instrument r.key.cid r.quantity r.price false r.key.exchange])
      | .sell =>
        let have_ := x.base.getD r.key.instrument 0
        if ratAbs r.quantity ≤ have_ then
          ({ x with base := x.base.set r.key.instrument (have_ - ratAbs r.quantity) },
           [.order r.key.instrument r.key.cid r.quantity r.price true r.key.exchange,
            .balance r.key.instrument (have_ - ratAbs r.quantity),
            .trade r.key.instrument .sell r.quantity r.price])
        else (x, [.order r.key.instrument r.key.cid r.quantity r.price false r.key.exchange])
    else (x, [])

/-- A request (delivered to the execution manager of the mocked exchange, i.e. addressed to exchange
0) that names an instrument the mocked exchange does not list. -/
def cForeign (x : CExch) (r : Req) : Bool := decide (x.k ≤ r.key.instrument)

/-- The execution side with the death of its task: a dead side answers nothing; a foreign request
kills it (and is not answered either); otherwise `cRespondLive`. -/
def cRespond (x : CExch) (r : Req) : CExch × List AccEv :=
  if x.dead then (x, [])
  else if cForeign x r then ({ x with dead := true }, [])
  else cRespondLive x r

def cExchange : Exchange CExch Req AccEv := { respond := cRespond }

/-- `EngineStateBuilder` + `Engine::new` as `SystemBuilder::build` calls them: `k` instruments on
exchange 0 (execution link healthy), optionally one more on exchange 1 for which no execution was
configured (`None` in the `MultiExchangeTxMap`, execution/builder.rs:204-224). -/
def cMkEngine (k : Nat) (x2 : Bool) (trading : Bool) : CEng :=
  { eng := { enabled := trading,
             links := if x2 then [.healthy, .missing] else [.healthy],
             log := [],
             instruments := (List.range k).map (fun j => ⟨0, j, k, [], none, none⟩) ++
               (if x2 then [⟨1, k, k + 1, [], none, none⟩] else []),
             disabledCalls := 0 },
    trades := [], answered := 0, disconnects := 0 }

abbrev CSys := Sys CEng CExch MktEv AccEv Command Req

/-- The four command-sending methods of the handle (system/mod.rs:127-161). -/
def send_cancel_requests (rs : List CancelReq) : Call Command := .command (.sendCancelRequests rs)
def send_open_requests (rs : List OpenReq) : Call Command := .command (.sendOpenRequests rs)
def close_positions (f : Filter) : Call Command := .command (.closePositions f)
def cancel_orders (f : Filter) : Call Command := .command (.cancelOrders f)
/-- `System::trading_state` (system/mod.rs:164-169). -/
def trading_state (on : Bool) : Call Command := .tradingState on

/-- The engine-model history (event + strategy answer per tick) of a feed history. -/
def cHist (s : CEng) : List CEv → List (Engine.Event × Audit.Ask)
  | [] => []
  | ev :: rest => (toEngineEvent s.eng ev, cAsk s ev) :: cHist (cStep s ev).1 rest

/-- The audit stream of `Model/Audit.lean` that the ticks of a history are. -/
def cAuditTicks (s : CEng) (seq : Nat) : List CEv → List Audit.Tick
  | [] => []
  | ev :: rest =>
    .process seq (toEngineEvent s.eng ev) (cStep s ev).2 :: cAuditTicks (cStep s ev).1 (seq + 1) rest

end BarterModel.SysHandle
