/-
Model of the engine's active-order tracking:
  `barter/src/engine/state/order/mod.rs` (Orders: update_from_order_snapshot :65-290,
  update_from_cancel_response :292-373, record_in_flight_* :382-410),
  `barter-execution/src/order/state.rs` (ActiveOrderState, Open, CancelInFlight, InactiveOrderState),
  `barter-execution/src/order/mod.rs` (Order, to_active, From<&OrderRequestOpen>),
  routing in `barter/src/engine/state/mod.rs:101-165` and `order/in_flight_recorder.rs`.

`FnvHashMap<ClientOrderId, Order>` is an association list accessed only through `lookup`,
`insert` (erase-then-cons, so keys stay unique) and `erase`. Client order ids, order ids are
`Nat`, exchange timestamps `Int` (ms), quantities `Rat`. The static fields of an order (side,
price, kind, time in force, key) are represented by `price` alone plus `quantity`, which is the
one static field the code reads (`quantity_remaining`).
-/
namespace BarterModel.Orders

/-- `Open` (order/state.rs:83-94). -/
structure Open where
  id : Nat
  t : Int
  filled : Rat
  deriving DecidableEq, Repr, Inhabited

/-- `ActiveOrderState` (order/state.rs:60-76). -/
inductive Active where
  | inFlight
  | opn (o : Open)
  | cancelInFlight (o : Option Open)
  deriving DecidableEq, Repr, Inhabited

/-- `ActiveOrderState::open_meta`. -/
def Active.openMeta : Active → Option Open
  | .inFlight => none
  | .opn o => some o
  | .cancelInFlight o => o

/-- `InactiveOrderState` discriminant (order/state.rs:104-110); payloads are irrelevant to tracking. -/
inductive Inactive where
  | cancelled
  | fullyFilled
  | openFailed
  | expired
  deriving DecidableEq, Repr, Inhabited

/-- `OrderState`. -/
inductive OState where
  | active (a : Active)
  | inactive (k : Inactive)
  deriving DecidableEq, Repr, Inhabited

/-- A tracked order: `Order<_, _, ActiveOrderState>`. -/
structure Order where
  quantity : Rat
  price : Rat
  state : Active
  /-- `key.exchange` as recorded from the request / snapshot that created the entry -/
  exchange : Nat := 0
  deriving DecidableEq, Repr, Inhabited

/-- An order snapshot from the exchange: `Order<_, _, OrderState>` with its client order id. -/
structure Snap where
  cid : Nat
  quantity : Rat
  price : Rat
  state : OState
  /-- `key.exchange` of the snapshot -/
  exchange : Nat := 0
  deriving DecidableEq, Repr, Inhabited

abbrev Orders := List (Nat × Order)

def lookup (m : Orders) (c : Nat) : Option Order :=
  match m with
  | [] => none
  | (k, v) :: rest => if k = c then some v else lookup rest c

def erase (m : Orders) (c : Nat) : Orders :=
  match m with
  | [] => []
  | (k, v) :: rest => if k = c then erase rest c else (k, v) :: erase rest c

def insert (m : Orders) (c : Nat) (o : Order) : Orders := (c, o) :: erase m c

/-- tracked state of `c` (`none` = untracked) -/
def stateOf (m : Orders) (c : Nat) : Option Active := (lookup m c).map (·.state)

/-- `entry.get_mut().state = s`. -/
def setState (m : Orders) (c : Nat) (cur : Order) (s : Active) : Orders :=
  insert m c { cur with state := s }

/-- `Open::quantity_remaining(initial) == 0`. -/
def remZero (quantity : Rat) (o : Open) : Bool := quantity - o.filled == 0

/-- `update_from_order_snapshot` (order/mod.rs:65-290). -/
def updateFromSnapshot (m : Orders) (s : Snap) : Orders :=
  match lookup m s.cid, s.state with
  -- (Vacant, None)
  | none, .inactive _ => m
  -- (Vacant, Some(update))
  | none, .active a =>
    match a with
    | .opn o => if remZero s.quantity o then m
                else insert m s.cid { quantity := s.quantity, price := s.price, state := a, exchange := s.exchange }
    | _ => insert m s.cid { quantity := s.quantity, price := s.price, state := a, exchange := s.exchange }
  -- (Occupied, None)
  | some _, .inactive _ => erase m s.cid
  -- (Occupied, Some(update))
  | some cur, .active upd =>
    match cur.state, upd with
    | .inFlight, .inFlight => m
    | .inFlight, .opn o =>
      if remZero s.quantity o then erase m s.cid else setState m s.cid cur (.opn o)
    | .inFlight, .cancelInFlight x => setState m s.cid cur (.cancelInFlight x)
    | .opn _, .inFlight => m
    | .opn c, .opn u =>
      if remZero s.quantity u then erase m s.cid
      else if c.t ≤ u.t then setState m s.cid cur (.opn u) else m
    | .opn c, .cancelInFlight x =>
      let latest := match x with
        | some u => if c.t ≤ u.t then u else c
        | none => c
      setState m s.cid cur (.cancelInFlight (some latest))
    | .cancelInFlight _, .inFlight => m
    | .cancelInFlight c, .opn u =>
      if remZero s.quantity u then erase m s.cid
      else
        let updIsLatest := match c with
          | none => true
          | some c => decide (c.t ≤ u.t)
        if updIsLatest then setState m s.cid cur (.cancelInFlight (some u)) else m
    | .cancelInFlight _, .cancelInFlight _ => m

/-- `update_from_cancel_response` (order/mod.rs:292-373); `ok` = `response.state.is_ok()`. -/
def updateFromCancelResponse (m : Orders) (cid : Nat) (ok : Bool) : Orders :=
  match lookup m cid with
  | none => m
  | some cur =>
    match cur.state, ok with
    | .inFlight, true => erase m cid
    | .opn _, true => erase m cid
    | .cancelInFlight _, true => erase m cid
    | .inFlight, false => m
    | .opn _, false => m
    | .cancelInFlight (some o), false => setState m cid cur (.opn o)
    | .cancelInFlight none, false => erase m cid

/-- `record_in_flight_cancel` (order/mod.rs:382-398). -/
def recordInFlightCancel (m : Orders) (cid : Nat) : Orders :=
  match lookup m cid with
  | none => m
  | some cur => setState m cid cur (.cancelInFlight cur.state.openMeta)

/-- `record_in_flight_open` (order/mod.rs:400-410) with `Order::from(&OrderRequestOpen)`. -/
def recordInFlightOpen (m : Orders) (cid : Nat) (quantity price : Rat) (exchange : Nat := 0) : Orders :=
  insert m cid { quantity := quantity, price := price, state := .inFlight, exchange := exchange }

/-- One input to a single instrument's `Orders`. -/
inductive Op where
  | recOpen (cid : Nat) (quantity price : Rat) (exchange : Nat := 0)
  | recCancel (cid : Nat)
  | snapshot (s : Snap)
  | cancelResp (cid : Nat) (ok : Bool)
  deriving DecidableEq, Repr

def Op.cid : Op → Nat
  | .recOpen c _ _ _ => c
  | .recCancel c => c
  | .snapshot s => s.cid
  | .cancelResp c _ => c

def step (m : Orders) : Op → Orders
  | .recOpen c q p x => recordInFlightOpen m c q p x
  | .recCancel c => recordInFlightCancel m c
  | .snapshot s => updateFromSnapshot m s
  | .cancelResp c ok => updateFromCancelResponse m c ok

def run (m : Orders) (ops : List Op) : Orders := ops.foldl step m

/-! ### Engine level: one `Orders` per instrument, routed by instrument index
(`EngineState::update_from_account` for `OrderSnapshot` / `OrderCancelled` / `Snapshot`, and
`InFlightRequestRecorder for EngineState`). An out-of-range instrument index panics in the code;
here the table is left unchanged and the drivers report `panic`. -/

abbrev Engine := List Orders

def Engine.apply (e : Engine) (i : Nat) (op : Op) : Engine :=
  match e[i]? with
  | some m => e.set i (step m op)
  | none => e

/-- `AccountEventKind::Snapshot`: every order of every `InstrumentAccountSnapshot`, in order, applied
to the instrument the enclosing entry names (state/mod.rs:115-127, instrument/mod.rs:279-290). -/
def Engine.applySnapshot (e : Engine) (items : List (Nat × Snap)) : Engine :=
  items.foldl (fun e (is : Nat × Snap) => e.apply is.1 (.snapshot is.2)) e

def Engine.run (e : Engine) (ops : List (Nat × Op)) : Engine :=
  ops.foldl (fun e (io : Nat × Op) => e.apply io.1 io.2) e

/-! ### Abstract specification: the documented lifecycle of ONE client order id
(written from the property text / DESIGN.md §7 C01 table, not from the code). -/

/-- What the exchange / engine can say about one client order id. -/
inductive Input where
  /-- an open request for this id was sent -/
  | requestOpenSent
  /-- a cancel request for this id was sent -/
  | requestCancelSent
  /-- the exchange reports the order open; `nothingLeft` = filled quantity equals order quantity -/
  | reportOpen (o : Open) (nothingLeft : Bool)
  /-- the exchange reports it cancelled / fully filled / failed / expired -/
  | reportFinished
  /-- a report that merely echoes "open request in flight" -/
  | reportInFlight
  | cancelOk
  | cancelErr
  deriving DecidableEq, Repr

/-- Tracked state of one id = `Active`; `none` = untracked. -/
def Lifecycle.step (st : Option Active) : Input → Option Active
  | .requestOpenSent => some .inFlight
  | .requestCancelSent =>
    match st with
    | none => none
    | some a => some (.cancelInFlight a.openMeta)
  | .reportOpen _ true => none
  | .reportOpen o false =>
    match st with
    | none => some (.opn o)
    | some .inFlight => some (.opn o)
    | some (.opn c) => if c.t ≤ o.t then some (.opn o) else some (.opn c)
    | some (.cancelInFlight none) => some (.cancelInFlight (some o))
    | some (.cancelInFlight (some c)) =>
      if c.t ≤ o.t then some (.cancelInFlight (some o)) else some (.cancelInFlight (some c))
  | .reportFinished => none
  | .reportInFlight =>
    match st with
    | none => some .inFlight
    | some a => some a
  | .cancelOk => none
  | .cancelErr =>
    match st with
    | some (.cancelInFlight (some o)) => some (.opn o)
    | some (.cancelInFlight none) => none
    | other => other

/-- The lifecycle input that an `Op` is for client order id `c` (`none`: it is about another id, or it
is a hand-built snapshot carrying a cancel-in-flight marker, which no exchange sends). -/
def Op.input (c : Nat) : Op → Option Input
  | .recOpen c' _ _ _ => if c' = c then some .requestOpenSent else none
  | .recCancel c' => if c' = c then some .requestCancelSent else none
  | .cancelResp c' ok => if c' = c then some (if ok then .cancelOk else .cancelErr) else none
  | .snapshot s =>
    if s.cid = c then
      match s.state with
      | .inactive _ => some .reportFinished
      | .active .inFlight => some .reportInFlight
      | .active (.opn o) => some (.reportOpen o (remZero s.quantity o))
      | .active (.cancelInFlight _) => none
    else none

/-- Snapshots an exchange can produce: no cancel-in-flight marker. -/
def Op.exchangeStatesOnly : Op → Bool
  | .snapshot s => match s.state with
    | .active (.cancelInFlight _) => false
    | _ => true
  | _ => true

def Lifecycle.stepOp (c : Nat) (st : Option Active) (op : Op) : Option Active :=
  match op.input c with
  | some i => Lifecycle.step st i
  | none => st

def Lifecycle.run (c : Nat) (st : Option Active) (ops : List Op) : Option Active :=
  ops.foldl (Lifecycle.stepOp c) st

/-- exchange timestamp of the exchange-reported data held for an order -/
def heldTime (a : Option Active) : Option Int :=
  match a with
  | some a => a.openMeta.map (·.t)
  | none => none

end BarterModel.Orders
