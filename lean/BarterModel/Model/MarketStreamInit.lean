import BarterModel.Model.Streams
/-!
# C12I — `init_market_stream`: the composed reconnecting market stream

Model of `barter-data/src/streams/consumer.rs:44-80`, the ONE place where the repository composes
`init_reconnecting_stream` + `with_reconnect_backoff` + `with_termination_on_error` +
`with_reconnection_events` into "a reconnecting market stream" (callers: `streams/builder/mod.rs:109`
and every arm of `streams/builder/dynamic/mod.rs`, all with `STREAM_RECONNECTION_POLICY`).

Nothing new is modelled from scratch: the combinators are those of `Model/Streams.lean` (C12). What
this file adds is what `init_market_stream` itself decides:
  * the empty-subscription guard (`:58-62`): `DataError::SubscriptionsEmpty` before `init` is ever called;
  * the `init` closure: `Exchange::Stream::init::<Exchange::SnapFetcher>(&subscriptions)` on a clone of
    the caller's subscription list, every time (`:72-75`);
  * the ORDER of the combinators (`:76-79`) and their arguments: the caller's policy, the closure
    `|error| error.is_terminal()` (`DataError::is_terminal`, `error.rs:49-54`: exactly
    `InvalidSequence`), and `Exchange::ID` as the origin of every `Reconnecting` notice;
  * `STREAM_RECONNECTION_POLICY` (`:23-27`).
The function does NOT apply `with_error_handler`: non-terminal errors are ITEMS of the returned stream
(`Event::Item(Err(e))`); the documented consumer pattern (`barter-data/src/lib.rs:84-86`) appends
`.with_error_handler(|error| warn!(..))`, modelled here as `Mode.handler`.

Core Lean only.
-/
namespace BarterModel.MarketStreamInit
open BarterModel.Streams

/-- `STREAM_RECONNECTION_POLICY` (consumer.rs:23-27). -/
def streamReconnectionPolicy : Policy := ⟨125, 2, 60000⟩

/-- The `DataError` variants (`error.rs:8-44`), ALL eight of them: a `MarketStream` may yield any
`DataError`, and `is_terminal` is a function of the variant alone. (The first four are what the
repository's own streams yield; the last four are produced by `init` / indexing code paths, but nothing
in the types keeps them out of a stream, and the closure of `init_market_stream` classifies them too.) -/
inductive ErrKind where
  /-- `DataError::InvalidSequence { .. }` -/
  | invalidSequence
  /-- `DataError::Socket(_)` -/
  | socket
  /-- `DataError::InitialSnapshotMissing(_)` -/
  | snapshotMissing
  /-- `DataError::InitialSnapshotInvalid(_)` -/
  | snapshotInvalid
  /-- `DataError::Index(_)` -/
  | index
  /-- `DataError::SubscriptionsEmpty` -/
  | subscriptionsEmpty
  /-- `DataError::UnsupportedSubKind(_)` -/
  | unsupportedSubKind
  /-- `DataError::Unsupported { .. }` -/
  | unsupported
  deriving DecidableEq, Repr, Inhabited

/-- `DataError::is_terminal` (error.rs:49-54): `InvalidSequence` and nothing else. -/
def ErrKind.isTerminal : ErrKind → Bool
  | .invalidSequence => true
  | _ => false

/-- position of the variant in the packing below (NOT the declaration order of `error.rs`) -/
def ErrKind.idx : ErrKind → Nat
  | .invalidSequence => 0 | .socket => 1 | .snapshotMissing => 2 | .snapshotInvalid => 3
  | .index => 4 | .subscriptionsEmpty => 5 | .unsupportedSubKind => 6 | .unsupported => 7

def ErrKind.ofIdx : Nat → ErrKind
  | 0 => .invalidSequence | 1 => .socket | 2 => .snapshotMissing | 3 => .snapshotInvalid
  | 4 => .index | 5 => .subscriptionsEmpty | 6 => .unsupportedSubKind | _ => .unsupported

/-- A `DataError` value as an error id of the C12 model: kind and payload packed into one number. -/
def errCode (k : ErrKind) (id : Nat) : Nat := 8 * id + k.idx

def errKindOf (code : Nat) : ErrKind := .ofIdx (code % 8)
def errIdOf (code : Nat) : Nat := code / 8

/-- What one connection of the scripted exchange does next. -/
inductive MElem where
  /-- `Ok(MarketEvent)` with payload `x` -/
  | item (x : Nat)
  /-- `Err(DataError)` of the given variant -/
  | error (k : ErrKind) (id : Nat)
  /-- latency before the next element -/
  | delay (ms : Nat)
  deriving DecidableEq, Repr, Inhabited

/-- Outcome of one `MarketStream::init` call of the scripted exchange. -/
inductive MConn where
  | initFail
  | initOk (elems : List MElem) (hang : Bool)
  deriving DecidableEq, Repr, Inhabited

/-- The C12 element: `terminal` is what the closure `|error| error.is_terminal()` (consumer.rs:78)
answers for the error. -/
def MElem.toElem : MElem → Elem
  | .item x => .item x
  | .error k id => .error (errCode k id) k.isTerminal
  | .delay ms => .delay ms

def MConn.toConn : MConn → Conn
  | .initFail => .initFail
  | .initOk elems hang => .initOk (elems.map MElem.toElem) hang

/-- What the caller of `init_market_stream` gets. -/
inductive Outcome where
  /-- `Err(DataError::SubscriptionsEmpty)` (consumer.rs:58-62); `init` was never invoked -/
  | subscriptionsEmpty
  /-- everything else: the run of the composed stream (or of the failed / pending first `init`); every
  `Reconnecting` notice carries `origin` -/
  | run (origin : Nat) (r : Run (Event Res))
  deriving Repr, Inhabited

/-- `init_market_stream::<Exchange, _, _>(policy, subscriptions)` (consumer.rs:44-80) over a scripted
exchange with id `exchange`, handed `nsubs` subscriptions, whose `MarketStream::init` answers with the
entries of `script` one after the other (and stays pending when the script is exhausted).

The body is the source's expression, combinator by combinator:
`init_reconnecting_stream(init).await?` — first `init`; its failure is the function's `Err` (`?`), then
`once(ready(Ok(initial))).chain(repeat_with(init).then(identity))` —,
`.with_reconnect_backoff(policy, _)`, `.with_termination_on_error(|e| e.is_terminal(), _)`,
`.with_reconnection_events(exchange)`. -/
def initMarketStream (exchange : Nat) (policy : Policy) (nsubs : Nat) (script : List MConn) : Outcome :=
  if nsubs = 0 then .subscriptionsEmpty else
  .run exchange <|
    match script.map MConn.toConn with
    | [] => ⟨[], .initPending⟩
    | .initFail :: _ => ⟨[.eff .attempt], .initError⟩
    | .initOk elems hang :: rest =>
      (withReconnectionEvents
        (withTerminationOnError
          (withReconnectBackoff policy
            (initReconnecting (connStream elems hang) rest)))).toRun

/-- How the returned stream is consumed. -/
inductive Mode where
  /-- as returned: `Event<ExchangeId, Result<MarketEvent, DataError>>` -/
  | events
  /-- `.with_error_handler(|error| warn!(..))` appended (the pattern of barter-data/src/lib.rs:84-86) -/
  | handler
  deriving DecidableEq, Repr, Inhabited

/-- `with_error_handler` over a finished run (the handler stage neither ends nor blocks a stream). -/
def handlerRun (r : Run (Event Res)) : Run (Event Nat) := ⟨filterMapSteps handle r.steps, r.fin⟩

/-! ## Abstract specification (the C12 property text, read for `init_market_stream`)

"delivers every item of each successfully initialised connection in order and exactly once, up to that
connection's end or first terminal error, then emits exactly one reconnecting notice for it before
anything from the next connection; non-terminal errors are passed through (or handed to the error
handler) without ending the connection. Failed re-initialisation attempts deliver nothing and are
separated by waits that start at the configured initial backoff, multiply up to the configured maximum
and reset after a success; the stream never ends by itself." — `specEvents` / `specHandler` of
`Model/Streams.lean` are that text; here only the reading of "terminal" is added: an error is terminal
iff it is an `InvalidSequence`. -/

/-- the property's reading of one scripted element: the only terminal error is `InvalidSequence`
(written out on its own; `spec_script_is_model_script` proves it is the model's translation) -/
def specElem : MElem → Elem
  | .item x => .item x
  | .delay ms => .delay ms
  | .error .invalidSequence id => .error (errCode .invalidSequence id) true
  | .error .socket id => .error (errCode .socket id) false
  | .error .snapshotMissing id => .error (errCode .snapshotMissing id) false
  | .error .snapshotInvalid id => .error (errCode .snapshotInvalid id) false
  | .error .index id => .error (errCode .index id) false
  | .error .subscriptionsEmpty id => .error (errCode .subscriptionsEmpty id) false
  | .error .unsupportedSubKind id => .error (errCode .unsupportedSubKind id) false
  | .error .unsupported id => .error (errCode .unsupported id) false

/-- the script as the property reads it -/
def specScript : List MConn → List Conn
  | [] => []
  | .initFail :: cs => .initFail :: specScript cs
  | .initOk elems hang :: cs => .initOk (elems.map specElem) hang :: specScript cs

/-- What the property prescribes for a market stream. No subscription: no stream, and the exchange is
never contacted. -/
inductive SpecOutcome (α : Type) where
  | noStream
  | run (origin : Nat) (r : Run α)

def specInit (exchange : Nat) (policy : Policy) (nsubs : Nat) (script : List MConn) :
    SpecOutcome (Event Res) :=
  if nsubs = 0 then .noStream else .run exchange (specEvents policy (specScript script))

def specInitHandler (exchange : Nat) (policy : Policy) (nsubs : Nat) (script : List MConn) :
    SpecOutcome (Event Nat) :=
  if nsubs = 0 then .noStream else .run exchange (specHandler policy (specScript script))

end BarterModel.MarketStreamInit
