/-
Model of `barter/src/statistic/summary/dataset/mod.rs` (DataSetSummary),
`barter/src/statistic/summary/dataset/dispersion.rs` (Dispersion, Range) and the
`welford_online` functions of `barter/src/statistic/algorithm.rs`, over exact rationals.

`Decimal` is `Rat` (rounding of `/` and of overflowing `*` is not modelled, DESIGN §3).
`Decimal::sqrt` is a *parameter* `sqrtFn : Rat → Rat` of the model: the theorems hold for every
choice of it; the driver instantiates it with `sqrtApprox` (integer square root, 30 decimal
places, error bound proved) so that the model's `std_dev` can be compared with the code's.

Second half of the file: the abstract specification (whole-dataset statistics), written from the
property text — it never looks at a running state.
-/
namespace BarterModel.DataSet

/-! ## Concrete model -/

/-- `welford_online::calculate_mean` (algorithm.rs:7-13): `prev_mean += (next − prev_mean)/count`. -/
def calculateMean (prevMean nextValue count : Rat) : Rat :=
  prevMean + (nextValue - prevMean) / count

/-- `welford_online::calculate_recurrence_relation_m` (algorithm.rs:16-23). -/
def calculateRecurrenceRelationM (prevM prevMean newValue newMean : Rat) : Rat :=
  prevM + ((newValue - prevMean) * (newValue - newMean))

/-- `welford_online::calculate_population_variance` (algorithm.rs:36-44). -/
def calculatePopulationVariance (m count : Rat) : Rat :=
  if count < 1 then 0 else m / count

/-- `Range` (dispersion.rs:50-55); `Default` is `{false, 0, 0}`. -/
structure Range where
  activated : Bool
  high : Rat
  low : Rat
  deriving DecidableEq, Repr, Inhabited

def Range.default : Range := { activated := false, high := 0, low := 0 }

/-- `Range::update` (dispersion.rs:68-82). -/
def Range.update (r : Range) (newValue : Rat) : Range :=
  if r.activated then
    let high := if newValue > r.high then newValue else r.high
    let low := if newValue < r.low then newValue else r.low
    { activated := true, high := high, low := low }
  else
    { activated := true, high := newValue, low := newValue }

/-- `Range::range` (dispersion.rs:85-87). -/
def Range.range (r : Range) : Rat := r.high - r.low

/-- `Dispersion` (dispersion.rs:7-12). -/
structure Dispersion where
  range : Range
  recurrenceRelationM : Rat
  variance : Rat
  stdDev : Rat
  deriving DecidableEq, Repr, Inhabited

def Dispersion.default : Dispersion :=
  { range := Range.default, recurrenceRelationM := 0, variance := 0, stdDev := 0 }

/-- `Dispersion::update` (dispersion.rs:17-45). `sqrtFn` stands for `Decimal::sqrt` (which is only
ever applied to `variance.abs()`, so its `None` branch — negative input — is unreachable). -/
def Dispersion.update (sqrtFn : Rat → Rat) (d : Dispersion)
    (prevMean newMean newValue valueCount : Rat) : Dispersion :=
  let range := d.range.update newValue
  let m := calculateRecurrenceRelationM d.recurrenceRelationM prevMean newValue newMean
  let variance := calculatePopulationVariance m valueCount
  let stdDev := sqrtFn variance.abs
  { range := range, recurrenceRelationM := m, variance := variance, stdDev := stdDev }

/-- `DataSetSummary` (mod.rs:45-51). `count` is a `Decimal` in the code, hence a `Rat` here. -/
structure Summary where
  count : Rat
  sum : Rat
  mean : Rat
  dispersion : Dispersion
  deriving DecidableEq, Repr, Inhabited

/-- `DataSetSummary::default()`. -/
def Summary.default : Summary :=
  { count := 0, sum := 0, mean := 0, dispersion := Dispersion.default }

/-- `DataSetSummary::update` (mod.rs:60-76). -/
def Summary.update (sqrtFn : Rat → Rat) (s : Summary) (nextValue : Rat) : Summary :=
  let count := s.count + 1
  let sum := s.sum + nextValue
  let prevMean := s.mean
  let mean := calculateMean s.mean nextValue count
  let dispersion := s.dispersion.update sqrtFn prevMean mean nextValue count
  { count := count, sum := sum, mean := mean, dispersion := dispersion }

/-- The running summary after the values `xs` arrived in this order, from `default()`. -/
def Summary.run (sqrtFn : Rat → Rat) (xs : List Rat) : Summary :=
  xs.foldl (Summary.update sqrtFn) Summary.default

/-! ## Abstract specification: statistics of the whole dataset, computed at once -/

/-- Σ xs -/
def total : List Rat → Rat
  | [] => 0
  | x :: xs => x + total xs

/-- arithmetic mean of the whole dataset (`0` for the empty one, as `default()`). -/
def specMean (xs : List Rat) : Rat := total xs / (xs.length : Rat)

/-- Σ (x − c)² -/
def sqDev (c : Rat) : List Rat → Rat
  | [] => 0
  | x :: xs => (x - c) * (x - c) + sqDev c xs

/-- sum of squared deviations from the mean of the whole dataset -/
def specM (xs : List Rat) : Rat := sqDev (specMean xs) xs

/-- population variance of the whole dataset -/
def specVariance (xs : List Rat) : Rat := specM xs / (xs.length : Rat)

/-- greatest value (`0` for the empty dataset, as `default()`). -/
def specHigh : List Rat → Rat
  | [] => 0
  | [x] => x
  | x :: y :: ys => let h := specHigh (y :: ys); if x ≤ h then h else x

/-- least value (`0` for the empty dataset). -/
def specLow : List Rat → Rat
  | [] => 0
  | [x] => x
  | x :: y :: ys => let l := specLow (y :: ys); if l ≤ x then l else x

/-- The summary the property demands for the dataset `xs`, in the shape of the code's struct
(`sqrtFn` is the square root; the empty dataset has the all-zero summary of `default()`). -/
def specSummary (sqrtFn : Rat → Rat) (xs : List Rat) : Summary :=
  { count := (xs.length : Rat)
    sum := total xs
    mean := specMean xs
    dispersion :=
      { range := { activated := !xs.isEmpty, high := specHigh xs, low := specLow xs }
        recurrenceRelationM := specM xs
        variance := specVariance xs
        stdDev := if xs.isEmpty then 0 else sqrtFn (specVariance xs) } }

/-! ## Executable square root used by the drivers

The theorems of C17 hold for every `sqrtFn`; this particular one (bit-by-bit integer square root
of `⌊r·10⁶⁰⌋`, i.e. √r truncated to 30 decimal places) is what the drivers plug in so that
`std_dev` can be compared with the code's `Decimal::sqrt`. Its error bound is proved in
`Lemmas/DataSet.lean` (`sqrtApprox_spec`). -/

/-- tries to add `2^k, 2^(k-1), …, 2, 1` to the accumulator `a`, keeping `a² ≤ n`. -/
def isqrtGo : Nat → Nat → Nat → Nat
  | 0, n, a => if (a + 1) * (a + 1) ≤ n then a + 1 else a
  | k + 1, n, a =>
    let p := 2 ^ (k + 1)
    isqrtGo k n (if (a + p) * (a + p) ≤ n then a + p else a)

/-- ⌊√n⌋ -/
def isqrt (n : Nat) : Nat := isqrtGo n.log2 n 0

def sqrtScale : Nat := 10 ^ 30

/-- √r truncated to 30 decimal places (`0` for `r ≤ 0`). -/
def sqrtApprox (r : Rat) : Rat :=
  if r ≤ 0 then 0 else
    let n : Nat := ((r * ((sqrtScale : Rat) * (sqrtScale : Rat))).floor).toNat
    (isqrt n : Rat) / (sqrtScale : Rat)

end BarterModel.DataSet
