import BarterModel.Model.ExchangeStream
import BarterModel.Model.BinanceL2
import BarterModel.Model.Streams
import BarterModel.Model.BookManager
/-!
# End-to-end Binance L2 pipeline: websocket frames → local order books (sub-check C06E of C06)

No new code is modelled here. This file COMPOSES the existing models

* `Model/ExchangeStream.lean` (C12W)  `ExchangeStream::poll_next`, `WebSocketParser::parse`,
                                       `process_buffered_events`
* `Model/BinanceL2.lean` (C06)        `Binance*OrderBooksL2Transformer::{init, transform}`, the
                                       sequencers, `DataError::is_terminal`
* `Model/Streams.lean` (C12)          `init_reconnecting_stream`, `with_reconnect_backoff`,
                                       `with_termination_on_error`, `with_reconnection_events`,
                                       `with_error_handler`
* `Model/Book.lean` (C05)             `OrderBook::update`, `OrderBookL2Manager::run`

along the wiring of the real code:

* `barter-data/src/lib.rs:213-264`          `impl MarketStream for ExchangeWsStream<Transformer>`::`init`
  (`Transformer::init(instrument_map, &initial_snapshots, _)`, `process_buffered_events`,
  `processed.extend(initial_snapshots)`, `ExchangeWsStream::new(ws_stream, transformer, processed)`)
* `barter-data/src/streams/consumer.rs:44-80` `init_market_stream` (`init_reconnecting_stream(..)
  .with_reconnect_backoff(..).with_termination_on_error(|e| e.is_terminal(), _)
  .with_reconnection_events(_)`)
* `barter-data/src/books/manager.rs:42-65, 112-126` `.with_error_handler(..)` and
  `OrderBookL2Manager::run` over an `OrderBookMapMulti`
* `barter-data/src/error.rs:48-62`           `is_terminal`, `From<SocketError> for DataError`

followed by the abstract specification of the pipeline, written from the documentation of the
pieces (what a connection delivers, when it is over, what the consumer is told, what the manager
does with it) and not from the composition above.

The C12 model speaks about streams of `Nat` items and `(id, terminal)` errors. The composition
therefore *labels* every output of every connection with its position in the table of all outputs
(`label`, `script`, `table`), runs the C12 model on the labelled script and reads the labels back
(`decodeEvent`, `decodeHandled`). `Props/C06E.lean` proves that this round trip is the identity.

Core Lean only.
-/
namespace BarterModel.L2Pipeline
open BarterModel.Book BarterModel.BinanceL2 BarterModel.ExStream

/-! ## the types flowing through the pipeline -/

/-- `DataError` as far as the running pipeline produces it (`error.rs:9-44`): `Socket(String)` made
by `From<SocketError>` (`error.rs:58-62`; the model keeps the `SocketError` instead of its text), and
the two errors of `Transformer::transform` (C06's `DataError`). -/
inductive PipeError where
  | socket (e : SocketError)
  | data (e : BinanceL2.DataError)
  deriving DecidableEq, Repr, Inhabited

/-- `DataError::is_terminal` (`error.rs:48-56`): only `InvalidSequence`. -/
def PipeError.isTerminal : PipeError → Bool
  | .socket _ => false
  | .data e => e.isTerminal

/-- `MarketEvent<InstrumentKey, OrderBookEvent>`: the instrument key and the event. -/
abbrev MarketEv := Nat × Event

/-- `Result<MarketEvent<_, OrderBookEvent>, DataError>`: the item type of a `MarketStream`. -/
abbrev Item := Except PipeError MarketEv

/-- an output of C06's `transform` as a stream item. -/
def ofOut : Out → Item
  | .event k ev => .ok (k, ev)
  | .error e => .error (.data e)

def Item.isTerminal : Item → Bool
  | .ok _ => false
  | .error e => e.isTerminal

/-- One inner item of the websocket stream: `Result<WsMessage, WsError>`. -/
abbrev Frame := Except WsError WsMessage

/-- What is fixed for the life of the pipeline. `de` is the `serde` deserialiser of
`BinanceSpotOrderBookL2Update` / `BinanceFuturesOrderBookL2Update` (a parameter, as in C12W);
`instrumentMap` is the `Map<InstrumentKey>` built from the subscriptions (subscription id ↦ key),
the same for every (re-)connection (`consumer.rs:73` clones the subscriptions); `policy` the
`ReconnectionBackoffPolicy`. -/
structure Config where
  rules : Rules
  de : De Update
  instrumentMap : List (Nat × Nat)
  policy : Streams.Policy

/-- `ExchangeWsStream<Binance*OrderBooksL2Transformer>` as parameters of the C12W stream model:
`WebSocketParser::parse`, `DataError::from(SocketError)`, `Transformer::transform`. -/
def Config.params (cfg : Config) :
    Params Frame SocketError Update Transformer MarketEv PipeError where
  parse := ExStream.parse cfg.de
  conv := .socket
  transform := fun t m => ((t.transform cfg.rules m).1, (t.transform cfg.rules m).2.map ofOut)

/-- Everything one invocation of the `init` closure of `init_market_stream` gets from the outside
world: the REST snapshots (`SnapFetcher::fetch_snapshots`, one `MarketEvent` per subscription), the
websocket messages buffered during subscription validation (`Subscribed::buffered_websocket_events`;
always empty for Binance, whose `expected_responses` is 1), the frames the socket then yields, and
whether the socket stream ends after them (`Ready(None)`) or stays open. -/
structure ConnInput where
  snapshots : List MarketEv
  buffered : List WsMessage
  frames : List Frame
  ended : Bool
  deriving Inhabited

abbrev WsStream := St Frame Transformer MarketEv PipeError

/-- The tail of `MarketStream::init` (`lib.rs:243-263`): `Transformer::init` (an error aborts the
initialisation), `process_buffered_events`, **then** the initial snapshots appended to the processed
events, `ExchangeWsStream::new`. -/
def marketStreamInit (cfg : Config) (c : ConnInput) : Except InitError WsStream :=
  match Transformer.init cfg.instrumentMap c.snapshots with
  | .error e => .error e
  | .ok transformer =>
    let (transformer, processed) := processBuffered cfg.params transformer (c.buffered.map .ok)
    .ok (St.new ⟨c.frames.map .item, c.ended⟩ transformer (processed ++ c.snapshots.map .ok))

/-! ## one connection as the reconnecting stream sees it -/

/-- Outcome of one invocation of `init`: an error, or an inner stream — the items it hands out when
polled (`fuel` polls) and whether it then stays pending (`hang`) or ends. -/
inductive ConnOut where
  | fail
  | ok (items : List Item) (hang : Bool)
  deriving Inhabited

def connOut (cfg : Config) (fuel : Nat) (c : ConnInput) : ConnOut :=
  match marketStreamInit cfg c with
  | .error _ => .fail
  | .ok s => .ok (itemsOf (polls cfg.params fuel s)) (!c.ended)

/-- a number of polls after which a freshly initialised connection has handed out everything -/
def connFuel (cfg : Config) (c : ConnInput) : Nat :=
  match marketStreamInit cfg c with
  | .error _ => 0
  | .ok s => (specPolls cfg.params s).length

/-- enough polls for every connection of the input -/
def enoughFuel (cfg : Config) (conns : List ConnInput) : Nat :=
  conns.foldl (fun n c => max n (connFuel cfg c)) 0

/-! ## labelling for the C12 model -/

/-- the outputs of one connection as a C12 script, output `j` labelled `g + j` -/
def label : Nat → List Item → List Streams.Elem
  | _, [] => []
  | g, .ok _ :: r => .item g :: label (g + 1) r
  | g, .error e :: r => .error g e.isTerminal :: label (g + 1) r

/-- the C12 script of the whole input, labels running through all connections from `g` -/
def script : Nat → List ConnOut → List Streams.Conn
  | _, [] => []
  | g, .fail :: cs => .initFail :: script g cs
  | g, .ok items hang :: cs => .initOk (label g items) hang :: script (g + items.length) cs

/-- the table the labels index -/
def table : List ConnOut → List Item
  | [] => []
  | .fail :: cs => table cs
  | .ok items _ :: cs => items ++ table cs

/-- an event of the C12 trace read back as a `MarketStreamEvent<Key, OrderBookEvent>` -/
def decodeEvent (tbl : List Item) : Streams.Event Nat → Option StreamEvent
  | .reconnecting => some .reconnecting
  | .item g =>
    match tbl[g]? with
    | some (.ok (k, ev)) => some (.item k ev)
    | _ => none

/-- a handler call of the C12 trace read back as the error the closure received -/
def decodeHandled (tbl : List Item) (g : Nat) : Option PipeError :=
  match tbl[g]? with
  | some (.error e) => some e
  | _ => none

/-! ## the composed pipeline -/

/-- What the pipeline shows: the events its stream yielded to `OrderBookL2Manager::run`, the errors
its `with_error_handler` closure received, the books afterwards, and how the run stands. -/
structure Result where
  events : List StreamEvent
  handled : List PipeError
  books : Books
  fin : Streams.Fin
  deriving Inhabited

/-- `init_market_stream(policy, subscriptions)` … `.with_error_handler(..)` into
`OrderBookL2Manager { stream, books }.run()`, over the inputs of successive `init` invocations. -/
def pipeline (cfg : Config) (fuel : Nat) (books : Books) (conns : List ConnInput) : Result :=
  let outs := conns.map (connOut cfg fuel)
  let run := Streams.runHandler cfg.policy (script 0 outs)
  let tbl := table outs
  let events := (Streams.yields run.steps).filterMap (decodeEvent tbl)
  { events := events
    handled := (Streams.handledOf (Streams.effects run.steps)).filterMap (decodeHandled tbl)
    books := managerRun books events
    fin := run.fin }

/-! ## Abstract specification (from the documentation of the pieces)

* `ExchangeStream`: "polls protocol messages from the inner Stream, and transforms them into the
  desired output"; buffered events first.
* `with_termination_on_error`: "Terminates the inner Stream if the encountered error is determined
  to be unrecoverable … This will cause the ReconnectingStream to re-initialise the inner Stream."
* `with_reconnection_events`: every item as `Event::Item`, and a `Reconnecting` chained after each
  inner stream.
* `with_error_handler`: "Handles all encountered errors with the provided closure before filtering
  them out".
* `OrderBookL2Manager`: "Maintains a set of local L2 OrderBooks by applying streamed
  OrderBookEvents to the associated OrderBook in the OrderBookMap".
-/

/-- Everything a successfully initialised connection would hand out, in order: the outputs of the
events buffered during subscription validation, the snapshots, then every frame replaced by what it
contributes (nothing / a socket error / the transformer's outputs). `none`: `init` failed. -/
def connItems (cfg : Config) (c : ConnInput) : Option (List Item) :=
  match Transformer.init cfg.instrumentMap c.snapshots with
  | .error _ => none
  | .ok t =>
    some (specOut (quiet cfg.params) t (c.buffered.map .ok) ++ c.snapshots.map .ok ++
      specOut cfg.params (specState (quiet cfg.params) t (c.buffered.map .ok)) c.frames)

/-- what is delivered of a connection: everything before its first terminal error -/
def deliveredItems : List Item → List Item
  | [] => []
  | x :: r => if x.isTerminal then [] else x :: deliveredItems r

/-- a terminal error occurs -/
def hasTerminalItem : List Item → Bool
  | [] => false
  | x :: r => x.isTerminal || hasTerminalItem r

/-- a connection is over when it hit a terminal error or its socket ended -/
def connOver (items : List Item) (ended : Bool) : Bool := hasTerminalItem items || ended

/-- the market events among delivered items, as the manager receives them -/
def itemEvents : List Item → List StreamEvent
  | [] => []
  | .ok (k, ev) :: r => .item k ev :: itemEvents r
  | .error _ :: r => itemEvents r

/-- the (non-terminal) errors among delivered items, as the handler receives them -/
def itemErrors : List Item → List PipeError
  | [] => []
  | .ok _ :: r => itemErrors r
  | .error e :: r => e :: itemErrors r

/-- What the manager's stream yields from the connections after the first: a failed `init`
contributes nothing (the back-off waits, the next attempt follows); a successful one its delivered
events, then — if it is over — one `Reconnecting` and whatever the later ones contribute; a
connection that stays open is the last one heard of. -/
def specStream (cfg : Config) : List ConnInput → List StreamEvent
  | [] => []
  | c :: cs =>
    match connItems cfg c with
    | none => specStream cfg cs
    | some items =>
      itemEvents (deliveredItems items) ++
        if connOver items c.ended then .reconnecting :: specStream cfg cs else []

/-- … and what the error handler receives. -/
def specHandled (cfg : Config) : List ConnInput → List PipeError
  | [] => []
  | c :: cs =>
    match connItems cfg c with
    | none => specHandled cfg cs
    | some items =>
      itemErrors (deliveredItems items) ++
        if connOver items c.ended then specHandled cfg cs else []

/-- `init_reconnecting_stream` awaits the first `init` itself: without input it never resolves, and
if the first `init` fails there is no stream at all (`init_market_stream` returns the error). -/
def specFin (cfg : Config) : List ConnInput → Streams.Fin
  | [] => .initPending
  | c :: _ =>
    match connItems cfg c with
    | none => .initError
    | some _ => .pending

/-- every successfully initialised connection of the list is over (so that whatever follows the list
is reached) -/
def allOver (cfg : Config) : List ConnInput → Bool
  | [] => true
  | c :: cs =>
    match connItems cfg c with
    | none => allOver cfg cs
    | some items => connOver items c.ended && allOver cfg cs

/-- the specification of the whole pipeline -/
def specPipeline (cfg : Config) (books : Books) (conns : List ConnInput) : Result :=
  match specFin cfg conns with
  | .pending =>
    { events := specStream cfg conns, handled := specHandled cfg conns,
      books := books.map fun kb => (kb.1, kb.2.run (eventsFor kb.1 (specStream cfg conns))),
      fin := .pending }
  | f => { events := [], handled := [], books := books, fin := f }

/-! ### The state the pipeline is in (what the invariants are about)

`BinanceL2.Conn` (C06) is "one live connection as the consumer sees it": the transformer, the
consumer's books, and whether the connection still delivers. The pipeline moves such a state
through the input: frames act on it through the transformer, a new connection replaces the
transformer and applies its snapshots to the persisting books. -/

/-- the depth updates among frames (everything else never reaches the transformer) -/
def updatesOf (de : De Update) : List Frame → List Update
  | [] => []
  | f :: r =>
    match ExStream.parse de f with
    | some (.ok m) => m :: updatesOf de r
    | _ => updatesOf de r

/-- one frame on a connection state: a depth update goes to C06's `Conn.step`, every other frame
leaves transformer and books alone -/
def frameStep (cfg : Config) (c : Conn) (f : Frame) : Conn :=
  match ExStream.parse cfg.de f with
  | some (.ok m) => c.step cfg.rules m
  | _ => c

/-- the snapshots of a new connection applied by the manager to the persisting books -/
def applySnapshots (books : Books) (snapshots : List MarketEv) : Books :=
  snapshots.foldl (fun bs s => managerStep bs (.item s.1 s.2)) books

/-- a connection (without buffered events) opened on persisting books and run over its frames;
`none`: `init` failed, nothing happens -/
def openConn (cfg : Config) (books : Books) (c : ConnInput) : Option Conn :=
  match Transformer.init cfg.instrumentMap c.snapshots with
  | .error _ => none
  | .ok t =>
    let live := c.frames.foldl (frameStep cfg) ⟨t, applySnapshots books c.snapshots, true⟩
    some { live with alive := live.alive && !c.ended }

/-- the state after the whole input, from a state whose connection is over (or from the start):
each connection is opened only once its predecessor is over -/
def runConns (cfg : Config) : Conn → List ConnInput → Conn
  | st, [] => st
  | st, c :: cs =>
    match openConn cfg st.books c with
    | none => runConns cfg st cs
    | some st' => if st'.alive then st' else runConns cfg st' cs

/-- the state after the whole input. `init_reconnecting_stream` awaits the first `init` itself: if it
fails there is no stream at all and nothing ever happens to the books. -/
def pipelineState (cfg : Config) (books : Books) : List ConnInput → Conn
  | [] => ⟨⟨[]⟩, books, false⟩
  | c :: cs =>
    match openConn cfg books c with
    | none => ⟨⟨[]⟩, books, false⟩
    | some _ => runConns cfg ⟨⟨[]⟩, books, false⟩ (c :: cs)

/-! ### Executable oracle (what `drv_c06e spec` runs): ids and ground truth only

Per subscribed instrument the oracle tracks the snapshot id, the number of admitted messages and the
last id (`SpecInstrument`, C06) and whether the instrument's book is *constrained* (its snapshot was
the venue's book and every message admitted since was genuine); per pipeline whether a connection is
open and delivering, how many `Reconnecting` notices the consumer has received and how many errors
the handler. The book it expects is computed from the venue's history (`specBook`), never from the
frames' levels. -/

/-- what a frame is, by the protocol's own classification (C12W `disposition`) and the deserialiser -/
inductive FrameKind where
  /-- a data payload that deserialises to a depth update -/
  | update (m : Update)
  /-- a data payload that does not deserialise, a close frame, a transport error: an error item -/
  | failure
  /-- protocol housekeeping: safe to skip -/
  | skip
  deriving Repr, Inhabited

def frameKind (de : De Update) (f : Frame) : FrameKind :=
  match f with
  | .ok (.text t) =>
    match de.text t with
    | some m => .update m
    | none => .failure
  | .ok (.binary b) =>
    match de.binary b with
    | some m => .update m
    | none => .failure
  | _ =>
    match disposition f with
    | .housekeeping => .skip
    | _ => .failure

structure OInst where
  sub : Nat
  key : Nat
  venue : Venue
  constrained : Bool
  inst : SpecInstrument
  /-- `depth k n`: the REST snapshots of this instrument hold the best `n` levels per side only (the
  code's fetchers request `limit=100`); `none`: full depth -/
  limit : Option Nat := none
  /-- the snapshot the current connection started this instrument from -/
  snapshot : Option OrderBook := none
  /-- the prices written by the updates admitted since that snapshot -/
  written : List (Side × Rat) := []
  deriving Repr, Inhabited

structure Oracle where
  rules : Rules
  insts : List OInst
  fin : Streams.Fin
  live : Bool
  /-- a further connection was prepared while one is open and its socket silent for good: `init` is
  never invoked again, nothing of the later input is ever read -/
  blocked : Bool
  notices : Nat
  errors : Nat
  deriving Repr, Inhabited

def Oracle.init (rules : Rules) (insts : List (Nat × Nat × Venue)) : Oracle :=
  ⟨rules, insts.map fun x => { sub := x.1, key := x.2.1, venue := x.2.2, constrained := false, inst := ⟨0, 0⟩ },
    .initPending, false, false, 0, 0⟩

/-- the first initial event of an instrument, if it is a snapshot -/
def firstSnapshot (snapshots : List MarketEv) (key : Nat) : Option OrderBook :=
  match snapshots.find? (fun s => s.1 == key) with
  | some (_, .snapshot b) => some b
  | _ => none

/-- the state of the instruments of a connection that has just come up: every instrument restarts at
its snapshot's id; its book will be constrained iff that snapshot is the only initial event of the
instrument and is the venue's book at its id -/
def freshInsts (insts : List OInst) (snapshots : List MarketEv) : List OInst :=
  insts.map fun i =>
    match firstSnapshot snapshots i.key with
    | none => i
    | some b =>
      -- the REST answer: the venue's book as of its id, cut to the declared depth (if any)
      let truth := match i.limit with
        | none => specBook i.venue b.sequence
        | some n => truncateBook n (specBook i.venue b.sequence)
      { i with
        inst := ⟨0, b.sequence⟩
        snapshot := some b
        written := []
        constrained := (snapshots.filter fun s => s.1 == i.key).length == 1 && decide (b = truth) }

/-- The messages buffered during subscription validation are handed out *before* the snapshots
(`lib.rs:251-261`). Skips and parse failures among them are dropped; an update for an unknown symbol
is an error item; an update the venue's rule admits (judged from the new snapshot's id) advances the
instrument's ids and is applied to whatever book the consumer holds — that book is no longer
constrained, and the snapshot delivered later will overwrite it without resetting the ids; an update
the rule rejects ends the connection before any snapshot is delivered (`error`: the subscriptions
whose books were touched before the break). The number counts the error items handed out. -/
def bufferedPhase (rules : Rules) :
    List OInst → List Nat → Nat → List FrameKind → Except (List Nat × Nat) (List OInst × Nat)
  | insts, _, errs, [] => .ok (insts, errs)
  | insts, touched, errs, .update m :: rest =>
    match insts.find? (fun i => i.sub == m.sub) with
    | none => bufferedPhase rules insts touched (errs + 1) rest
    | some i =>
      match i.inst.step rules m with
      | (_, .ignored) => bufferedPhase rules insts touched errs rest
      | (inst', .extended) =>
        bufferedPhase rules
          (insts.map fun j => if j.sub == m.sub then { j with inst := inst', constrained := false } else j)
          (m.sub :: touched) errs rest
      | (_, .told) => .error (touched, errs)
  | insts, touched, errs, _ :: rest => bufferedPhase rules insts touched errs rest

/-- A new connection is attempted. It is reached only when no connection is open. It comes up iff
every subscribed instrument's first initial event is a snapshot (if the very first attempt fails there
is no stream at all). Then the buffered messages are handed out, then the snapshots: unless the
buffered phase already ended the connection (a notice; the books keep what they held, except those a
buffered update was applied to), every instrument restarts at its snapshot. -/
def Oracle.openConn (o : Oracle) (snapshots : List MarketEv) (buffered : List FrameKind) : Oracle :=
  if o.fin = .initError ∨ o.blocked then o else
  if o.live then { o with blocked := true } else
  if o.insts.all fun i => (firstSnapshot snapshots i.key).isSome then
    match bufferedPhase o.rules (freshInsts o.insts snapshots) [] 0 buffered with
    | .ok (insts, errs) => { o with fin := .pending, live := true, insts := insts, errors := o.errors + errs }
    | .error (touched, errs) =>
      { o with fin := .pending, notices := o.notices + 1, errors := o.errors + errs,
               insts := o.insts.map fun i => if touched.contains i.sub then { i with constrained := false } else i }
  else if o.fin = .initPending then { o with fin := .initError } else o

/-- one frame: nothing is read unless a connection is open; a skip changes nothing; a failure goes to
the error handler; a depth update for an unknown symbol goes to the error handler; one for a
subscribed instrument is judged by the venue's rule (`SpecInstrument.step`): ignored, extended (the
book moves to the venue's book at `u` — if the message is genuine), or told: the connection is over
and the consumer receives a notice. -/
def Oracle.frame (o : Oracle) (k : FrameKind) : Oracle :=
  if !o.live || o.blocked then o else
  match k with
  | .skip => o
  | .failure => { o with errors := o.errors + 1 }
  | .update m =>
    match o.insts.find? (fun i => i.sub == m.sub) with
    | none => { o with errors := o.errors + 1 }
    | some i =>
      match i.inst.step o.rules m with
      | (_, .ignored) => o
      | (inst', .extended) =>
        { o with insts := o.insts.map fun j =>
            if j.sub == m.sub then
              { j with inst := inst', constrained := j.constrained && decide (GenuineMsg o.rules j.venue m),
                       written := (m.bids.map fun l => (Side.bids, l.price)) ++
                         (m.asks.map fun l => (Side.asks, l.price)) ++ j.written }
            else j }
      | (_, .told) => { o with live := false, notices := o.notices + 1 }

/-- the socket ended: the connection is over and the consumer receives a notice -/
def Oracle.eos (o : Oracle) : Oracle :=
  if o.live && !o.blocked then { o with live := false, notices := o.notices + 1 } else o

/-- the book the consumer must hold for a constrained instrument -/
def OInst.expected (i : OInst) : OrderBook := specBook i.venue i.inst.last

/-- the whole-book claim is stated when the snapshot is the venue's FULL book: no depth limit declared, or
the limit cuts nothing (both sides of the snapshot hold fewer levels than the limit) -/
def OInst.full (i : OInst) : Bool :=
  match i.limit, i.snapshot with
  | none, _ => true
  | some n, some b => decide (b.bids.length < n) && decide (b.asks.length < n)
  | some _, none => false

/-- the prices at which the per-level claim is stated for a depth-limited instrument
(`Props.C06.book_is_truth_on`, `Props.C06E.pipeline_book_is_truth_on`) -/
def OInst.known (i : OInst) (sd : Side) (p : Rat) : Bool :=
  match i.limit, i.snapshot with
  | some n, some b => knownPrice n b i.written i.venue i.inst.last sd p
  | _, _ => false

/-- … and the amount claimed there: the venue's, as of the id the instrument reports -/
def OInst.expectedAt (i : OInst) (sd : Side) (p : Rat) : Rat := abs (specSide i.venue i.inst.last sd) p

/-! ### The manager's cells with the code's own search (review of the sub-checks, report_A C06E-3)

`OrderBook.update` / `managerRun` (C05, `Model/Book.lean`) model `upsert_single`'s
`binary_search_by` by a front-to-back scan, which is what a binary search returns on a side whose prices
are pairwise distinct. A REST snapshot goes unvalidated into `OrderBook::new` (sort only, no
de-duplication: `exchange/binance/book/l2.rs`, `books/mod.rs:148-185`), so a snapshot listing a price
twice leaves a side on which scan and binary search pick different levels. What the real manager's cells
hold is the run with the real search — `BookManager.upsertBS` (C05M's model of `binary_search_by`, tied to
the code by C05M's correspondence, dirty sides included). `drv_c06e model` prints these books;
`Props.C06E.books_follow_the_code_search` shows they are `managerRun`'s whenever every snapshot side is
strictly ordered, `repeated_price_snapshot_witness` shows the difference at the excluded point. -/

/-- `OrderBook::update` with `upsert_single`'s real binary search -/
def updateBS (b : OrderBook) : Event → OrderBook
  | .snapshot snapshot => snapshot
  | .update update =>
    { sequence := update.sequence
      bids := BookManager.upsertBS .bids b.bids update.bids
      asks := BookManager.upsertBS .asks b.asks update.asks }

/-- one iteration of `OrderBookL2Manager::run` with the real search -/
def managerStepBS (books : Books) : StreamEvent → Books
  | .reconnecting => books
  | .item k ev => books.map fun (k', b) => if k' = k then (k', updateBS b ev) else (k', b)

def managerRunBS (books : Books) (stream : List StreamEvent) : Books :=
  stream.foldl managerStepBS books

/-- the cells of the real manager after the pipeline's events -/
def Result.booksBS (r : Result) (books0 : Books) : Books := managerRunBS books0 r.events


end BarterModel.L2Pipeline
