import BarterModel.Model.Orders
/-
Model of the staleness guards of the engine state (C09):
  `AssetState::update_from_balance`            barter/src/engine/state/asset/mod.rs:116-129   (`<=`)
  `DefaultInstrumentMarketData::process`       barter/src/engine/state/instrument/data.rs:85-108
        Trade: `is_none_or(price.time < event.time_exchange)`                                  (`<`)
        OrderBookL1: `self.l1.last_update_time < event.time_exchange` then `self.l1 = l1.clone()`
  routing: `EngineState::update_from_account` (BalanceSnapshot, Snapshot.balances item by item)
           and `EngineState::update_from_market` (state/mod.rs:101-189)
  open-order reports: `Orders` of C01 (Model/Orders.lean).

A held item is `Option (time × value)`; times are `Int` (ms). The default `OrderBookL1` (epoch
timestamp, no levels) is `none`: every generated time is after the Unix epoch, so the first L1
always passes the guard (documented precondition).
-/
namespace BarterModel.Stale

abbrev Msg (α : Type) := Int × α

/-- The guard shared by the three registers: `strict = false` is `held.time <= msg.time`
(balance), `strict = true` is `held.time < msg.time` (last trade, L1). -/
def passes (strict : Bool) (held msg : Int) : Bool :=
  if strict then decide (held < msg) else decide (held ≤ msg)

def upd {α : Type} (strict : Bool) (h : Option (Msg α)) (m : Msg α) : Option (Msg α) :=
  match h with
  | none => some m
  | some c => if passes strict c.1 m.1 then some m else some c

def deliver {α : Type} (strict : Bool) (h : Option (Msg α)) (ms : List (Msg α)) : Option (Msg α) :=
  ms.foldl (upd strict) h

/-- `Balance { total, free }`. -/
abbrev Bal := Rat × Rat
/-- `OrderBookL1` payload: its own `last_update_time` and best bid/ask (price, amount). -/
structure L1 where
  tl : Int
  bidP : Rat
  bidA : Rat
  askP : Rat
  askA : Rat
  deriving DecidableEq, Repr

/-- `DefaultInstrumentMarketData`. -/
structure MarketData where
  l1 : Option L1
  lastTrade : Option (Msg Rat)
  deriving DecidableEq, Repr

def MarketData.init : MarketData := ⟨none, none⟩

/-- `DataKind::Trade` arm (data.rs:91-101). -/
def MarketData.trade (d : MarketData) (te : Int) (price : Rat) : MarketData :=
  { d with lastTrade := upd true d.lastTrade (te, price) }

/-- `DataKind::OrderBookL1` arm (data.rs:102-106): guard compares the held payload time with the
EVENT time, then stores the payload (which carries its own time). -/
def MarketData.bookL1 (d : MarketData) (te : Int) (l1 : L1) : MarketData :=
  match d.l1 with
  | none => { d with l1 := some l1 }
  | some c => if c.tl < te then { d with l1 := some l1 } else d

/-- Engine state restricted to what C09 is about. -/
structure Eng where
  assets : List (Option (Msg Bal))
  data : List MarketData
  deriving DecidableEq, Repr

def Eng.init (nAssets nInstruments : Nat) : Eng :=
  ⟨List.replicate nAssets none, List.replicate nInstruments MarketData.init⟩

def modifyAt {α : Type} (l : List α) (i : Nat) (f : α → α) : List α :=
  match l[i]? with
  | some x => l.set i (f x)
  | none => l

/-- `AccountEventKind::BalanceSnapshot` → `asset_index_mut(asset).update_from_balance`. -/
def Eng.balance (e : Eng) (a : Nat) (m : Msg Bal) : Eng :=
  { e with assets := modifyAt e.assets a (fun h => upd false h m) }

/-- `AccountEventKind::Snapshot`: balances item by item (state/mod.rs:115-120). -/
def Eng.fullSnapshot (e : Eng) (items : List (Nat × Msg Bal)) : Eng :=
  items.foldl (fun e (am : Nat × Msg Bal) => e.balance am.1 am.2) e

def Eng.trade (e : Eng) (i : Nat) (te : Int) (p : Rat) : Eng :=
  { e with data := modifyAt e.data i (fun d => d.trade te p) }

def Eng.bookL1 (e : Eng) (i : Nat) (te : Int) (l1 : L1) : Eng :=
  { e with data := modifyAt e.data i (fun d => d.bookL1 te l1) }

/-! ### Abstract spec (from the property text): greatest timestamp delivered so far, with a value
delivered with that timestamp. -/

/-- greatest time among delivered messages (`none` when nothing was delivered) -/
def maxTime {α : Type} (ms : List (Msg α)) : Option Int :=
  ms.foldl (fun acc m => match acc with
    | none => some m.1
    | some t => if t < m.1 then some m.1 else some t) none

/-- the values that were delivered with the greatest time -/
def valuesAtMax {α : Type} (ms : List (Msg α)) : List α :=
  match maxTime ms with
  | none => []
  | some t => (ms.filter (fun m => m.1 == t)).map (·.2)

end BarterModel.Stale
