/-
Model of one backtest and of N concurrent backtests
(`barter/src/backtest/mod.rs:83-250`, `barter/src/backtest/market_data.rs:41-57`,
`barter/src/system/builder.rs:343-450` (`init_internal`), `barter/src/system/mod.rs:97-130`
(`shutdown_after_backtest`), `barter/src/engine/run.rs:131-170` (`async_run`),
`barter-data/src/streams/reconnect/stream.rs:131-138` (`forward_to`)).

A backtest is a small concurrent system: a market forwarder, an account forwarder, the engine task
and the `backtest()` future that sends `Shutdown`. They communicate through one unbounded FIFO feed.
The model keeps the engine and the (mock) exchange ABSTRACT (`Engine`, `Exchange` are records of
functions), and makes every scheduling decision of tokio an explicit `Act` chosen by an arbitrary
scheduler; theorems then quantify over every action list, every engine and every exchange.

What is merged / over-approximated: the execution manager, the mock exchange task and the response
`sleep` are one step (`respondAll`) whose outputs land in `pending`; the account forwarder may pick
ANY pending response (`fwdAccount k`), which covers the `merge` of the response channel with the
notification stream and the independently sleeping response tasks. N backtests are N such machines
that share nothing (`Sys`); that the Rust program has no hidden shared mutable state (`Arc`s are
read-only, no globals) is NOT modelled here - only the correspondence run probes it.
-/
namespace BarterModel.Backtest

/-- `EngineEvent` restricted to what a backtest feeds (`barter/src/lib.rs:118-131`). -/
inductive Ev (μ α : Type) where
  | market (m : μ)
  | account (a : α)
  | shutdown
  deriving DecidableEq, Repr

def Ev.market? {μ α : Type} : Ev μ α → Option μ
  | .market m => some m
  | _ => none

def Ev.account? {μ α : Type} : Ev μ α → Option α
  | .account a => some a
  | _ => none

/-- The market events of a feed / history, in order. -/
def marketOf {μ α : Type} (l : List (Ev μ α)) : List μ := l.filterMap Ev.market?

/-- The account events of a feed / history, in order. -/
def accountOf {μ α : Type} (l : List (Ev μ α)) : List α := l.filterMap Ev.account?

/-- Market events that sit behind the first `Shutdown` of a feed (they would never be processed). -/
def afterSd {μ α : Type} : List (Ev μ α) → List μ
  | [] => []
  | .shutdown :: rest => marketOf rest
  | _ :: rest => afterSd rest

/-- An engine: `Engine::process` (`engine/mod.rs:143-190`) as a function of state and event returning
the new state and the execution requests sent on this tick; `fatal` says that the tick's audit carries
an unrecoverable error (`ProcessAudit::is_terminal`, `audit/mod.rs:170-177`). Strategy, risk manager,
instrument data, global data are all inside `σ`/`process`, so theorems cover every choice of them. -/
structure Engine (σ μ α ρ : Type) where
  process : σ → Ev μ α → σ × List ρ
  fatal : σ → Ev μ α → Bool

/-- The execution side (execution manager + mock exchange): consumes requests in FIFO order and
produces the account events they cause (`exchange/mock/mod.rs:72-125`). -/
structure Exchange (χ ρ α : Type) where
  respond : χ → ρ → χ × List α

def respondAll {χ ρ α : Type} (X : Exchange χ ρ α) (x : χ) : List ρ → χ × List α
  | [] => (x, [])
  | r :: rs =>
    let (x1, a1) := X.respond x r
    let (x2, a2) := respondAll X x1 rs
    (x2, a1 ++ a2)

inductive Stop where
  /-- the engine processed `Shutdown` (`EngineEvent::is_terminal`) -/
  | shutdown
  /-- the engine stopped on a tick with unrecoverable errors -/
  | fatal
  deriving DecidableEq, Repr

/-- One running backtest (`System` + its tasks). -/
structure BT (σ χ μ α : Type) where
  /-- engine state (owned by the engine task) -/
  eng : σ
  /-- execution side state -/
  exch : χ
  /-- dataset events the market forwarder has not sent yet (`market_data.rs:52-54`: index order) -/
  market : List μ
  /-- account events produced but not yet forwarded into the feed -/
  pending : List α
  /-- the engine feed (`mpsc_unbounded`, FIFO) -/
  feed : List (Ev μ α)
  /-- `shutdown_after_backtest` has passed `feed_tx.send(Shutdown)` -/
  shutdownSent : Bool
  /-- the engine task has returned, and why -/
  stopped : Option Stop
  /-- `feed_tx.send(Shutdown).expect("Engine cannot drop Feed receiver")` hit a closed channel -/
  crashed : Bool
  /-- ghost: every event the engine processed, in order (what a recording GlobalData sees) -/
  processed : List (Ev μ α)

/-- `backtest()` up to `SystemBuild::init` (`backtest/mod.rs:196-236`): fresh engine state (a clone of
the shared `engine_state`), fresh execution side, the whole dataset still to be forwarded, the
execution side's initial account events (account snapshot) pending. -/
def BT.init {σ χ μ α : Type} (eng0 : σ) (exch0 : χ) (ds : List μ) (acc0 : List α) : BT σ χ μ α :=
  { eng := eng0, exch := exch0, market := ds, pending := acc0, feed := [], shutdownSent := false,
    stopped := none, crashed := false, processed := [] }

/-- Scheduling decisions. -/
inductive Act where
  /-- the market forwarder sends its next event (`forward_to`, stream.rs:137) -/
  | fwdMarket
  /-- the account path delivers the `k`-th pending account event into the feed -/
  | fwdAccount (k : Nat)
  /-- `shutdown_after_backtest`: after `market_to_engine.await`, `feed_tx.send(Shutdown)` (system/mod.rs:118-123) -/
  | sendShutdown
  /-- the engine task takes the next feed event (`async_run`, run.rs:146-158) -/
  | engine
  deriving DecidableEq, Repr

def isShutdown {μ α : Type} : Ev μ α → Bool
  | .shutdown => true
  | _ => false

/-- The market forwarder sends its next event (`forward_to`, stream.rs:137). -/
def stepFwdMarket {σ χ μ α : Type} (s : BT σ χ μ α) : BT σ χ μ α :=
  match s.market with
  | [] => s
  | m :: ms =>
    -- `map_while(|event| tx.send(..).ok())`: a closed feed ends the forwarder, the rest is dropped
    if s.stopped.isSome then { s with market := [] }
    else { s with market := ms, feed := s.feed ++ [.market m] }

/-- The account path delivers the `k`-th pending account event into the feed. -/
def stepFwdAccount {σ χ μ α : Type} (s : BT σ χ μ α) (k : Nat) : BT σ χ μ α :=
  match s.pending[k]? with
  | none => s
  | some a =>
    if s.stopped.isSome then { s with pending := s.pending.eraseIdx k }
    else { s with pending := s.pending.eraseIdx k, feed := s.feed ++ [.account a] }

/-- `shutdown_after_backtest` (system/mod.rs:118-123): enabled once the market forwarder task has
finished, once; a closed feed makes the `expect` panic. -/
def stepSendShutdown {σ χ μ α : Type} (s : BT σ χ μ α) : BT σ χ μ α :=
  if !s.market.isEmpty || s.shutdownSent then s
  else if s.stopped.isSome then { s with shutdownSent := true, crashed := true }
  else { s with shutdownSent := true, feed := s.feed ++ [.shutdown] }

/-- One iteration of `async_run` (run.rs:146-158) plus the execution side's reaction to the requests
of this tick. -/
def stepEngine {σ χ μ α ρ : Type} (E : Engine σ μ α ρ) (X : Exchange χ ρ α) (s : BT σ χ μ α) :
    BT σ χ μ α :=
  if s.stopped.isSome then s else
  match s.feed with
  | [] => s
  | e :: rest =>
    let r := E.process s.eng e
    let x := respondAll X s.exch r.2
    { s with
      eng := r.1, exch := x.1, feed := rest, pending := s.pending ++ x.2,
      processed := s.processed ++ [e],
      stopped := if isShutdown e then some .shutdown
                 else if E.fatal s.eng e then some .fatal else none }

/-- One scheduling step of one backtest. A disabled action leaves the state unchanged. -/
def step {σ χ μ α ρ : Type} (E : Engine σ μ α ρ) (X : Exchange χ ρ α) (s : BT σ χ μ α) :
    Act → BT σ χ μ α
  | .fwdMarket => stepFwdMarket s
  | .fwdAccount k => stepFwdAccount s k
  | .sendShutdown => stepSendShutdown s
  | .engine => stepEngine E X s

/-- Run a schedule. -/
def run {σ χ μ α ρ : Type} (E : Engine σ μ α ρ) (X : Exchange χ ρ α) (s : BT σ χ μ α)
    (acts : List Act) : BT σ χ μ α :=
  acts.foldl (step E X) s

/-- The engine state obtained by feeding a history to a fresh engine, alone and synchronously. -/
def engFold {σ μ α ρ : Type} (E : Engine σ μ α ρ) (e0 : σ) (h : List (Ev μ α)) : σ :=
  h.foldl (fun e ev => (E.process e ev).1) e0

/-- The execution requests an engine sends while processing a history, in order. -/
def requestsOf {σ μ α ρ : Type} (E : Engine σ μ α ρ) (e0 : σ) : List (Ev μ α) → List ρ
  | [] => []
  | ev :: h => (E.process e0 ev).2 ++ requestsOf E (E.process e0 ev).1 h

/-- The engine state after the market events `ms` only (no account event at all). -/
def marketFold {σ μ α ρ : Type} (E : Engine σ μ α ρ) (e0 : σ) (ms : List μ) : σ :=
  ms.foldl (fun e m => (E.process e (.market m)).1) e0

/-- `backtest()`'s result (`backtest/mod.rs:240-249`): a function (`summarise` = the trading summary
generator) of the engine returned by `shutdown_after_backtest`, and of nothing else. -/
def summary {σ χ μ α β : Type} (summarise : σ → β) (s : BT σ χ μ α) : β := summarise s.eng

/-! ## N concurrent backtests (`run_backtests`, `backtest/mod.rs:83-150`): `try_join_all` over N
`backtest()` futures = N machines; a global scheduler picks a machine and an action. -/

abbrev Sys (σ χ μ α : Type) := List (BT σ χ μ α)

def sysStep {σ χ μ α ρ : Type} (E : Engine σ μ α ρ) (X : Exchange χ ρ α) (sys : Sys σ χ μ α)
    (ia : Nat × Act) : Sys σ χ μ α :=
  sys.modify ia.1 (fun s => step E X s ia.2)

def sysRun {σ χ μ α ρ : Type} (E : Engine σ μ α ρ) (X : Exchange χ ρ α) (sys : Sys σ χ μ α)
    (acts : List (Nat × Act)) : Sys σ χ μ α :=
  acts.foldl (sysStep E X) sys

/-- The actions of a global schedule that concern machine `i`. -/
def proj (i : Nat) (acts : List (Nat × Act)) : List Act :=
  acts.filterMap (fun ia => if ia.1 = i then some ia.2 else none)

/-! ## Abstract spec (from the property text, not from the code)

A backtest over dataset `ds` whose engine stopped on `Shutdown` has shown its engine exactly the
events of `ds`, each once, in dataset order, all before the `Shutdown`; the engine it reports on is
the one that saw this history and only this history. -/

/-- "every event of the dataset exactly once, in dataset order, before shutting down". -/
def SpecConsumed {μ α : Type} [DecidableEq μ] [DecidableEq α] (ds : List μ) (history : List (Ev μ α)) : Bool :=
  match history.reverse with
  | .shutdown :: pre => marketOf pre.reverse == ds && !(pre.any isShutdown)
  | _ => false

/-! ## Schedulers used by the driver (they only PRODUCE action lists; the state is always computed by
`run`, the function the theorems are about). -/

/-- Produce the action list of a state-dependent scheduling policy. -/
def schedActs {σ χ μ α ρ : Type} (E : Engine σ μ α ρ) (X : Exchange χ ρ α)
    (pick : BT σ χ μ α → Option Act) : Nat → BT σ χ μ α → List Act
  | 0, _ => []
  | fuel + 1, s =>
    match pick s with
    | none => []
    | some a => a :: schedActs E X pick fuel (step E X s a)

/-- What small in-memory datasets show on the real runtime: the forwarder pushes the whole dataset,
`Shutdown` follows, the engine then drains the feed; execution responses come too late. -/
def pickLazy {σ χ μ α : Type} (s : BT σ χ μ α) : Option Act :=
  if !s.market.isEmpty then some .fwdMarket
  else if !s.shutdownSent then some .sendShutdown
  else if s.stopped.isNone && !s.feed.isEmpty then some .engine
  else none

/-- The other extreme: every account event is delivered and processed before anything else moves. -/
def pickEager {σ χ μ α : Type} (s : BT σ χ μ α) : Option Act :=
  if s.stopped.isSome then none
  else if !s.pending.isEmpty then some (.fwdAccount 0)
  else if !s.feed.isEmpty then some .engine
  else if !s.market.isEmpty then some .fwdMarket
  else if !s.shutdownSent then some .sendShutdown
  else none

/-- Round-robin interleaving of per-machine schedules into a global schedule. -/
def interleave : Nat → List (List Act) → List (Nat × Act)
  | 0, _ => []
  | fuel + 1, ls =>
    if ls.all List.isEmpty then [] else
    let heads := (ls.zipIdx.filterMap fun (l, i) => l.head?.map fun a => (i, a))
    heads ++ interleave fuel (ls.map List.tail)

/-! ## A concrete engine / exchange for the driver: the harness's recording state and plan strategy

Market stream event = trade `(id, instrument, price)` or disconnect notice; the engine records ids (globally and per instrument),
keeps the last price per instrument, a signed position and a cash flow per instrument, and a balance
per asset (asset `j < k` = base of instrument `j`, asset `k` = quote). The strategy is the harness's
`PlanStrategy` (`harness/src/bin/c20.rs`): item `(trigger, inst, side, qty)` is sent as a market
order at the last price once `trigger` market events have been processed; it never looks at
account-side state. The exchange is `MockExchange::open_order` for market orders with zero fees
(`exchange/mock/mod.rs:232-345`): Buy debits quote by `price*qty`, Sell debits base by `qty`, an
insufficient balance rejects. -/

/-- One element of the dataset (`MarketStreamEvent<InstrumentIndex, DataKind>`): an `Item` (trade
`id` on instrument `inst` at `price`) or, when `marker` is set, a `Reconnecting(exchange)` notice.
The model's `μ` is the whole stream event type, so `marketOf`, `consumes_all` … count notices like
any other dataset element. -/
structure MktEv where
  id : Nat
  inst : Nat
  price : Nat
  marker : Bool
  deriving DecidableEq, Repr

def MktEv.trade (id inst price : Nat) : MktEv := ⟨id, inst, price, false⟩
def MktEv.reconnecting (id : Nat) : MktEv := ⟨id, 0, 0, true⟩

inductive Side where
  | buy | sell
  deriving DecidableEq, Repr

structure PlanItem where
  trigger : Nat
  inst : Nat
  side : Side
  qty : Nat
  deriving DecidableEq, Repr

structure Req where
  idx : Nat
  item : PlanItem
  price : Nat
  deriving DecidableEq, Repr

inductive AccEv where
  | snapshot (bals : List Int)
  | order (idx : Nat) (filled : Bool)
  | balance (asset : Nat) (total : Int)
  | trade (inst : Nat) (side : Side) (qty : Nat) (price : Nat)
  deriving DecidableEq, Repr

/-- The part of the engine state that market events and the strategy touch. -/
structure MView where
  plan : List PlanItem
  next : Nat
  nMkt : Nat
  /-- the market stream as the engine saw it: `some id` = Item (recording GlobalData), `none` =
  disconnect notice (recording `OnDisconnectStrategy`) -/
  seen : List (Option Nat)
  instSeen : List (List Nat)
  price : List (Option Nat)
  reqs : List Req
  deriving DecidableEq, Repr

/-- The part of the engine state that account events touch. -/
structure AView where
  pos : List Int
  cash : List Int
  bal : List Int
  deriving DecidableEq, Repr

structure CEng where
  mv : MView
  av : AView
  deriving DecidableEq, Repr

/-- `PlanStrategy::generate_algo_orders`: send every due plan item whose instrument has a price. -/
def stratEmit : Nat → MView → MView × List Req
  | 0, v => (v, [])
  | fuel + 1, v =>
    match v.plan[v.next]? with
    | none => (v, [])
    | some item =>
      if item.trigger ≤ v.nMkt then
        match (v.price[item.inst]?).join with
        | none => (v, [])
        | some p =>
          let r : Req := ⟨v.next, item, p⟩
          let res := stratEmit fuel { v with next := v.next + 1, reqs := v.reqs ++ [r] }
          (res.1, r :: res.2)
      else (v, [])

def modifyAt {β : Type} (l : List β) (i : Nat) (f : β → β) : List β := l.modify i f

/-- `Engine::update_from_market_stream` (engine/mod.rs:300-318): a `Reconnecting` notice only reaches
the on-disconnect strategy (and the connectivity state, C14); an `Item` updates global and
instrument data. -/
def MView.onMarket (v : MView) (m : MktEv) : MView :=
  if m.marker then { v with seen := v.seen ++ [none] }
  else
    { v with nMkt := v.nMkt + 1, seen := v.seen ++ [some m.id],
             instSeen := modifyAt v.instSeen m.inst (· ++ [m.id]),
             price := v.price.set m.inst (some m.price) }

def AView.onAccount (v : AView) : AccEv → AView
  | .snapshot bals => { v with bal := bals }
  | .order _ _ => v
  | .balance a t => { v with bal := v.bal.set a t }
  | .trade i sd q p =>
    match sd with
    | .buy => { v with pos := modifyAt v.pos i (· + (q : Int)), cash := modifyAt v.cash i (· - (q * p : Nat)) }
    | .sell => { v with pos := modifyAt v.pos i (· - (q : Int)), cash := modifyAt v.cash i (· + (q * p : Nat)) }

/-- `Engine::process` for the concrete engine: update, then (trading enabled) consult the strategy;
`Shutdown` returns before the strategy is consulted. -/
def cProcess (s : CEng) : Ev MktEv AccEv → CEng × List Req
  | .shutdown => (s, [])
  | .market m =>
    let v := s.mv.onMarket m
    let r := stratEmit (v.plan.length + 1) v
    ({ s with mv := r.1 }, r.2)
  | .account a =>
    let r := stratEmit (s.mv.plan.length + 1) s.mv
    ({ mv := r.1, av := s.av.onAccount a }, r.2)

/-- The strategy has nothing more to send in this state (it was consulted since the last change). -/
def Settled (s : CEng) : Prop := ∀ fuel, stratEmit fuel s.mv = (s.mv, [])

def cEngine : Engine CEng MktEv AccEv Req := { process := cProcess, fatal := fun _ _ => false }

structure CExch where
  k : Nat
  bal : List Int
  deriving DecidableEq, Repr

def cRespond (x : CExch) (r : Req) : CExch × List AccEv :=
  match r.item.side with
  | .buy =>
    let cost : Int := (r.price * r.item.qty : Nat)
    let cur := x.bal.getD x.k 0
    if cost ≤ cur ∧ r.item.inst < x.k then
      ({ x with bal := x.bal.set x.k (cur - cost) },
       [.order r.idx true, .balance x.k (cur - cost), .trade r.item.inst .buy r.item.qty r.price])
    else (x, [.order r.idx false])
  | .sell =>
    let cur := x.bal.getD r.item.inst 0
    if (r.item.qty : Int) ≤ cur ∧ r.item.inst < x.k then
      ({ x with bal := x.bal.set r.item.inst (cur - r.item.qty) },
       [.order r.idx true, .balance r.item.inst (cur - r.item.qty), .trade r.item.inst .sell r.item.qty r.price])
    else (x, [.order r.idx false])

def cExchange : Exchange CExch Req AccEv := { respond := cRespond }

def initBals (k : Nat) : List Int := List.replicate k 100 ++ [100000]

def cEng0 (k : Nat) (plan : List PlanItem) : CEng :=
  { mv := { plan := plan, next := 0, nMkt := 0, seen := [], instSeen := List.replicate k [],
            price := List.replicate k none, reqs := [] },
    av := { pos := List.replicate k 0, cash := List.replicate k 0, bal := initBals k } }

def cInit (k : Nat) (plan : List PlanItem) (ds : List MktEv) : BT CEng CExch MktEv AccEv :=
  BT.init (cEng0 k plan) { k := k, bal := initBals k } ds [.snapshot (initBals k)]

/-- What the property calls fills / final positions / balances / realised PnL (cash flow per
instrument: with zero fees the realised PnL of a flat position is its cash flow). -/
def cSummarise (s : CEng) : AView := s.av

/-! ## Long datasets given by a formula, observed through digests (`longdata n k rp ro pm tm`)

The property speaks of ALL datasets; the list-recording engine above (`seen := seen ++ [id]`) is
quadratic in the dataset length and is only run on short ones. For datasets of 10^4 - 10^5 events the
driver runs `lEngine`: the same strategy (`stratEmit`, same `plan / next / nMkt / price / reqs`), but it
records a DIGEST of the market stream it processes instead of the list: counts, the first index at
which the stream differs from the dataset, a cursor that counts repeats and positions jumped over, a
rolling hash of the content, and per instrument a count and a hash of the ids. `Props/C20.lean` proves
that the digest is exactly the digest of what `cEngine` records (`long_digest_refines_recording`), that
it is a `MarketView` (schedule independent, `long_market_view`) and what it is on an intact dataset
(`long_digest_of_dataset`). -/

/-- `longdata n k rp ro pm tm` (`harness/src/bin/c20.rs`, `long_event`). -/
structure LParams where
  n : Nat
  k : Nat
  rp : Nat
  ro : Nat
  pm : Nat
  tm : Nat
  deriving DecidableEq, Repr

/-- One element of a long dataset: the stream event plus what `MktEv` does not carry (trade side,
exchange time in ms). -/
structure LEv where
  ev : MktEv
  sell : Bool
  time : Nat
  deriving DecidableEq, Repr

/-- position `pos` holds a `Reconnecting` marker -/
def LParams.isMarker (p : LParams) (pos : Nat) : Bool := decide (0 < p.rp) && pos % p.rp == p.ro

/-- the dataset element at position `pos`: a function of the position alone -/
def genEv (p : LParams) (pos : Nat) : LEv :=
  if p.isMarker pos then ⟨.reconnecting pos, false, 0⟩
  else
    let i := (pos + pos / 3) % p.k
    ⟨.trade pos i (50 + 50 * i + pos % p.pm), pos % 3 == 1, 1 + pos * p.tm⟩

def genData (p : LParams) : List LEv := (List.range p.n).map (genEv p)

/-- the dataset as the engine's recorder would show it: `some id` for an Item, `none` for a marker -/
def LParams.tok (p : LParams) (pos : Nat) : Option Nat := if p.isMarker pos then none else some pos

def hashMod : Nat := 4294967291

/-- rolling hash step shared with the harness (`mix`); all intermediate values stay below 2^53 -/
def mix (h x : Nat) : Nat := (h * 1000003 + x + 1) % hashMod

/-- content of one stream event: id (+1; a marker mixes 0), instrument, price, side, exchange time -/
def mixEv (h : Nat) (e : LEv) : Nat :=
  if e.ev.marker then mix h 0
  else mix (mix (mix (mix (mix h (e.ev.id + 1)) e.ev.inst) e.ev.price) (if e.sell then 1 else 0)) e.time

/-- Digest of a sequence of recorder tokens relative to the dataset of `p` (`long_seen_digest` in the
harness): `cnt` tokens so far, of which `items` Items and `markers` markers; `firstBad` = first index
whose token is not the dataset's; `expect` = cursor into the dataset: an Item at or beyond the cursor
moves it behind that Item and adds the positions jumped over to `skipped`, an Item behind the cursor (a
repeat, a reordering) or a marker where the dataset has none adds 1 to `dups`. -/
structure SeqDig where
  cnt : Nat
  items : Nat
  markers : Nat
  expect : Nat
  dups : Nat
  skipped : Nat
  firstBad : Option Nat
  deriving DecidableEq, Repr

def SeqDig.init : SeqDig := ⟨0, 0, 0, 0, 0, 0, none⟩

def SeqDig.step (p : LParams) (d : SeqDig) (tok : Option Nat) : SeqDig :=
  let same := decide (d.cnt < p.n) && tok == p.tok d.cnt
  let fb := if !same && d.firstBad.isNone then some d.cnt else d.firstBad
  match tok with
  | some id =>
    if d.expect ≤ id then
      { d with cnt := d.cnt + 1, items := d.items + 1, firstBad := fb,
               skipped := d.skipped + (id - d.expect), expect := id + 1 }
    else { d with cnt := d.cnt + 1, items := d.items + 1, firstBad := fb, dups := d.dups + 1 }
  | none =>
    if decide (d.expect < p.n) && p.isMarker d.expect then
      { d with cnt := d.cnt + 1, markers := d.markers + 1, firstBad := fb, expect := d.expect + 1 }
    else { d with cnt := d.cnt + 1, markers := d.markers + 1, firstBad := fb, dups := d.dups + 1 }

/-- per instrument: number of Items and rolling hash of their ids -/
def instStep (d : Nat × Nat) (id : Nat) : Nat × Nat := (d.1 + 1, mix d.2 id)

structure Dig where
  seq : SeqDig
  hash : Nat
  inst : List (Nat × Nat)
  deriving DecidableEq, Repr

def Dig.init (k : Nat) : Dig := ⟨SeqDig.init, 0, List.replicate k (0, 0)⟩

def Dig.step (p : LParams) (d : Dig) (e : LEv) : Dig :=
  if e.ev.marker then { d with seq := d.seq.step p none, hash := mixEv d.hash e }
  else { seq := d.seq.step p (some e.ev.id), hash := mixEv d.hash e,
         inst := modifyAt d.inst e.ev.inst (instStep · e.ev.id) }

/-- `MView.onMarket` without the two recording lists. -/
def MView.onMarketCore (v : MView) (m : MktEv) : MView :=
  if m.marker then v
  else { v with nMkt := v.nMkt + 1, price := v.price.set m.inst (some m.price) }

/-- forget the recording lists of a market view -/
def MView.strip (v : MView) : MView := { v with seen := [], instSeen := [] }

/-- The digesting engine: `mv` is the strategy's part of `MView` (its `seen` / `instSeen` stay empty),
`dg` the digest of the market stream processed, `av` the account view. -/
structure LEng where
  p : LParams
  mv : MView
  dg : Dig
  av : AView
  deriving DecidableEq, Repr

/-- `cProcess` with the recorder replaced by the digest. -/
def lProcess (s : LEng) : Ev LEv AccEv → LEng × List Req
  | .shutdown => (s, [])
  | .market e =>
    let v := s.mv.onMarketCore e.ev
    let r := stratEmit (v.plan.length + 1) v
    ({ s with mv := r.1, dg := s.dg.step s.p e }, r.2)
  | .account a =>
    let r := stratEmit (s.mv.plan.length + 1) s.mv
    ({ s with mv := r.1, av := s.av.onAccount a }, r.2)

def lEngine : Engine LEng LEv AccEv Req := { process := lProcess, fatal := fun _ _ => false }

def LSettled (s : LEng) : Prop := ∀ fuel, stratEmit fuel s.mv = (s.mv, [])

def lEng0 (p : LParams) (plan : List PlanItem) : LEng :=
  { p := p, mv := (cEng0 p.k plan).mv.strip, dg := Dig.init p.k, av := (cEng0 p.k plan).av }

/-- what the driver prints of a digesting engine -/
def lView (s : LEng) : LParams × MView × Dig := (s.p, s.mv, s.dg)

/-! ## Execution links for a subset of the exchanges (`tracked t x`)

`ExecutionBuilder::build` (`execution/builder.rs:202-216`) gives the engine a `MultiExchangeTxMap` entry
for EVERY exchange of the indexed instruments, `None` for those without an `ExecutionConfig`:
instruments of such an exchange are tracked (their market data is part of the dataset and is fed to the
engine like any other) but not traded. In the model the execution side is the abstract `Exchange`; an
execution side with links for some requests only never answers the others. The market forwarder
(`stepFwdMarket`) does not look at the execution side at all - `Props/C20.lean`,
`market_view_independent_of_execution_links`. -/

/-- The execution side `X` restricted to the requests `linked` accepts (those addressed to an exchange
with an execution link); any other request is never answered. `linked := fun _ => false` is a backtest
with an empty `executions` list. -/
def linkedExchange {χ ρ α : Type} (X : Exchange χ ρ α) (linked : ρ → Bool) : Exchange χ ρ α :=
  { respond := fun x r => if linked r then X.respond x r else (x, []) }

end BarterModel.Backtest
