/-
Model of `barter/src/engine/clock.rs` (EngineClock, LiveClock, HistoricalClock, the
`TimeExchange` impl for `EngineEvent`) and of the accessors it relies on
(`barter-execution/src/lib.rs:142-153` `AccountSnapshot::time_most_recent`,
`barter-execution/src/order/state.rs:44-58` `OrderState::time_exchange`).

Times are `Int` **nanoseconds** since the Unix epoch (the resolution of `DateTime<Utc>`), durations
(`chrono::TimeDelta`) are `Int` nanoseconds. Nanoseconds (not the milliseconds of DESIGN §3) because
`HistoricalClock::time` branches on `TimeDelta::num_milliseconds`, which truncates towards zero.

The wall clock is an INPUT: every function whose Rust body calls `Utc::now()` takes that reading as
the explicit parameter `now`. Overflow of `DateTime + TimeDelta` (a panic in chrono) is not modelled.
-/
namespace BarterModel.Clock

/-! ## chrono primitives -/

/-- `TimeDelta::num_milliseconds` (chrono 0.4 time_delta.rs:327): whole milliseconds, truncated
towards zero (`secs_part + subsec_nanos / 1_000_000` with the sign-adjusted parts). -/
def numMilliseconds (d : Int) : Int := Int.tdiv d 1000000

/-- `TimeDelta::num_seconds` (chrono 0.4 time_delta.rs:311): whole seconds, truncated towards zero. -/
def numSeconds (d : Int) : Int := Int.tdiv d 1000000000

/-! ## `LiveClock` (clock.rs:25-39) -/

/-- `LiveClock` is a unit struct. -/
structure LiveClock where
  deriving DecidableEq, Repr, Inhabited

/-- `impl EngineClock for LiveClock { fn time }` (clock.rs:29-33): `Utc::now()`. -/
def LiveClock.time (_c : LiveClock) (now : Int) : Int := now

/-- `impl Processor<&Event> for LiveClock` (clock.rs:35-39): no-op for every event. -/
def LiveClock.process {Event : Type} (c : LiveClock) (_ev : Event) : LiveClock := c

/-! ## `HistoricalClock` (clock.rs:41-145) -/

/-- `HistoricalClockInner` (clock.rs:49-53). The `Arc<RwLock<_>>` wrapper only makes clones alias
the same cell; a single owner is modelled. -/
structure HistoricalClock where
  timeExchangeLast : Int
  timeLiveLastEvent : Int
  deriving DecidableEq, Repr, Inhabited

/-- `HistoricalClock::new` (clock.rs:57-64). -/
def HistoricalClock.new (lastExchangeTime now : Int) : HistoricalClock :=
  { timeExchangeLast := lastExchangeTime, timeLiveLastEvent := now }

/-- `impl EngineClock for HistoricalClock { fn time }` (clock.rs:67-83). -/
def HistoricalClock.time (c : HistoricalClock) (now : Int) : Int :=
  let delta := now - c.timeLiveLastEvent
  if numMilliseconds delta ≥ 0 then c.timeExchangeLast + delta else c.timeExchangeLast

/-- Log level of the out-of-order branch (clock.rs:119-143). -/
inductive Severity where
  | debug
  | warn
  | error
  deriving DecidableEq, Repr, Inhabited

/-- Which arm of `process` ran (clock.rs:91-144); only the state is observable from outside, the
outcome is what the `tracing` calls report. -/
inductive Outcome where
  | noTimestamp
  | updated
  | outOfOrder (sev : Severity)
  deriving DecidableEq, Repr, Inhabited

/-- clock.rs:114-143. -/
def outOfOrderSeverity (timeEventExchange timeExchangeLast : Int) : Severity :=
  let timeDiffSecs := (numSeconds (timeEventExchange - timeExchangeLast)).natAbs
  if timeDiffSecs < 1 then .debug else if timeDiffSecs < 30 then .warn else .error

/-- `impl Processor<&Event> for HistoricalClock { fn process }` (clock.rs:91-144), with
`event.time_exchange()` already evaluated. -/
def HistoricalClock.process (c : HistoricalClock) (timeExchange : Option Int) (now : Int) :
    HistoricalClock × Outcome :=
  match timeExchange with
  | none => (c, .noTimestamp)
  | some t =>
    if t ≥ c.timeExchangeLast then
      ({ timeExchangeLast := t, timeLiveLastEvent := now }, .updated)
    else
      (c, .outOfOrder (outOfOrderSeverity t c.timeExchangeLast))

/-! ## `time_exchange` accessors -/

/-- `OrderState` (order/state.rs:15-19, 61-66, 103-109) reduced to the timestamps it carries. -/
inductive OrderState where
  | openInFlight
  | «open» (timeExchange : Int)
  /-- `CancelInFlight { order: Option<Open> }` -/
  | cancelInFlight (order : Option Int)
  | cancelled (timeExchange : Int)
  | fullyFilled
  | openFailed
  | expired
  deriving DecidableEq, Repr, Inhabited

/-- `OrderState::time_exchange` (order/state.rs:44-58). -/
def OrderState.timeExchange : OrderState → Option Int
  | .openInFlight => none
  | .open t => some t
  | .cancelInFlight order => order
  | .cancelled t => some t
  | .fullyFilled => none
  | .openFailed => none
  | .expired => none

/-- `Iterator::max` over `DateTime<Utc>`. -/
def maxStep (acc : Option Int) (t : Int) : Option Int :=
  match acc with
  | none => some t
  | some m => if t ≥ m then some t else some m

def maxOpt (l : List Int) : Option Int := l.foldl maxStep none

/-- `AccountSnapshot` (barter-execution/src/lib.rs:119-140): the `time_exchange` of every balance and
the state of every order of every instrument. -/
structure AccountSnapshot where
  balances : List Int
  instruments : List (List OrderState)
  deriving DecidableEq, Repr, Inhabited

/-- `AccountSnapshot::time_most_recent` (barter-execution/src/lib.rs:143-153). -/
def AccountSnapshot.timeMostRecent (s : AccountSnapshot) : Option Int :=
  let orderTimes := s.instruments.flatMap (fun orders => orders.filterMap OrderState.timeExchange)
  let balanceTimes := s.balances
  maxOpt (orderTimes ++ balanceTimes)

/-- `AccountEventKind` (barter-execution/src/lib.rs:83-101). -/
inductive AccountEventKind where
  | snapshot (s : AccountSnapshot)
  | balanceSnapshot (timeExchange : Int)
  | orderSnapshot (state : OrderState)
  /-- `OrderResponseCancel.state : Result<Cancelled, _>`: `some t` for `Ok`, `none` for `Err`. -/
  | orderCancelled (state : Option Int)
  | trade (timeExchange : Int)
  deriving DecidableEq, Repr, Inhabited

/-- `EngineEvent` (barter/src/lib.rs:118-129) with the stream wrappers
(`AccountStreamEvent`/`MarketStreamEvent::{Reconnecting, Item}`) flattened. -/
inductive EngineEvent where
  | shutdown
  | command
  | tradingStateUpdate
  | accountReconnecting
  | accountItem (kind : AccountEventKind)
  | marketReconnecting
  | marketItem (timeExchange : Int)
  deriving DecidableEq, Repr, Inhabited

/-- `impl TimeExchange for EngineEvent` (clock.rs:147-165). -/
def EngineEvent.timeExchange : EngineEvent → Option Int
  | .marketItem t => some t
  | .accountItem kind =>
    match kind with
    | .snapshot s => s.timeMostRecent
    | .balanceSnapshot t => some t
    | .orderSnapshot st => st.timeExchange
    | .orderCancelled r => r
    | .trade t => some t
  | _ => none

/-- `clock.process(&event)` for an `EngineEvent` (what `Engine::process` does first,
barter/src/engine/mod.rs:145). -/
def HistoricalClock.processEvent (c : HistoricalClock) (ev : EngineEvent) (now : Int) :
    HistoricalClock :=
  (c.process ev.timeExchange now).1

/-- A call made on a clock, with the wall-clock reading it observes. -/
inductive Call where
  | process (timeExchange : Option Int) (now : Int)
  | read (now : Int)
  deriving DecidableEq, Repr

def Call.now : Call → Int
  | .process _ now => now
  | .read now => now

/-- State after a sequence of calls (`read` = `time()` does not change the state). -/
def HistoricalClock.step (c : HistoricalClock) : Call → HistoricalClock
  | .process te now => (c.process te now).1
  | .read _ => c

def HistoricalClock.run (c : HistoricalClock) (calls : List Call) : HistoricalClock :=
  calls.foldl HistoricalClock.step c

/-- The values returned by the `time()` calls of a call sequence, oldest first. -/
def HistoricalClock.readings (c : HistoricalClock) : List Call → List Int
  | [] => []
  | .read now :: rest => c.time now :: c.readings rest
  | .process te now :: rest => (c.process te now).1.readings rest

/-! ## Abstract specification

Written from the documented intent ("Historical `Clock` using processed event timestamps to estimate
current historical time", "only add TimeDelta if it's positive to handle out of order updates",
`TimeExchange`: "extract an exchange timestamp from an event"), as functions of the *history*
only. -/

/-- Every exchange timestamp an order state carries. -/
def OrderState.timestamps : OrderState → List Int
  | .open t => [t]
  | .cancelInFlight (some t) => [t]
  | .cancelled t => [t]
  | _ => []

/-- Every exchange timestamp an event carries, anywhere inside it. -/
def EngineEvent.timestamps : EngineEvent → List Int
  | .marketItem t => [t]
  | .accountItem (.snapshot s) =>
    s.balances ++ (s.instruments.flatMap fun orders => orders.flatMap OrderState.timestamps)
  | .accountItem (.balanceSnapshot t) => [t]
  | .accountItem (.orderSnapshot st) => st.timestamps
  | .accountItem (.orderCancelled (some t)) => [t]
  | .accountItem (.trade t) => [t]
  | _ => []

/-- Greatest element of a list (`none` for the empty list). -/
def latest : List Int → Option Int
  | [] => none
  | t :: ts =>
    match latest ts with
    | none => some t
    | some m => some (max t m)

/-- SPEC of the accessor: the exchange time of an event is the most recent exchange timestamp it
carries, if it carries one. -/
def specTimeExchange (ev : EngineEvent) : Option Int := latest ev.timestamps

/-- History of a historical clock, newest first: the wall-clock reading at which each event was
processed and the event's exchange time. -/
abbrev History := List (Int × Option Int)

/-- SPEC: the last exchange time is the greatest exchange time seen so far (seed included). -/
def specLast (seed : Int) : History → Int
  | [] => seed
  | (_, none) :: older => specLast seed older
  | (_, some t) :: older => max t (specLast seed older)

/-- SPEC: the wall-clock anchor is the reading at which the most recent event that was *not older*
than everything before it was processed (construction time if there is none). -/
def specAnchor (seed w0 : Int) : History → Int
  | [] => w0
  | (_, none) :: older => specAnchor seed w0 older
  | (w, some t) :: older => if specLast seed older ≤ t then w else specAnchor seed w0 older

/-- SPEC: current time = last exchange time + wall-clock time elapsed since it was processed, the
elapsed time being added only when it is positive. -/
def specTime (seed w0 : Int) (h : History) (now : Int) : Int :=
  specLast seed h + max 0 (now - specAnchor seed w0 h)

/-- The history (newest first) recorded by a call sequence (oldest first). -/
def historyOf (calls : List Call) : History :=
  (calls.filterMap fun
    | .process te now => some (now, te)
    | .read _ => none).reverse

end BarterModel.Clock
