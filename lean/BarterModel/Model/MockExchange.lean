/-
Model of the simulated exchange: `barter-execution/src/exchange/mock/mod.rs` (MockExchange),
`barter-execution/src/exchange/mock/account.rs` (AccountState) and the request/response plumbing of
`barter-execution/src/client/mock/mod.rs` (MockExecution), as wired by
`barter/src/execution/builder.rs:88-129`.

Identifiers are positions: asset `a` is the `a`-th configured balance (the code keys a
`FnvHashMap<AssetNameExchange, _>`; the harness names the assets `a0, a1, …` and prints them in
index order), instrument `i` is the `i`-th configured instrument (`FnvHashMap<InstrumentNameExchange,
_>`; an index past the end is an instrument the exchange is not set up for). Order / trade ids
(`order_sequence.to_smolstr()`) are the `Nat` itself. `DateTime<Utc>` is an `Int` (ms). `Decimal`
is `Rat` (DESIGN §3: rounding / overflow not modelled).

The initial account snapshot carries no orders (`orders_open` / `orders_cancelled` stay empty: the
exchange itself never inserts into them), so `account_snapshot().instruments` is always empty.

Second half of the file: the abstract specification `Spec.*`, written from the property text
(a ledger that is *initial balance minus the debits of the accepted orders*), not from the code.
-/
namespace BarterModel.MockExchange

inductive Side where
  | buy
  | sell
  deriving DecidableEq, Repr, Inhabited

inductive Kind where
  | market
  | limit
  deriving DecidableEq, Repr, Inhabited

/-- `Decimal::abs`. -/
def absR (q : Rat) : Rat := if q < 0 then -q else q

/-- `AssetBalance` (balance.rs:9-31): `Balance { total, free }` and `time_exchange`. -/
structure Bal where
  total : Rat
  free : Rat
  time : Int
  deriving DecidableEq, Repr, Inhabited

/-- `Instrument.underlying` (`Underlying { base, quote }`), the only part the exchange reads. -/
structure Instr where
  base : Nat
  quote : Nat
  deriving DecidableEq, Repr, Inhabited

/-- `OrderRequestOpen<ExchangeId, InstrumentNameExchange>` (order/request.rs:15-39): key
(instrument, strategy, cid) and `RequestOpen { side, price, quantity, kind, .. }`. -/
structure Req where
  instr : Nat
  strategy : Nat
  cid : Nat
  side : Side
  price : Rat
  qty : Rat
  kind : Kind
  deriving DecidableEq, Repr, Inhabited

/-- `Trade<QuoteAsset, InstrumentNameExchange>` (trade.rs:22-32); `fees.asset` is always `QuoteAsset`. -/
structure Trade where
  id : Nat
  orderId : Nat
  instr : Nat
  strategy : Nat
  time : Int
  side : Side
  price : Rat
  qty : Rat
  fees : Rat
  deriving DecidableEq, Repr, Inhabited

/-- `MockExchange` (mock/mod.rs:39-50) with `AccountState` (account.rs:20-27) inlined. -/
structure State where
  latency : Nat
  fee : Rat
  instruments : List Instr
  balances : List Bal
  trades : List Trade
  seq : Nat
  time : Int
  deriving Repr, Inhabited

/-- The three `Err` responses of `open_order`. -/
inductive Err where
  /-- `validate_order_kind_supported` (mod.rs:380-391): `ApiError::OrderRejected`. -/
  | kindUnsupported
  /-- `find_instrument_data` (mod.rs:393-403): `ApiError::InstrumentInvalid`. -/
  | instrumentInvalid (i : Nat)
  /-- mod.rs:295-301 / 329-335: `ApiError::BalanceInsufficient(asset, "Available …, Required …")`. -/
  | balanceInsufficient (asset : Nat) (available required : Rat)
  deriving DecidableEq, Repr, Inhabited

/-- What an accepted order produces: the `Open` response (`id`, `time`, `filled`) and the
`OpenOrderNotifications { balance, trade }` (mod.rs:345-377). -/
structure Fill where
  id : Nat
  time : Int
  filled : Rat
  asset : Nat
  balance : Bal
  trade : Trade
  deriving DecidableEq, Repr, Inhabited

inductive Result where
  | rejected (e : Err)
  | accepted (f : Fill)
  /-- `expect("MockExchange has Balance for all configured Instrument assets")` or
  `assert_eq!(total, free)` fired. -/
  | panic
  deriving DecidableEq, Repr, Inhabited

/-- Asset an order spends: quote for a buy (mod.rs:274-276), base for a sell (mod.rs:306-308). -/
def spentAsset (u : Instr) : Side → Nat
  | .buy => u.quote
  | .sell => u.base

/-- `order_value_quote = price * quantity.abs()` (mod.rs:282) / `order_value_base = quantity.abs()`
(mod.rs:314). -/
def orderValue (r : Req) : Rat :=
  match r.side with
  | .buy => r.price * absR r.qty
  | .sell => absR r.qty

/-- Fees as reported on the trade, in quote units: `order_fees_quote` (mod.rs:283,293) for a buy,
`order_fees_base * price` (mod.rs:325) for a sell. -/
def feesQuote (fee : Rat) (r : Req) : Rat :=
  match r.side with
  | .buy => orderValue r * fee
  | .sell => orderValue r * fee * r.price

/-- `MockExchange::open_order` (mod.rs:253-378). -/
def openOrder (s : State) (r : Req) : State × Result :=
  -- mod.rs:260-262
  if r.kind ≠ .market then (s, .rejected .kindUnsupported) else
  -- mod.rs:264-267
  match s.instruments[r.instr]? with
  | none => (s, .rejected (.instrumentInvalid r.instr))
  | some u =>
    let asset := spentAsset u r.side
    -- mod.rs:274-277 / 306-309 `balance_mut(..).expect(..)`
    match s.balances[asset]? with
    | none => (s, .panic)
    | some cur =>
      -- mod.rs:280 / 312 `assert_eq!(current.balance.total, current.balance.free)`
      if cur.total ≠ cur.free then (s, .panic) else
      let value := orderValue r
      let fees := value * s.fee
      let required := value + fees
      let new := cur.free - required
      if 0 ≤ new then
        -- mod.rs:288-293 / 320-327
        let b : Bal := { total := new, free := new, time := s.time }
        -- mod.rs:345-346, 405-409
        let id := s.seq
        let tr : Trade :=
          { id := id, orderId := id, instr := r.instr, strategy := r.strategy, time := s.time,
            side := r.side, price := r.price, qty := r.qty, fees := feesQuote s.fee r }
        ({ s with balances := s.balances.set asset b, seq := s.seq + 1 },
         .accepted { id := id, time := s.time, filled := r.qty, asset := asset, balance := b, trade := tr })
      else
        -- mod.rs:294-302 / 328-336
        (s, .rejected (.balanceInsufficient asset cur.free required))

/-- `MockExchangeRequestKind` (mock/request.rs). -/
inductive Request where
  | fetchSnapshot
  | fetchBalances
  | fetchOrdersOpen
  | fetchTrades (since : Int)
  | cancelOrder
  | openOrder (r : Req)
  deriving DecidableEq, Repr, Inhabited

/-- What is sent on the oneshot `response_tx` (after `latency_ms`). -/
inductive Response where
  /-- `account_snapshot()` (mod.rs:138-170): balances; `instruments` is always empty. -/
  | snapshot (balances : List Bal)
  | balances (balances : List Bal)
  /-- `orders_open` is always empty. -/
  | ordersOpen
  | trades (ts : List Trade)
  /-- mod.rs:96-105: the cancel request is logged and its `response_tx` dropped. -/
  | dropped
  | order (r : Result)
  deriving DecidableEq, Repr, Inhabited

/-- `AccountEventKind::{BalanceSnapshot, Trade}` sent on the broadcast channel. -/
inductive Event where
  | balance (asset : Nat) (b : Bal)
  | trade (t : Trade)
  deriving DecidableEq, Repr, Inhabited

/-- `update_time_exchange` (mod.rs:124-132) + `AccountState::update_time_exchange`
(account.rs:30-38). -/
def updateTime (s : State) (t : Int) : State :=
  let te : Int := t + ((s.latency / 2 : Nat) : Int)
  { s with time := te, balances := s.balances.map fun b => { b with time := te } }

/-- `AccountState::trades` (account.rs:56-64). -/
def tradesSince (s : State) (since : Int) : List Trade :=
  s.trades.filter fun tr => decide (since ≤ tr.time)

/-- `AccountState::ack_trade` (account.rs:72-74). -/
def ackTrade (s : State) (tr : Trade) : State := { s with trades := s.trades ++ [tr] }

/-- One iteration of `MockExchange::run` (mod.rs:72-119) for a request stamped `t` by the client's
clock: new state, the oneshot response, the events broadcast (`send_notifications_with_latency`,
mod.rs:203-229: balance first, then trade). -/
def step (s : State) (t : Int) (rq : Request) : State × Response × List Event :=
  let s := updateTime s t
  match rq with
  | .fetchSnapshot => (s, .snapshot s.balances, [])
  | .fetchBalances => (s, .balances s.balances, [])
  | .fetchOrdersOpen => (s, .ordersOpen, [])
  | .fetchTrades since => (s, .trades (tradesSince s since), [])
  | .cancelOrder => (s, .dropped, [])
  | .openOrder r =>
    match openOrder s r with
    | (s', .accepted f) => (ackTrade s' f.trade, .order (.accepted f), [.balance f.asset f.balance, .trade f.trade])
    | (s', res) => (s', .order res, [])

/-- Static configuration: `MockExecutionConfig` + the instrument map (builder.rs:120-129). -/
structure Cfg where
  latency : Nat
  fee : Rat
  /-- initial `(total, free)` per asset -/
  init : List (Rat × Rat)
  instruments : List Instr
  deriving Repr, Inhabited

/-- Well-formed configuration (executable form): every initial balance has `total = free` (the
exchange's own `assert_eq!`) and both assets of every instrument have a balance (the exchange's own
`expect`). -/
def Cfg.wf (c : Cfg) : Bool :=
  c.init.all (fun p => decide (p.1 = p.2)) &&
  c.instruments.all (fun u => decide (u.base < c.init.length) && decide (u.quote < c.init.length))

/-- `MockExchange::new` (mod.rs:53-70), `AccountState::from` (account.rs:77-137); the harness stamps
every initial balance with time 0. -/
def init (c : Cfg) : State :=
  { latency := c.latency, fee := c.fee, instruments := c.instruments,
    balances := c.init.map fun p => { total := p.1, free := p.2, time := 0 },
    trades := [], seq := 0, time := 0 }

/-- The request loop over a whole history (oldest first), state only. -/
def run (s : State) (ops : List (Int × Request)) : State :=
  ops.foldl (fun s op => (step s op.1 op.2).1) s

/-- The `(total, free)` columns of the balances (time stamps dropped). -/
def ledger (s : State) : List (Rat × Rat) := s.balances.map fun b => (b.total, b.free)

/-! ## Abstract specification (from the property text)

A history is the list of open-order requests the exchange has seen, each with the exchange time at
which it was seen. Nothing else is state. *Accepted* orders are singled out by the funds rule; the
ledger is the initial balance minus what the accepted orders spent; fills are the accepted orders
numbered in order of acceptance. -/
namespace Spec

/-- An open-order request as seen by the exchange at exchange time `time`. -/
structure Ev where
  time : Int
  req : Req
  deriving DecidableEq, Repr, Inhabited

/-- The asset an order spends: quote for a buy, base for a sell; `none` for an unknown instrument. -/
def spends (instruments : List Instr) (r : Req) : Option Nat :=
  match instruments[r.instr]?, r.side with
  | some u, .buy => some u.quote
  | some u, .sell => some u.base
  | none, _ => none

/-- What it must hold: price × quantity plus fees (buy, in quote), quantity plus fees (sell, in base);
fees are the configured percentage. Quantity is the magnitude `|q|`. -/
def required (fee : Rat) (r : Req) : Rat :=
  match r.side with
  | .buy => r.price * absR r.qty * (1 + fee)
  | .sell => absR r.qty * (1 + fee)

/-- Fees of a fill: the configured percentage of the notional, in quote units. -/
def fees (fee : Rat) (r : Req) : Rat := fee * (r.price * absR r.qty)

/-- Total spent of asset `a` by a list of accepted orders. -/
def debited (fee : Rat) (instruments : List Instr) : List Ev → Nat → Rat
  | [], _ => 0
  | e :: es, a =>
    (if spends instruments e.req = some a then required fee e.req else 0) + debited fee instruments es a

/-- Balance of asset `a` given the accepted orders: initial minus debits. -/
def balance (c : Cfg) (acc : List Ev) (a : Nat) : Option Rat :=
  (c.init[a]?).map fun p => p.2 - debited c.fee c.instruments acc a

/-- The funds rule: a market order on a known instrument whose spent asset holds at least the
required amount. -/
def fundsOk (c : Cfg) (acc : List Ev) (r : Req) : Bool :=
  r.kind == .market &&
  match spends c.instruments r with
  | none => false
  | some a =>
    match balance c acc a with
    | none => false
    | some b => decide (required c.fee r ≤ b)

/-- The accepted orders of a history. Both lists are newest first. -/
def accepted (c : Cfg) : List Ev → List Ev
  | [] => []
  | e :: older =>
    let acc := accepted c older
    if fundsOk c acc e.req then e :: acc else acc

/-- The fill of the `k`-th accepted order: order id = trade id = `k`. -/
def fillOf (c : Cfg) (k : Nat) (e : Ev) : Trade :=
  { id := k, orderId := k, instr := e.req.instr, strategy := e.req.strategy, time := e.time,
    side := e.req.side, price := e.req.price, qty := e.req.qty, fees := fees c.fee e.req }

/-- All fills, oldest first, from the accepted orders (newest first). -/
def fills (c : Cfg) : List Ev → List Trade
  | [] => []
  | e :: older => fills c older ++ [fillOf c older.length e]

/-- The whole ledger: one `(total, free)` pair per asset, both equal to `balance`. -/
def ledger (c : Cfg) (acc : List Ev) : List (Rat × Rat) :=
  (List.range c.init.length).map fun a =>
    match balance c acc a with
    | some b => (b, b)
    | none => (0, 0)

/-- Answer to a trades query. -/
def tradesSince (c : Cfg) (acc : List Ev) (since : Int) : List Trade :=
  (fills c acc).filter fun tr => decide (since ≤ tr.time)

/-- What the exchange must answer to an open-order request given the accepted orders so far:
`none` = rejected (no fill, no notification, ledger untouched); `some (a, b, tr)` = accepted, the
spent asset `a` now holds `b`, and `tr` is the one fill. -/
def respond (c : Cfg) (acc : List Ev) (e : Ev) : Option (Nat × Rat × Trade) :=
  if fundsOk c acc e.req then
    match spends c.instruments e.req with
    | none => none
    | some a =>
      match balance c acc a with
      | none => none
      | some b => some (a, b - required c.fee e.req, fillOf c acc.length e)
  else none

end Spec

/-- Exchange time of a request stamped `t` by the client: `t + latency/2`. -/
def exchangeTime (c : Cfg) (t : Int) : Int := t + ((c.latency / 2 : Nat) : Int)

/-- The spec event of an operation: only open-order requests are events. -/
def evOf (c : Cfg) : Int × Request → Option Spec.Ev
  | (t, .openOrder r) => some ⟨exchangeTime c t, r⟩
  | _ => none

/-- The open-order requests of an operation history (oldest first) as spec events, newest first. -/
def opens (c : Cfg) (ops : List (Int × Request)) : List Spec.Ev := (ops.filterMap (evOf c)).reverse

end BarterModel.MockExchange
