import BarterModel.Model.MockExchange
/-
Model of the `MockExecution` client and of its request / response protocol with the simulated
exchange (sub-check C08C of C08):

* `barter-execution/src/client/mock/mod.rs` — `MockExecution::{new, account_snapshot, account_stream,
  cancel_order, open_order, fetch_balances, fetch_open_orders, fetch_trades, time_request}`,
* `barter-execution/src/exchange/mock/request.rs` — `MockExchangeRequest` / `MockExchangeRequestKind`,
* `barter-execution/src/exchange/mock/mod.rs` — `MockExchange::run` (dispatch, `respond_with_latency`,
  `send_notifications_with_latency`, `account_snapshot`, `cancel_order`),
* `barter-execution/src/exchange/mock/account.rs` — `AccountState` with the INITIAL open / cancelled
  orders of `From<UnindexedAccountSnapshot>` and `update_time_exchange`.

The ledger part of the exchange (balances, fills, ids) is the C08 model `MockExchange.State` /
`MockExchange.step`, imported and reused unchanged; this file adds

1. the orders an exchange is configured with (`XState` = C08 state + the two order maps),
2. the system around it (`Sys`): the client's clock function, the unbounded request channel, the
   exchange task (scheduled or not, running or gone), the spawned latency tasks with their timers
   under a virtual clock, the oneshot of every call, the broadcast channel with its subscribers and
   the worker tasks that make the calls,
3. the abstract specification `Spec.*` (second half), written from the documented intent: a call is
   answered by the exchange from the requests it has seen before, `latency` after it has seen the
   call; the account stream is the sequence of fill notifications. The two `namespace Fast` blocks
   inside it are NOT specification: they are one-pass executables of `SSys.answers` / `SSys.finish`,
   proved equal to them (`Fast.answers_eq_fast`, `Fast.finish_eq_fast`) and tagged `@[csimp]`, so that
   only COMPILED code (the driver's `spec` mode) runs them.

Identifiers are positions / numbers as in the C08 model; `ClientOrderId`, `StrategyId`, `OrderId`
are the `Nat` inside their names; a `FnvHashMap<ClientOrderId, V>` is the list of its values sorted
by key (the harness sorts what it gets from the map the same way).
-/
namespace BarterModel.MockClient
open BarterModel.MockExchange

/-! ## 1. Orders of the initial account snapshot -/

/-- The fields of `Order<ExchangeId, InstrumentNameExchange, S>` (order/mod.rs:74-84) other than the
state: `key { instrument, strategy, cid }`, `side`, `price`, `quantity`, `kind`, `time_in_force`
(`0` GTC, `1` GTC post-only, `2` GTD end of day, `3` FOK, `4` IOC). -/
structure OrdHead where
  instr : Nat
  strategy : Nat
  cid : Nat
  side : Side
  kind : Kind
  price : Rat
  qty : Rat
  tif : Nat
  deriving DecidableEq, Repr, Inhabited

/-- `UnindexedOrderState` (order/state.rs:16-109) as far as `AccountState::from` tells the variants
apart. -/
inductive OState where
  | openInFlight
  | open (id : Nat) (time : Int) (filled : Rat)
  | cancelInFlight (o : Option (Nat × Int × Rat))
  | cancelled (id : Nat) (time : Int)
  | fullyFilled
  | openFailed
  | expired
  deriving DecidableEq, Repr, Inhabited

/-- `UnindexedOrderSnapshot` of the initial `UnindexedAccountSnapshot`. -/
structure InitOrd where
  head : OrdHead
  state : OState
  deriving DecidableEq, Repr, Inhabited

/-- `Order<_, _, Open>` (state.rs:84-88). -/
structure OpenOrd where
  head : OrdHead
  id : Nat
  time : Int
  filled : Rat
  deriving DecidableEq, Repr, Inhabited

/-- `Order<_, _, Cancelled>` (state.rs:114-117). -/
structure CancOrd where
  head : OrdHead
  id : Nat
  time : Int
  deriving DecidableEq, Repr, Inhabited

/-- `FnvHashMap::insert` on the sorted-by-key representation: a present key has its value
replaced. -/
def insertKey {α : Type} (key : α → Nat) (v : α) : List α → List α
  | [] => [v]
  | x :: xs =>
    if key v < key x then v :: x :: xs
    else if key v = key x then v :: xs
    else x :: insertKey key v xs

/-- Body of the fold of `AccountState::from` (account.rs:93-127): `Open` goes to `orders_open`,
`Cancelled` to `orders_cancelled`, both KEYED BY `cid` ALONE; every other state is dropped. -/
def absorb (acc : List OpenOrd × List CancOrd) (o : InitOrd) : List OpenOrd × List CancOrd :=
  match o.state with
  | .open id time filled => (insertKey (·.head.cid) ⟨o.head, id, time, filled⟩ acc.1, acc.2)
  | .cancelled id time => (acc.1, insertKey (·.head.cid) ⟨o.head, id, time⟩ acc.2)
  | _ => acc

/-- Static configuration: the C08 configuration (latency, fee, balances, instruments), the capacity
the broadcast channel is created with (`broadcast::channel(cap)`, builder.rs:96) and the
`instruments: Vec<InstrumentAccountSnapshot>` of `MockExecutionConfig::initial_state`: per entry the
instrument it is filed under and its orders. -/
structure XCfg where
  base : Cfg
  cap : Nat
  groups : List (Nat × List InitOrd)
  deriving Repr, Inhabited

/-- `AccountState::from` (account.rs:77-137), the order part: a fold over the snapshots and, inside,
over their orders. The instrument a snapshot is filed under is not looked at. -/
def ordersFrom (groups : List (Nat × List InitOrd)) : List OpenOrd × List CancOrd :=
  groups.foldl (fun acc g => g.2.foldl absorb acc) ([], [])

/-- `MockExchange` (mock/mod.rs:39-50) = the C08 ledger state + `AccountState::{orders_open,
orders_cancelled}`. -/
structure XState where
  base : State
  opens : List OpenOrd
  cancels : List CancOrd
  deriving Repr, Inhabited

/-- `MockExchange::new` (mod.rs:53-70). -/
def XState.init (c : XCfg) : XState :=
  { base := MockExchange.init c.base, opens := (ordersFrom c.groups).1, cancels := (ordersFrom c.groups).2 }

/-- An order of `AccountSnapshot::instruments[_].orders`: `UnindexedOrder::from` of an open or of a
cancelled order (mod.rs:141-153). -/
inductive SnapOrd where
  | open (o : OpenOrd)
  | cancelled (o : CancOrd)
  deriving DecidableEq, Repr, Inhabited

def SnapOrd.head : SnapOrd → OrdHead
  | .open o => o.head
  | .cancelled o => o.head

def SnapOrd.instr (o : SnapOrd) : Nat := o.head.instr

/-- `sorted_unstable_by_key(|order| order.key.instrument)` (mod.rs:154) as a stable insertion sort:
within one instrument the model keeps open orders (by cid) before cancelled orders (by cid); the
code's order there is unspecified and the harness sorts each group the same way. -/
def insertInstr (o : SnapOrd) : List SnapOrd → List SnapOrd
  | [] => [o]
  | x :: xs => if o.instr ≤ x.instr then o :: x :: xs else x :: insertInstr o xs

def sortInstr : List SnapOrd → List SnapOrd
  | [] => []
  | o :: os => insertInstr o (sortInstr os)

/-- `chunk_by(|order| order.key.instrument)` (mod.rs:155-163): maximal runs of adjacent orders with
the same instrument. -/
def chunk : List SnapOrd → List (Nat × List SnapOrd)
  | [] => []
  | o :: os =>
    match chunk os with
    | (i, g) :: rest => if o.instr = i then (i, o :: g) :: rest else (o.instr, [o]) :: (i, g) :: rest
    | [] => [(o.instr, [o])]

/-- `orders_open.chain(orders_cancelled)` (mod.rs:153). -/
def XState.ordersAll (x : XState) : List SnapOrd := x.opens.map .open ++ x.cancels.map .cancelled

/-- `instruments` of `MockExchange::account_snapshot` (mod.rs:138-170). -/
def XState.groups (x : XState) : List (Nat × List SnapOrd) := chunk (sortInstr x.ordersAll)

/-- `AccountState::update_time_exchange`, the order half (account.rs:35-37): every OPEN order is
stamped; cancelled orders are not. -/
def stampOpens (te : Int) (os : List OpenOrd) : List OpenOrd := os.map fun o => { o with time := te }

/-- What travels back on the oneshot `response_tx` of a request. -/
inductive XResp where
  | snapshot (balances : List Bal) (groups : List (Nat × List SnapOrd))
  | balances (balances : List Bal)
  | ordersOpen (os : List OpenOrd)
  | trades (ts : List Trade)
  /-- mod.rs:96-105: the cancel request is logged, its `response_tx` dropped unanswered. -/
  | dropped
  | order (r : Result)
  deriving DecidableEq, Repr, Inhabited

/-- chrono's `DateTime::<Utc>::MAX_UTC` (`+262142-12-31T23:59:59.999999999Z`) in the unit of the
protocol, milliseconds since the epoch (`timestamp_millis`); the harness clock hands out whole
milliseconds, so `time_request + δ ms` is representable iff it is `≤ maxTime`. -/
def maxTime : Int := 8210266876799999

/-- `DateTime::<Utc>::MIN_UTC` (`-262143-01-01T00:00:00Z`) in milliseconds. A client clock cannot
return a value outside `[minTime, maxTime]` (there is no such `DateTime<Utc>`). -/
def minTime : Int := -8334601228800000

/-- `MockExchange::update_time_exchange` (mod.rs:124-129):
`time_request.checked_add_signed(TimeDelta::milliseconds(latency_ms / 2)).unwrap_or(time_request)` —
half a latency after the request time, or the request time ITSELF when the sum is past chrono's
largest `DateTime<Utc>` (the delta is never negative, `TimeDelta::milliseconds` accepts every
`(u64 / 2) as i64`, so this is the only way `checked_add_signed` fails). -/
def stampTime (latency : Nat) (t : Int) : Int :=
  if t + ((latency / 2 : Nat) : Int) ≤ maxTime then t + ((latency / 2 : Nat) : Int) else t

/-- The C08 ledger (`MockExchange.step`, reused unchanged) stamps `t + latency / 2` unconditionally;
fed with this request time it stamps exactly what the code stamps (`stampTime`): `t` itself in
range, `t - latency / 2` past the end of chrono's range. -/
def ledgerTime (latency : Nat) (t : Int) : Int := stampTime latency t - ((latency / 2 : Nat) : Int)

/-- A history with the request times the ledger is fed. -/
def ledgerOps (l : Nat) (ops : List (Int × Request)) : List (Int × Request) :=
  ops.map fun op => (ledgerTime l op.1, op.2)

/-- One iteration of `MockExchange::run` (mod.rs:72-119) with the order maps: the ledger part is the
C08 `step` (at the request time under which its stamp is the code's, `ledgerTime`);
`update_time_exchange` also stamps the open orders; the snapshot and the open-order query read the
order maps. -/
def XState.step (x : XState) (t : Int) (rq : Request) : XState × XResp × List Event :=
  let r := MockExchange.step x.base (ledgerTime x.base.latency t) rq
  let te : Int := stampTime x.base.latency t
  let x' : XState := { base := r.1, opens := stampOpens te x.opens, cancels := x.cancels }
  let resp : XResp :=
    match r.2.1 with
    | .snapshot bs => .snapshot bs x'.groups
    | .balances bs => .balances bs
    | .ordersOpen => .ordersOpen x'.opens
    | .trades ts => .trades ts
    | .dropped => .dropped
    | .order res => .order res
  (x', resp, r.2.2)

/-- The request loop over a whole history of `(time_request, request)` pairs, oldest first. -/
def XState.run (x : XState) (ops : List (Int × Request)) : XState :=
  ops.foldl (fun x op => (x.step op.1 op.2).1) x

/-! ## 2. The client, the channels and the tasks -/

/-- A method of `ExecutionClient` called on a `MockExecution`, with its arguments (`tif` of an open
request is only echoed; it is not part of the C08 `Req`). -/
inductive Call where
  | open (r : Req) (tif : Nat)
  | snap
  | balances
  | orders
  | trades (since : Int)
  | cancel (instr strategy cid : Nat)
  deriving DecidableEq, Repr, Inhabited

/-- The `MockExchangeRequestKind` a client method sends (client/mock/mod.rs:108-308,
exchange/mock/request.rs:31-104). -/
def Call.wire : Call → Request
  | .open r _ => .openOrder r
  | .snap => .fetchSnapshot
  | .balances => .fetchBalances
  | .orders => .fetchOrdersOpen
  | .trades since => .fetchTrades since
  | .cancel _ _ _ => .cancelOrder

/-- `MockExchangeRequest { time_request, kind }` in the unbounded channel; `call` names the oneshot
the `response_tx` inside belongs to. -/
structure Msg where
  call : Nat
  t : Int
  rq : Request
  deriving DecidableEq, Repr, Inhabited

/-- What a client method returns: the value received on its oneshot, or the error it makes up when
`request_tx.send` fails or the oneshot is closed unanswered — in both cases
`Connectivity(ExchangeOffline(mocked_exchange))` (mod.rs:120-130, 174-189, 210-235, …). -/
inductive Outcome where
  | answered (r : XResp)
  | offline
  deriving DecidableEq, Repr, Inhabited

/-- A task spawned by `respond_with_latency` (mod.rs:176-196) or `send_notifications_with_latency`
(mod.rs:203-229), asleep until virtual time `due`. -/
inductive TimerAct where
  | resp (call : Nat) (r : XResp)
  | notify (evs : List Event)
  deriving DecidableEq, Repr, Inhabited

structure Timer where
  due : Nat
  act : TimerAct
  deriving DecidableEq, Repr, Inhabited

/-- A worker task inside a client method, waiting on the oneshot of call `call` since virtual time
`started`. -/
structure Pending where
  call : Nat
  started : Nat
  what : Call
  deriving DecidableEq, Repr, Inhabited

/-- An `account_stream` (mod.rs:133-150): `BroadcastStream::new(event_rx.resubscribe())` cut at the
first lag error. `pos` = index in the channel of the next value it will be handed. History
variables: `start` = that index when the stream was created, `got` = everything it has yielded. -/
structure Sub where
  pos : Nat
  ended : Bool
  start : Nat
  got : List Event
  deriving DecidableEq, Repr, Inhabited

/-- A completed call as the worker sees it. -/
structure Done where
  worker : Nat
  call : Nat
  elapsed : Nat
  what : Call
  out : Outcome
  deriving DecidableEq, Repr, Inhabited

/-- History variable: a request the exchange has processed, at which virtual time, and what it
produced. -/
structure PRec where
  call : Nat
  t : Int
  rq : Request
  at_ : Nat
  resp : XResp
  evs : List Event
  deriving DecidableEq, Repr, Inhabited

/-- History variable: a call as issued (worker, value of the clock function, virtual time, whether
`request_tx.send` succeeded). -/
structure CRec where
  worker : Nat
  t : Int
  at_ : Nat
  what : Call
  sent : Bool
  deriving DecidableEq, Repr, Inhabited

structure Sys where
  cfg : XCfg
  /-- tokio's (paused) clock, ms since start -/
  now : Nat
  /-- current value of the client's clock function `FnTime` -/
  clock : Int
  /-- the exchange task's `MockExchange`; `none` once the task is gone (`request_rx` dropped) -/
  exch : Option XState
  /-- `false` while the scheduler does not run the exchange task -/
  gate : Bool
  /-- the unbounded mpsc channel `request_tx → request_rx` -/
  queue : List Msg
  /-- sleeping latency tasks in spawn order -/
  timers : List Timer
  /-- every value ever sent on the broadcast channel -/
  log : List Event
  subs : List Sub
  workers : List (Option Pending)
  /-- completions of the current operation (output buffer) -/
  out : List Done
  /-- history variables (never read by the transitions, except `calls.length` = number of oneshots
  created so far, which names the next one) -/
  calls : List CRec
  plog : List PRec
  /-- number of latency tasks that have woken up -/
  fired : Nat
  deriving Repr, Inhabited

/-- `builder.rs:96-129`: channels, client, exchange; `w` worker tasks each holding a clone of the
client. -/
def Sys.init (c : XCfg) (w : Nat) : Sys :=
  { cfg := c, now := 0, clock := 0, exch := some (XState.init c), gate := true, queue := [], timers := [],
    log := [], subs := [], workers := List.replicate w none, out := [], calls := [], plog := [], fired := 0 }

/-- `usize::next_power_of_two`: the least power of two `≥ n` (by doubling, at most `n` times). -/
def nextPow2 (n : Nat) : Nat := go n 1
where
  go : Nat → Nat → Nat
    | 0, p => p
    | fuel + 1, p => if p < n then go fuel (p * 2) else p

/-- `tokio::sync::broadcast::channel(capacity)` rounds the capacity up to a power of two. -/
def Sys.capacity (s : Sys) : Nat := nextPow2 s.cfg.cap

def Sys.latency (s : Sys) : Nat := s.cfg.base.latency

/-- Index of the worker waiting on the oneshot of `call`, if any. -/
def waiter (ws : List (Option Pending)) (call : Nat) : Option (Nat × Pending) :=
  match ws with
  | [] => none
  | w :: rest =>
    match w with
    | some p => if p.call = call then some (0, p) else (waiter rest call).map fun (i, p) => (i + 1, p)
    | none => (waiter rest call).map fun (i, p) => (i + 1, p)

/-- The oneshot of `call` resolves with `out`: the worker waiting on it (if it still is: mod.rs:188-194
only logs when the receiver is gone) returns from the client method. -/
def Sys.complete (s : Sys) (call : Nat) (out : Outcome) : Sys :=
  match waiter s.workers call with
  | some (w, p) =>
    { s with workers := s.workers.set w none,
             out := s.out ++ [(⟨w, call, s.now - p.started, p.what, out⟩ : Done)] }
  | none => s

/-- One iteration of `MockExchange::run` on message `m` (mod.rs:73-118): the response goes to a new
latency task, the notifications of an accepted order to a second one; a cancel request has its
`response_tx` dropped at the end of the iteration. -/
def Sys.process (s : Sys) (x : XState) (m : Msg) : Sys × XState :=
  let r := x.step m.t m.rq
  let due := s.now + s.latency
  let s := { s with plog := s.plog ++ [(⟨m.call, m.t, m.rq, s.now, r.2.1, r.2.2⟩ : PRec)] }
  match r.2.1 with
  | .dropped => (s.complete m.call .offline, r.1)
  | resp =>
    ({ s with timers := s.timers ++ [(⟨due, .resp m.call resp⟩ : Timer)] ++
                (if r.2.2.isEmpty then [] else [(⟨due, .notify r.2.2⟩ : Timer)]) }, r.1)

/-- The exchange task works through the queue. If `open_order` panics (its own `expect` /
`assert_eq!` on an ill-formed configuration) the task unwinds: the `response_tx` of that request
and, with `request_rx`, those of all queued requests are dropped, and the exchange is gone. -/
def Sys.processAll (s : Sys) (x : XState) : List Msg → Sys × Option XState
  | [] => (s, some x)
  | m :: ms =>
    if (x.step m.t m.rq).2.1 = .order .panic then
      ((m :: ms).foldl (fun s m => s.complete m.call .offline) s, none)
    else
      let r := s.process x m
      r.1.processAll r.2 ms

/-- The exchange task runs (if it exists and is scheduled) until `request_rx.recv()` is pending. -/
def Sys.runExchange (s : Sys) : Sys :=
  match s.gate, s.exch with
  | true, some x =>
    let r := { s with queue := [] }.processAll x s.queue
    { r.1 with exch := r.2 }
  | _, _ => s

/-- A latency task wakes up: `response_tx.send(response)` / `tx.send(balance); tx.send(trade)`. -/
def Sys.fireOne (s : Sys) (tm : Timer) : Sys :=
  match tm.act with
  | .resp call r => s.complete call (.answered r)
  | .notify evs => { s with log := s.log ++ evs }

/-- All latency tasks whose deadline has been reached run, in spawn order. -/
def Sys.fire (s : Sys) : Sys :=
  let due := s.timers.filter fun tm => decide (tm.due ≤ s.now)
  let rest := s.timers.filter fun tm => !decide (tm.due ≤ s.now)
  due.foldl Sys.fireOne { s with timers := rest, fired := s.fired + due.length }

/-- The runtime runs until every task is pending. -/
def Sys.settle (s : Sys) : Sys := s.runExchange.fire

/-- The exchange task is aborted: `MockExchange` is dropped, with it `request_rx` (every queued
request is dropped and with it its `response_tx`) and its `event_tx`. -/
def Sys.stop (s : Sys) : Sys :=
  s.queue.foldl (fun s m => s.complete m.call .offline) { s with exch := none, queue := [] }

inductive Op where
  /-- the client's clock function now returns `t` -/
  | clock (t : Int)
  /-- worker `w` calls a client method -/
  | call (w : Nat) (c : Call)
  /-- worker `w` drops the future of its pending call (and with it the oneshot receiver) -/
  | abandon (w : Nat)
  | exchOff
  | exchOn
  | exchStop
  /-- virtual time passes -/
  | adv (ms : Nat)
  /-- `account_stream()`: a new subscriber -/
  | sub
  /-- the subscriber's stream is polled until it is pending or has ended -/
  | poll (s : Nat)
  deriving DecidableEq, Repr, Inhabited

/-- Observations of one operation besides the completions: events handed to a polled subscriber and
whether its stream has ended. -/
structure PollObs where
  evs : List Event
  ended : Bool
  deriving DecidableEq, Repr, Inhabited

/-- A client method up to its first suspension (client/mock/mod.rs): the request is stamped with
`time_request() = (clock)()` and sent; a failed send returns the error at once. -/
def Sys.call (s : Sys) (w : Nat) (c : Call) : Sys :=
  let id := s.calls.length
  let alive := s.exch.isSome
  let s := { s with workers := s.workers.set w (some (⟨id, s.now, c⟩ : Pending)),
                    calls := s.calls ++ [(⟨w, s.clock, s.now, c, alive⟩ : CRec)] }
  if alive then { s with queue := s.queue ++ [(⟨id, s.clock, c.wire⟩ : Msg)] }
  else s.complete id .offline

/-- The broadcast channel is closed once every `Sender` is gone: the exchange's and the clones held
by sleeping notification tasks. -/
def Sys.closed (s : Sys) : Bool :=
  s.exch.isNone && s.timers.all fun tm => match tm.act with | .notify _ => false | .resp _ _ => true

/-- Polling an account stream until it is pending: `RecvError::Lagged` (the receiver is more than the
channel capacity behind) ends it (`map_while`, mod.rs:139-148), so does `Closed` after the last
value. -/
def Sys.drain (s : Sys) (b : Sub) : Sub × PollObs :=
  if b.ended then (b, ⟨[], true⟩)
  else if s.log.length - b.pos > s.capacity then ({ b with ended := true }, ⟨[], true⟩)
  else ({ b with pos := s.log.length, ended := s.closed, got := b.got ++ s.log.drop b.pos },
        ⟨s.log.drop b.pos, s.closed⟩)

/-- One operation followed by the runtime running to quiescence. `none`: the operation is not
possible (no such worker / subscriber, worker busy / idle). -/
def Sys.step (s : Sys) (op : Op) : Option (Sys × Option PollObs) :=
  let s := { s with out := [] }
  match op with
  | .clock t => some ({ s with clock := t }.settle, none)
  | .call w c =>
    match s.workers[w]? with
    | some none => some ((s.call w c).settle, none)
    | _ => none
  | .abandon w =>
    match s.workers[w]? with
    | some (some _) => some ({ s with workers := s.workers.set w none }.settle, none)
    | _ => none
  | .exchOff => some ({ s with gate := false }.settle, none)
  | .exchOn => some ({ s with gate := true }.settle, none)
  | .exchStop => some (s.stop.settle, none)
  | .adv ms => some ({ s with now := s.now + ms }.settle, none)
  | .sub => some ({ s with subs := s.subs ++ [(⟨s.log.length, false, s.log.length, []⟩ : Sub)] }.settle, none)
  | .poll i =>
    match s.subs[i]? with
    | some b =>
      let s := s.settle
      let (b', obs) := s.drain b
      some ({ s with subs := s.subs.set i b' }, some obs)
    | none => none

/-- A whole history; impossible operations are skipped. -/
def Sys.run (s : Sys) (ops : List Op) : Sys :=
  ops.foldl (fun s op => match s.step op with | some r => r.1 | none => s) s

/-! ## 3. Abstract specification (from the documented intent)

*Exchange.* What the exchange answers depends only on the configuration and on the requests it has
seen before: the ledger is the C08 specification (`MockExchange.Spec`: initial balances minus the
debits of the accepted orders), the open and cancelled orders are the configured ones — market
orders never rest — with the open ones carrying the exchange time of the latest request.

*Protocol.* The exchange sees the requests in the order the clients sent them. A call is answered
with the exchange's answer to ITS request, one latency after the exchange has seen it; a cancel
request is not supported and fails as soon as it is seen; a call whose request the exchange will
never see (the exchange is gone) fails. The account stream carries, for every accepted order, its
balance update and then its fill, one latency after the order was seen, in the order the orders
were seen; a subscriber receives what is sent after it subscribed.
-/
namespace Spec

/-- Every order of the configured snapshot, in configuration order. -/
def initialOrders (c : XCfg) : List InitOrd := c.groups.flatMap (·.2)

/-- The configured open orders. -/
def initialOpen (c : XCfg) : List OpenOrd :=
  (initialOrders c).filterMap fun (o : InitOrd) =>
    match o.state with
    | OState.open id time filled => some (⟨o.head, id, time, filled⟩ : OpenOrd)
    | _ => none

/-- The configured cancelled orders. -/
def initialCancelled (c : XCfg) : List CancOrd :=
  (initialOrders c).filterMap fun (o : InitOrd) =>
    match o.state with
    | OState.cancelled id time => some (⟨o.head, id, time⟩ : CancOrd)
    | _ => none

/-- Client order ids identify orders: the configuration is meaningful when no two configured open
orders (and no two configured cancelled orders) share one. -/
def distinctCids (c : XCfg) : Prop :=
  ((initialOpen c).map (·.head.cid)).Nodup ∧ ((initialCancelled c).map (·.head.cid)).Nodup

/-- Orders listed by client order id. -/
def byCid {α : Type} (key : α → Nat) (l : List α) : List α := l.mergeSort fun a b => decide (key a ≤ key b)

/-- The open orders as reported at exchange time `te`. -/
def openAt (c : XCfg) (te : Int) : List OpenOrd :=
  (byCid (·.head.cid) (initialOpen c)).map fun o => { o with time := te }

/-- All orders of the account as reported at exchange time `te`. -/
def ordersAt (c : XCfg) (te : Int) : List SnapOrd :=
  (openAt c te).map .open ++ (byCid (·.head.cid) (initialCancelled c)).map .cancelled

/-- Orders per instrument: one entry for every instrument that has at least one order, instruments
ascending, each entry holding exactly that instrument's orders. -/
def groups (os : List SnapOrd) : List (Nat × List SnapOrd) :=
  let bound := os.foldl (fun b o => max b (o.instr + 1)) 0
  (List.range bound).filterMap fun i =>
    let g := os.filter fun o => o.instr == i
    if g.isEmpty then none else some (i, g)

/-- What the specification says about an answer. -/
inductive Answer where
  /-- accepted order: id = fill id, exchange time, the debited asset, its new balance, the fill -/
  | filled (id : Nat) (time : Int) (qty : Rat) (asset : Nat) (balance : Rat) (trade : Trade)
  /-- rejected order (the reason is not specified) -/
  | rejected
  /-- `(total, free)` per asset and the exchange time they carry -/
  | balances (ledger : List (Rat × Rat)) (time : Int)
  | snapshot (ledger : List (Rat × Rat)) (time : Int) (groups : List (Nat × List SnapOrd))
  | orders (os : List OpenOrd)
  | trades (ts : List Trade)
  /-- cancelling is not supported: the call fails -/
  | unsupported
  deriving DecidableEq, Repr, Inhabited

/-- Exchange time of a request the client stamped `t`: half a latency later — except that the
exchange's clock cannot pass the last instant a `DateTime<Utc>` can hold (`maxTime`): a request whose
exchange time would lie beyond it keeps its own time (`update_time_exchange`'s `unwrap_or`). -/
def exchTime (c : XCfg) (t : Int) : Int :=
  let half : Int := ((c.base.latency / 2 : Nat) : Int)
  if maxTime < t + half then t else t + half

/-- The open-order requests of a history (oldest first) with the exchange time at which each was
seen, newest first (the input of the C08 specification). -/
def seenOpens (c : XCfg) : List (Int × Request) → List MockExchange.Spec.Ev
  | [] => []
  | (t, .openOrder r) :: rest => seenOpens c rest ++ [⟨exchTime c t, r⟩]
  | _ :: rest => seenOpens c rest

/-- The exchange's answer to request `rq` stamped `t`, after it has seen `hist` (oldest first). -/
def answer (c : XCfg) (hist : List (Int × Request)) (t : Int) (rq : Request) : Answer :=
  let acc := MockExchange.Spec.accepted c.base (seenOpens c hist)
  let te := exchTime c t
  match rq with
  | .fetchSnapshot => .snapshot (MockExchange.Spec.ledger c.base acc) te (groups (ordersAt c te))
  | .fetchBalances => .balances (MockExchange.Spec.ledger c.base acc) te
  | .fetchOrdersOpen => .orders (openAt c te)
  | .fetchTrades since => .trades (MockExchange.Spec.tradesSince c.base acc since)
  | .cancelOrder => .unsupported
  | .openOrder r =>
    match MockExchange.Spec.respond c.base acc ⟨te, r⟩ with
    | some (a, b, tr) => .filled acc.length te r.qty a b tr
    | none => .rejected

/-- A response of the exchange conforms to an answer of the specification. -/
def Conforms : XResp → Answer → Prop
  | .order (.accepted f), .filled id time qty a b tr => f = ⟨id, time, qty, a, ⟨b, b, time⟩, tr⟩
  | .order (.rejected _), .rejected => True
  | .balances bs, .balances l time => bs.map (fun b => (b.total, b.free)) = l ∧ ∀ b ∈ bs, b.time = time
  | .snapshot bs gs, .snapshot l time gs' =>
    bs.map (fun b => (b.total, b.free)) = l ∧ (∀ b ∈ bs, b.time = time) ∧ gs = gs'
  | .ordersOpen os, .orders os' => os = os'
  | .trades ts, .trades ts' => ts = ts'
  | .dropped, .unsupported => True
  | _, _ => False

/-- The notifications an answer is accompanied by: balance update, then fill. -/
def Answer.events : Answer → List Event
  | .filled _ time _ asset b tr => [.balance asset ⟨b, b, time⟩, .trade tr]
  | _ => []

/-- A request the exchange has seen, and at which (virtual) time. -/
structure Seen where
  call : Nat
  t : Int
  rq : Request
  at_ : Nat
  deriving DecidableEq, Repr, Inhabited

/-- State of the specification: no exchange state, no timers, no channel buffer — only what has been
asked (`seen`, `waiting`), who is waiting, and how far each subscriber has read. -/
structure SSys where
  cfg : XCfg
  now : Nat
  clock : Int
  alive : Bool
  gate : Bool
  seen : List Seen
  waiting : List Msg
  workers : List (Option Pending)
  subs : List Sub
  nextCall : Nat
  deriving Repr, Inhabited

def SSys.init (c : XCfg) (w : Nat) : SSys :=
  { cfg := c, now := 0, clock := 0, alive := true, gate := true, seen := [], waiting := [],
    workers := List.replicate w none, subs := [], nextCall := 0 }

/-- Every request seen so far with its answer: the answer to the `k`-th request seen is the exchange's
answer after the first `k` requests. -/
def SSys.answers (s : SSys) : List (Seen × Answer) :=
  s.seen.zipIdx.map fun ek => (ek.1, answer s.cfg ((s.seen.take ek.2).map fun e => (e.t, e.rq)) ek.1.t ek.1.rq)

/-! ### Compiled-code twin of `SSys.answers` (no part of the specification)

`SSys.answers` is declarative: the answer to the `k`-th request is computed from the first `k` requests from
scratch. The executable below (`Fast.answersFast`) makes ONE pass carrying the accepted orders and what
they have debited per asset; `Fast.answers_eq_fast` proves it equal to `SSys.answers` and is tagged `@[csimp]`,
so compiled code (the `spec` mode of the driver) runs the one-pass version while every definition and theorem
keeps speaking about `SSys.answers`. -/
namespace Fast
open MockExchange.Spec (Ev debited spends required balance fundsOk respond fillOf tradesSince accepted)

/-- What the accepted orders have spent, per asset. -/
def debitsOf (c : Cfg) (acc : List Ev) : List Rat :=
  (List.range c.init.length).map (debited c.fee c.instruments acc)

def pushGo (sp : Option Nat) (rq : Rat) : Nat → List Rat → List Rat
  | _, [] => []
  | a, d :: ds => ((if sp = some a then rq else 0) + d) :: pushGo sp rq (a + 1) ds

/-- `debitsOf` after one more accepted order. -/
def debitsPush (c : Cfg) (e : Ev) (debs : List Rat) : List Rat :=
  pushGo (spends c.instruments e.req) (required c.fee e.req) 0 debs

theorem pushGo_range' (fee : Rat) (ins : List Instr) (e : Ev) (acc : List Ev) (n : Nat) : ∀ a : Nat,
    pushGo (spends ins e.req) (required fee e.req) a ((List.range' a n).map (debited fee ins acc)) =
      (List.range' a n).map (debited fee ins (e :: acc)) := by
  induction n with
  | zero => intro a; rfl
  | succ n ih => intro a; simp only [List.range'_succ, List.map_cons, pushGo, ih, debited]

theorem debitsOf_cons (c : Cfg) (e : Ev) (acc : List Ev) :
    debitsOf c (e :: acc) = debitsPush c e (debitsOf c acc) := by
  simp only [debitsOf, debitsPush, List.range_eq_range', pushGo_range']

def balanceD (c : Cfg) (debs : List Rat) (a : Nat) : Option Rat :=
  match c.init[a]?, debs[a]? with
  | some p, some d => some (p.2 - d)
  | _, _ => none

theorem balanceD_eq (c : Cfg) (acc : List Ev) (a : Nat) : balanceD c (debitsOf c acc) a = balance c acc a := by
  unfold balanceD balance debitsOf
  cases h : c.init[a]? with
  | none => simp
  | some p =>
    have hlt : a < c.init.length := (List.getElem?_eq_some_iff.mp h).1
    simp [List.getElem?_map, List.getElem?_range hlt]

def fundsOkD (c : Cfg) (debs : List Rat) (r : Req) : Bool :=
  r.kind == .market &&
  match spends c.instruments r with
  | none => false
  | some a =>
    match balanceD c debs a with
    | none => false
    | some b => decide (required c.fee r ≤ b)

theorem fundsOkD_eq (c : Cfg) (acc : List Ev) (r : Req) : fundsOkD c (debitsOf c acc) r = fundsOk c acc r := by
  simp only [fundsOkD, fundsOk, balanceD_eq] <;> rfl

def respondD (c : Cfg) (n : Nat) (debs : List Rat) (e : Ev) : Option (Nat × Rat × Trade) :=
  if fundsOkD c debs e.req then
    match spends c.instruments e.req with
    | none => none
    | some a =>
      match balanceD c debs a with
      | none => none
      | some b => some (a, b - required c.fee e.req, fillOf c n e)
  else none

theorem respondD_eq (c : Cfg) (acc : List Ev) (e : Ev) :
    respondD c acc.length (debitsOf c acc) e = respond c acc e := by
  simp only [respondD, respond, fundsOkD_eq, balanceD_eq] <;> rfl

def ledgerD (c : Cfg) (debs : List Rat) : List (Rat × Rat) :=
  (List.range c.init.length).map fun a =>
    match balanceD c debs a with
    | some b => (b, b)
    | none => (0, 0)

theorem ledgerD_eq (c : Cfg) (acc : List Ev) : ledgerD c (debitsOf c acc) = MockExchange.Spec.ledger c acc := by
  simp only [ledgerD, MockExchange.Spec.ledger, balanceD_eq] <;> rfl

/-- `answer` from the accepted orders `acc` and their debits `debs`. -/
def answerD (c : XCfg) (acc : List Ev) (debs : List Rat) (t : Int) (rq : Request) : Answer :=
  let te := exchTime c t
  match rq with
  | .fetchSnapshot => .snapshot (ledgerD c.base debs) te (groups (ordersAt c te))
  | .fetchBalances => .balances (ledgerD c.base debs) te
  | .fetchOrdersOpen => .orders (openAt c te)
  | .fetchTrades since => .trades (tradesSince c.base acc since)
  | .cancelOrder => .unsupported
  | .openOrder r =>
    match respondD c.base acc.length debs ⟨te, r⟩ with
    | some (a, b, tr) => .filled acc.length te r.qty a b tr
    | none => .rejected

theorem answerD_eq (c : XCfg) (hist : List (Int × Request)) (t : Int) (rq : Request) :
    answerD c (accepted c.base (seenOpens c hist)) (debitsOf c.base (accepted c.base (seenOpens c hist))) t rq =
      answer c hist t rq := by
  simp only [answerD, answer, ledgerD_eq, respondD_eq] <;> rfl

theorem seenOpens_append (c : XCfg) (a b : List (Int × Request)) :
    seenOpens c (a ++ b) = seenOpens c b ++ seenOpens c a := by
  induction a with
  | nil => simp [seenOpens]
  | cons op a ih =>
    obtain ⟨t, rq⟩ := op
    cases rq <;> simp [seenOpens, ih]

/-- One pass over the requests seen, carrying the accepted orders so far and their debits. -/
def answersGo (c : XCfg) : List Seen → List Ev → List Rat → List (Seen × Answer) → List (Seen × Answer)
  | [], _, _, out => out.reverse
  | e :: es, acc, debs, out =>
    let out := (e, answerD c acc debs e.t e.rq) :: out
    match e.rq with
    | .openOrder r =>
      if fundsOkD c.base debs r then
        answersGo c es (⟨exchTime c e.t, r⟩ :: acc) (debitsPush c.base ⟨exchTime c e.t, r⟩ debs) out
      else answersGo c es acc debs out
    | _ => answersGo c es acc debs out

def histOf (l : List Seen) : List (Int × Request) := l.map fun e => (e.t, e.rq)

theorem answersGo_eq (c : XCfg) : ∀ (es pre : List Seen) (out : List (Seen × Answer)),
    answersGo c es (accepted c.base (seenOpens c (histOf pre)))
        (debitsOf c.base (accepted c.base (seenOpens c (histOf pre)))) out =
      out.reverse ++ (es.zipIdx pre.length).map fun ek =>
        (ek.1, answer c (histOf ((pre ++ es).take ek.2)) ek.1.t ek.1.rq) := by
  intro es
  induction es with
  | nil => intro pre out; simp [answersGo]
  | cons e es ih =>
    intro pre out
    have hpre : pre ++ e :: es = (pre ++ [e]) ++ es := by simp
    have key : ∀ acc' , acc' = accepted c.base (seenOpens c (histOf (pre ++ [e]))) →
        answersGo c es acc' (debitsOf c.base acc') ((e, answerD c (accepted c.base (seenOpens c (histOf pre)))
            (debitsOf c.base (accepted c.base (seenOpens c (histOf pre)))) e.t e.rq) :: out) =
          out.reverse ++ ((e :: es).zipIdx pre.length).map fun ek =>
            (ek.1, answer c (histOf ((pre ++ e :: es).take ek.2)) ek.1.t ek.1.rq) := by
      intro acc' hacc
      subst hacc
      rw [ih (pre ++ [e]), hpre, answerD_eq]
      simp only [List.zipIdx_cons, List.map_cons, List.reverse_cons, List.append_assoc, List.singleton_append,
        List.length_append, List.length_singleton, List.take_left]
    have hso : seenOpens c (histOf (pre ++ [e])) =
        seenOpens c [(e.t, e.rq)] ++ seenOpens c (histOf pre) := by
      simp only [histOf, List.map_append, seenOpens_append]; rfl
    unfold answersGo
    cases hrq : e.rq with
    | openOrder r =>
      simp only [fundsOkD_eq]
      have hs1 : seenOpens c [(e.t, e.rq)] = [⟨exchTime c e.t, r⟩] := by rw [hrq]; rfl
      rw [hs1] at hso
      split
      · next hf =>
        rw [← debitsOf_cons, ← hrq]
        apply key
        rw [hso]; simp only [List.singleton_append, accepted, hf, if_true]
      · next hf =>
        rw [← hrq]
        apply key
        rw [hso]; simp only [List.singleton_append, accepted, hf]; rfl
    | _ =>
      simp only
      rw [← hrq]
      apply key
      rw [hso, hrq]; rfl

/-- `SSys.answers` in one pass. -/
def answersFast (s : SSys) : List (Seen × Answer) :=
  answersGo s.cfg s.seen [] (debitsOf s.cfg.base []) []

@[csimp] theorem answers_eq_fast : @SSys.answers = @answersFast := by
  funext s
  have h := answersGo_eq s.cfg s.seen [] []
  simp only [histOf, List.map_nil, seenOpens, accepted, List.length_nil, List.nil_append, List.reverse_nil] at h
  unfold answersFast SSys.answers
  rw [h]

end Fast

/-- A request seen at `at_` has its answer and notifications delivered at `at_ + latency`. -/
def SSys.delivered (s : SSys) (e : Seen) : Bool := decide (e.at_ + s.cfg.base.latency ≤ s.now)

/-- Everything sent on the account stream up to now: the notifications of the requests seen at
least one latency ago. -/
def SSys.sent (s : SSys) : List Event :=
  s.answers.flatMap fun ea => if s.delivered ea.1 then ea.2.events else []

/-- Notifications still to come. -/
def SSys.outstanding (s : SSys) : Bool :=
  s.answers.any fun ea => !s.delivered ea.1 && !ea.2.events.isEmpty

/-- How a call has ended, if it has. -/
inductive Ending where
  | answered (a : Answer)
  | failed
  deriving DecidableEq, Repr, Inhabited

/-- The rule for the end of a call: seen → answered one latency later (a cancel request fails when
seen); never to be seen → fails. -/
def SSys.ending (s : SSys) (p : Pending) : Option Ending :=
  match s.answers.find? fun ea => ea.1.call == p.call with
  | some (e, a) =>
    if a = .unsupported then some .failed
    else if s.delivered e then some (.answered a) else none
  | none => if s.alive then none else some .failed

/-- A completed call in the specification. -/
structure SDone where
  worker : Nat
  call : Nat
  elapsed : Nat
  ending : Ending
  deriving DecidableEq, Repr, Inhabited

/-- The exchange, when scheduled and alive, sees everything that is waiting, in order. -/
def SSys.see (s : SSys) : SSys :=
  if s.gate && s.alive then
    { s with seen := s.seen ++ s.waiting.map (fun m => (⟨m.call, m.t, m.rq, s.now⟩ : Seen)), waiting := [] }
  else s

/-- Workers whose call has ended return. -/
def SSys.finish (s : SSys) : SSys × List SDone :=
  let ends := (s.workers.zipIdx).filterMap fun (w, i) =>
    match w with
    | some p => (s.ending p).map fun e => (⟨i, p.call, s.now - p.started, e⟩ : SDone)
    | none => none
  ({ s with workers := s.workers.map fun w =>
      match w with
      | some p => if (s.ending p).isSome then none else some p
      | none => none }, ends)

/-! ### Compiled-code twin of `SSys.finish` (no part of the specification)

`SSys.finish` asks `SSys.ending` twice per waiting worker and every `ending` evaluates `SSys.answers`. The
executable below evaluates the answers at most ONCE per `finish` (a `Thunk`: not at all when no worker waits);
`Fast.finish_eq_fast` (`@[csimp]`, proved by unfolding) makes compiled code use it. -/
namespace Fast

/-- `SSys.ending` with the answers handed in. -/
def endingWith (s : SSys) (as : List (Seen × Answer)) (p : Pending) : Option Ending :=
  match as.find? fun ea => ea.1.call == p.call with
  | some (e, a) =>
    if a = .unsupported then some .failed
    else if s.delivered e then some (.answered a) else none
  | none => if s.alive then none else some .failed

theorem ending_eq_with (s : SSys) (p : Pending) : s.ending p = endingWith s s.answers p := rfl

/-- `SSys.finish` with the answers evaluated at most once. -/
def finishFast (s : SSys) : SSys × List SDone :=
  let as : Thunk (List (Seen × Answer)) := Thunk.mk fun _ => s.answers
  let ends := (s.workers.zipIdx).filterMap fun (w, i) =>
    match w with
    | some p => (endingWith s as.get p).map fun e => (⟨i, p.call, s.now - p.started, e⟩ : SDone)
    | none => none
  ({ s with workers := s.workers.map fun w =>
      match w with
      | some p => if (endingWith s as.get p).isSome then none else some p
      | none => none }, ends)

@[csimp] theorem finish_eq_fast : @SSys.finish = @finishFast := by
  funext s
  rfl

end Fast

def SSys.settle (s : SSys) : SSys × List SDone := s.see.finish

def SSys.closed (s : SSys) : Bool := !s.alive && !s.outstanding

def SSys.capacity (s : SSys) : Nat := nextPow2 s.cfg.cap

/-- A subscriber reads on: it has lost the stream if more than the channel's capacity was sent
since it last read; otherwise it receives everything sent since. -/
def SSys.drain (s : SSys) (b : Sub) : Sub × PollObs :=
  if b.ended then (b, ⟨[], true⟩)
  else if s.sent.length - b.pos > s.capacity then ({ b with ended := true }, ⟨[], true⟩)
  else ({ b with pos := s.sent.length, ended := s.closed, got := b.got ++ s.sent.drop b.pos },
        ⟨s.sent.drop b.pos, s.closed⟩)

def SSys.step (s : SSys) (op : Op) : Option (SSys × List SDone × Option PollObs) :=
  match op with
  | .clock t => let r := { s with clock := t }.settle; some (r.1, r.2, none)
  | .call w c =>
    match s.workers[w]? with
    | some none =>
      let id := s.nextCall
      let s := { s with workers := s.workers.set w (some (⟨id, s.now, c⟩ : Pending)), nextCall := id + 1 }
      let s := if s.alive then { s with waiting := s.waiting ++ [(⟨id, s.clock, c.wire⟩ : Msg)] } else s
      let r := s.settle; some (r.1, r.2, none)
    | _ => none
  | .abandon w =>
    match s.workers[w]? with
    | some (some _) => let r := { s with workers := s.workers.set w none }.settle; some (r.1, r.2, none)
    | _ => none
  | .exchOff => let r := { s with gate := false }.settle; some (r.1, r.2, none)
  | .exchOn => let r := { s with gate := true }.settle; some (r.1, r.2, none)
  | .exchStop => let r := { s with alive := false, waiting := [] }.settle; some (r.1, r.2, none)
  | .adv ms => let r := { s with now := s.now + ms }.settle; some (r.1, r.2, none)
  | .sub => let r := { s with subs := s.subs ++ [(⟨s.sent.length, false, s.sent.length, []⟩ : Sub)] }.settle; some (r.1, r.2, none)
  | .poll i =>
    match s.subs[i]? with
    | some b =>
      let r := s.settle
      let (b', obs) := r.1.drain b
      some ({ r.1 with subs := r.1.subs.set i b' }, r.2, some obs)
    | none => none

/-- A whole history; impossible operations are skipped. -/
def SSys.run (s : SSys) (ops : List Op) : SSys :=
  ops.foldl (fun s op => match s.step op with | some r => r.1 | none => s) s

end Spec

end BarterModel.MockClient
