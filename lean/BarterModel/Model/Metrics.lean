import BarterModel.Model.DataSet
import BarterModel.Model.Drawdown
import BarterModel.Model.TearSheet
/-!
# C16M — risk-adjusted return metrics and time-interval scaling (core Lean only)

Concrete model, function for function, of
* `barter/src/statistic/time.rs` — the `TimeInterval` implementations `Daily`, `Annual252`,
  `Annual365` and `chrono::TimeDelta` (`name`, `interval`),
* `barter/src/statistic/metric/sharpe.rs`, `sortino.rs`, `calmar.rs`, `rate_of_return.rs` —
  `calculate` and `scale`,
* `barter/src/statistic/summary/instrument.rs` — the *whole* `TearSheetGenerator`
  (`init`, `update_from_position`, `generate`), composed from the already existing models of its
  parts: `DataSetSummary` (`Model/DataSet.lean`, C17), the drawdown generators
  (`Model/Drawdown.lean`, C18) and `WinRate` / `ProfitFactor` / `calculate_pnl_return`
  (`Model/TearSheet.lean`, C16).
  `TearSheetAssetGenerator::generate` (`summary/asset.rs:56-69`) computes no risk-adjusted metric at
  all (an asset tear sheet carries `balance_end` and the three drawdown reports only); it is
  `Drawdown.Sheet.generate` + `TearSheet.TearSheetAssetGenerator.generate` and is not repeated here.

Conventions (DESIGN §3): `Decimal` is exact `Rat`; `DateTime<Utc>` and `TimeDelta` are `Int`
milliseconds; `Decimal::sqrt` is a *parameter* `sqrtFn : Rat → Rat` (the drivers plug in
`DataSet.sqrtApprox`). Two `Decimal` behaviours that the code branches on *are* modelled because the
branch is written in the source (`.unwrap_or(Decimal::MAX)`):
* `checked_div` returns `None` on a zero divisor,
* `checked_mul` returns `None` when the product does not fit (`|a·b| > Decimal::MAX`; the last half
  unit below the rounding boundary is not modelled).
Not modelled: rounding; the `checked_div(..).unwrap()` of `calculate` overflowing (quotient beyond
`Decimal::MAX`); the panic inside rust_decimal's `Decimal::sqrt` ("geo mean circuit breaker", F10) —
`scale` calls the *library* root, not the repaired `statistic::algorithm::sqrt`.

Second half: the abstract specification, written from the doc comments, the names and the maths
(extended values with ±∞, exact interval lengths, `v·√(B/A)` and `v·(B/A)`).
-/
namespace BarterModel.Metrics
open BarterModel

/-! ## Time intervals (`statistic/time.rs`) -/

/-- The four `TimeInterval` implementors (time.rs:36-86). A `TimeDelta` is its length in ms. -/
inductive Interval where
  | daily
  | annual252
  | annual365
  | delta (ms : Int)
  deriving DecidableEq, Repr, Inhabited

/-- `TimeDelta::days(1)` in milliseconds. -/
def msPerDay : Int := 86400000

/-- `TimeInterval::interval` (time.rs:44-46, 57-59, 70-72, 83-85), in milliseconds. -/
def Interval.interval : Interval → Int
  | .daily => msPerDay
  | .annual252 => 252 * msPerDay
  | .annual365 => 365 * msPerDay
  | .delta ms => ms

/-- `TimeDelta::num_seconds`: whole seconds, truncated toward zero. -/
def numSeconds (ms : Int) : Int := Int.tdiv ms 1000

/-- `TimeDelta::num_minutes` = `num_seconds() / 60` (truncating). -/
def numMinutes (ms : Int) : Int := Int.tdiv (numSeconds ms) 60

/-- `TimeInterval::name` (time.rs:40-42, 53-55, 66-68, 79-81). -/
def Interval.name : Interval → String
  | .daily => "Daily"
  | .annual252 => "Annual(252)"
  | .annual365 => "Annual(365)"
  | .delta ms => "Duration " ++ toString (numMinutes ms) ++ " (minutes)"

/-- `Decimal::from(x.interval().num_seconds())` (first two lines of every `scale`). -/
def Interval.secs (i : Interval) : Rat := ((numSeconds i.interval : Int) : Rat)

/-! ## `Decimal` primitives the code branches on -/

/-- `Decimal::MAX` = 2⁹⁶ − 1 (shared with C16). -/
abbrev decimalMax : Rat := TearSheet.decimalMax
/-- `Decimal::MIN` = −`Decimal::MAX`. -/
abbrev decimalMin : Rat := TearSheet.decimalMin

/-- `Decimal::checked_div`: `None` on a zero divisor. -/
def checkedDiv (a b : Rat) : Option Rat := if b = 0 then none else some (a / b)

/-- `Decimal::checked_mul`: `None` when the product exceeds the representable range. -/
def checkedMul (a b : Rat) : Option Rat :=
  if decimalMax < (a * b).abs then none else some (a * b)

/-! ## The four metrics -/

/-- `SharpeRatio<Interval>` / `SortinoRatio<_>` / `CalmarRatio<_>` / `RateOfReturn<_>`
(sharpe.rs:12-15, sortino.rs:12-15, calmar.rs:14-17, rate_of_return.rs:12-15): the four structs have
the same two fields. -/
structure Metric where
  value : Rat
  interval : Interval
  deriving DecidableEq, Repr, Inhabited

/-- The scale factor before the root (sharpe.rs:53-59 etc.):
`target_secs.abs().checked_div(current_secs.abs()).unwrap_or(Decimal::MAX)`. -/
def periods (current target : Interval) : Rat :=
  (checkedDiv target.secs.abs current.secs.abs).getD decimalMax

/-- The common body of the four `scale` functions: `law` is `Decimal::sqrt` for the three
risk-adjusted ratios and the identity for `RateOfReturn`.
`value.checked_mul(scale).unwrap_or(Decimal::MAX)`. -/
def Metric.scaleWith (law : Rat → Rat) (m : Metric) (target : Interval) : Metric :=
  let scale := law (periods m.interval target)
  { value := (checkedMul m.value scale).getD decimalMax, interval := target }

/-- `SharpeRatio::calculate` (sharpe.rs:22-42). -/
def SharpeRatio.calculate (riskFreeReturn meanReturn stdDevReturns : Rat) (returnsPeriod : Interval) :
    Metric :=
  if stdDevReturns = 0 then
    { value := decimalMax, interval := returnsPeriod }
  else
    let excessReturns := meanReturn - riskFreeReturn
    { value := excessReturns / stdDevReturns, interval := returnsPeriod }

/-- `SharpeRatio::scale` (sharpe.rs:47-67). `Decimal::sqrt` is `None` only for a negative argument;
`periods` is never negative, so the `.expect` is unreachable. -/
def SharpeRatio.scale (sqrtFn : Rat → Rat) (self : Metric) (target : Interval) : Metric :=
  self.scaleWith sqrtFn target

/-- `SortinoRatio::calculate` (sortino.rs:23-50). -/
def SortinoRatio.calculate (riskFreeReturn meanReturn stdDevLossReturns : Rat)
    (returnsPeriod : Interval) : Metric :=
  if stdDevLossReturns = 0 then
    { value :=
        if riskFreeReturn < meanReturn then decimalMax        -- Ordering::Greater
        else if meanReturn < riskFreeReturn then decimalMin   -- Ordering::Less
        else 0                                                -- Ordering::Equal
      interval := returnsPeriod }
  else
    let excessReturns := meanReturn - riskFreeReturn
    { value := excessReturns / stdDevLossReturns, interval := returnsPeriod }

/-- `SortinoRatio::scale` (sortino.rs:56-76). -/
def SortinoRatio.scale (sqrtFn : Rat → Rat) (self : Metric) (target : Interval) : Metric :=
  self.scaleWith sqrtFn target

/-- `CalmarRatio::calculate` (calmar.rs:24-51): the divisor is `max_drawdown.abs()`. -/
def CalmarRatio.calculate (riskFreeReturn meanReturn maxDrawdown : Rat) (returnsPeriod : Interval) :
    Metric :=
  if maxDrawdown = 0 then
    { value :=
        if riskFreeReturn < meanReturn then decimalMax
        else if meanReturn < riskFreeReturn then decimalMin
        else 0
      interval := returnsPeriod }
  else
    let excessReturns := meanReturn - riskFreeReturn
    { value := excessReturns / maxDrawdown.abs, interval := returnsPeriod }

/-- `CalmarRatio::scale` (calmar.rs:58-78). -/
def CalmarRatio.scale (sqrtFn : Rat → Rat) (self : Metric) (target : Interval) : Metric :=
  self.scaleWith sqrtFn target

/-- `RateOfReturn::calculate` (rate_of_return.rs:22-27). -/
def RateOfReturn.calculate (meanReturn : Rat) (returnsPeriod : Interval) : Metric :=
  { value := meanReturn, interval := returnsPeriod }

/-- `RateOfReturn::scale` (rate_of_return.rs:38-55): no root. -/
def RateOfReturn.scale (self : Metric) (target : Interval) : Metric :=
  self.scaleWith id target

/-! ## The instrument tear sheet (`summary/instrument.rs`) -/

/-- The fields of `PositionExited` read by `update_from_position`: `time_exit` and the three
fields `PnLReturns::update` reads. -/
structure Exit where
  timeExit : Int
  closed : TearSheet.Closed
  deriving DecidableEq, Repr, Inhabited

/-- `TearSheetGenerator` (instrument.rs:43-54): clock, `PnLReturns` (pnl.rs:23-39, flattened) and
the three drawdown generators. -/
structure Gen where
  timeEngineStart : Int
  timeEngineNow : Int
  pnlRaw : Rat
  total : DataSet.Summary
  losses : DataSet.Summary
  sheet : Drawdown.Sheet
  deriving DecidableEq, Repr

/-- `TearSheetGenerator::init` (instrument.rs:58-67). -/
def Gen.init (timeEngineStart : Int) : Gen :=
  { timeEngineStart := timeEngineStart, timeEngineNow := timeEngineStart, pnlRaw := 0,
    total := DataSet.Summary.default, losses := DataSet.Summary.default,
    sheet := Drawdown.Sheet.default }

/-- `TearSheetGenerator::update_from_position` (instrument.rs:70-85) with `PnLReturns::update`
(pnl.rs:43-63) inlined. `sqrtFn` is the root used by `Dispersion::update`. -/
def Gen.updateFromPosition (sqrtFn : Rat → Rat) (g : Gen) (position : Exit) : Gen :=
  let pnlRaw := g.pnlRaw + position.closed.pnlRealised
  let pnlReturn := TearSheet.calculatePnlReturn position.closed.pnlRealised
    position.closed.priceEntryAverage position.closed.quantityAbsMax
  let total := g.total.update sqrtFn pnlReturn
  let losses := if pnlReturn < 0 then g.losses.update sqrtFn pnlReturn else g.losses
  { timeEngineStart := g.timeEngineStart, timeEngineNow := position.timeExit, pnlRaw := pnlRaw,
    total := total, losses := losses,
    sheet := (g.sheet.update ⟨position.timeExit, pnlRaw⟩).1 }

/-- `TearSheet<Interval>` (instrument.rs:28-39). -/
structure Sheet where
  pnl : Rat
  pnlReturn : Metric
  sharpeRatio : Metric
  sortinoRatio : Metric
  calmarRatio : Metric
  drawdowns : Drawdown.Report
  winRate : Option Rat
  profitFactor : Option Rat
  deriving DecidableEq, Repr

/-- `trading_period` (instrument.rs:98-101):
`time_engine_now.signed_duration_since(time_engine_start).max(TimeDelta::seconds(1))`. -/
def Gen.tradingPeriod (g : Gen) : Interval :=
  .delta (max (g.timeEngineNow - g.timeEngineStart) 1000)

/-- `TearSheetGenerator::generate` (instrument.rs:90-165). `&mut self`: the in-progress drawdown is
folded into the mean/max generators, hence the returned generator. -/
def Gen.generate (sqrtFn : Rat → Rat) (g : Gen) (riskFreeReturn : Rat) (interval : Interval) :
    Gen × Sheet :=
  let tradingPeriod := g.tradingPeriod
  let sharpeRatio :=
    SharpeRatio.scale sqrtFn
      (SharpeRatio.calculate riskFreeReturn g.total.mean g.total.dispersion.stdDev tradingPeriod)
      interval
  let sortinoRatio :=
    SortinoRatio.scale sqrtFn
      (SortinoRatio.calculate riskFreeReturn g.total.mean g.losses.dispersion.stdDev tradingPeriod)
      interval
  let (sheet', report) := g.sheet.generate
  let calmarRatio :=
    CalmarRatio.scale sqrtFn
      (CalmarRatio.calculate riskFreeReturn g.total.mean
        -- `.unwrap_or(&MaxDrawdown(Drawdown::default())).0.value`
        ((report.max.map (·.value)).getD 0) tradingPeriod)
      interval
  let pnlReturn := RateOfReturn.scale (RateOfReturn.calculate g.total.mean tradingPeriod) interval
  let winRate := TearSheet.WinRate.calculate (g.total.count - g.losses.count) g.total.count
  let profitFactor := TearSheet.ProfitFactor.calculate (g.total.sum - g.losses.sum) g.losses.sum
  ({ g with sheet := sheet' },
   { pnl := g.pnlRaw, pnlReturn := pnlReturn, sharpeRatio := sharpeRatio,
     sortinoRatio := sortinoRatio, calmarRatio := calmarRatio, drawdowns := report,
     winRate := winRate, profitFactor := profitFactor })

/-- A fresh generator fed a whole list of exited positions, oldest first. -/
def Gen.run (sqrtFn : Rat → Rat) (g : Gen) (ps : List Exit) : Gen :=
  ps.foldl (Gen.updateFromPosition sqrtFn) g

/-! ## Abstract specification (from the doc comments and the maths)

A risk-adjusted ratio is "excess return over risk" — a quotient that does not exist when the risk
is zero. The doc comments and unit tests fix the convention: no risk and positive excess is
"very good" (`Decimal::MAX`), no risk and negative excess "very bad" (`Decimal::MIN`), no risk and
no excess "neutral" (`0`); the Sharpe ratio documents/tests only "zero std-dev ⇒ `Decimal::MAX`".
The spec therefore works with extended values. -/

/-- A metric value that may be "infinitely good / bad". -/
inductive Ext where
  | negInf
  | fin (r : Rat)
  | posInf
  deriving DecidableEq, Repr, Inhabited

/-- How an extended value is reported in a `Decimal` field. -/
def Ext.toDecimal : Ext → Rat
  | .negInf => decimalMin
  | .fin r => r
  | .posInf => decimalMax

/-- excess / risk with the three documented zero-risk conventions (Sortino, Calmar). -/
def specRatio (excess risk : Rat) : Ext :=
  if risk = 0 then
    (if 0 < excess then .posInf else if excess < 0 then .negInf else .fin 0)
  else .fin (excess / risk)

/-- Sharpe: (mean − risk-free) / σ; with σ = 0 the only documented outcome is `Decimal::MAX`
(`test_sharpe_ratio_with_zero_std_dev`). -/
def specSharpe (riskFree mean stdDev : Rat) : Ext :=
  if stdDev = 0 then .posInf else .fin ((mean - riskFree) / stdDev)

/-- Sortino: (mean − risk-free) / downside deviation. -/
def specSortino (riskFree mean downsideDev : Rat) : Ext := specRatio (mean - riskFree) downsideDev

/-- Calmar: (mean − risk-free) / |maximum drawdown| ("negative drawdown values are handled
correctly (absolute value is used)", `test_calmar_ratio_absolute_drawdown`). -/
def specCalmar (riskFree mean maxDrawdown : Rat) : Ext :=
  specRatio (mean - riskFree) (if maxDrawdown < 0 then -maxDrawdown else maxDrawdown)

/-- Length of an interval in seconds, exact (a `TimeDelta` has sub-second resolution); the sign of a
`TimeDelta` is irrelevant for a length. -/
def Interval.length (i : Interval) : Rat :=
  let ms : Rat := (i.interval : Rat)
  (if ms < 0 then -ms else ms) / 1000

/-- "number of Self Intervals in TargetIntervals" (the comment in every `scale`): defined when the
current interval has a length. -/
def specPeriods (current target : Interval) : Option Rat :=
  if current.length = 0 then none else some (target.length / current.length)

/-- Multiplying an extended value by a non-negative factor: ±∞ stay ±∞ under a positive factor and
everything is `0` under factor `0`. -/
def Ext.scaleBy (k : Rat) : Ext → Ext
  | .fin r => .fin (r * k)
  | .posInf => if k = 0 then .fin 0 else .posInf
  | .negInf => if k = 0 then .fin 0 else .negInf

/-- Risk-adjusted ratios scale with the square root of time (IID returns):
`v ↦ v · √(B/A)`. `sqrtFn` is the square root. -/
def specScaleSqrt (sqrtFn : Rat → Rat) (v : Ext) (current target : Interval) : Option Ext :=
  (specPeriods current target).map (fun n => v.scaleBy (sqrtFn n))

/-- "Unlike risk metrics which use square root scaling, RateOfReturn scales linearly with time":
`v ↦ v · (B/A)`. -/
def specScaleLinear (v : Ext) (current target : Interval) : Option Ext :=
  (specPeriods current target).map (fun n => v.scaleBy n)

/-- Does the value fit a `Decimal` as a finite number (strictly inside the two sentinels)? -/
def Ext.representable : Ext → Bool
  | .fin r => decide (decimalMin < r ∧ r < decimalMax)
  | _ => true

/-! ### The tear sheet of a history -/

/-- Return of an exited position: realised PnL over the cost of the investment. -/
def retOf (p : Exit) : Rat := TearSheet.ret p.closed

/-- The returns of a history / of its losing positions, oldest first. -/
def returns (ps : List Exit) : List Rat := ps.map retOf
def lossReturns (ps : List Exit) : List Rat := (returns ps).filter (fun r => decide (r < 0))

/-- Population standard deviation of a dataset (`0` for the empty one). -/
def specStdDev (sqrtFn : Rat → Rat) (xs : List Rat) : Rat :=
  if xs.isEmpty then 0 else sqrtFn (DataSet.specVariance xs)

/-- The trading session so far: from the engine start to the exit of the last closed position, at
least one second ("`.max(TimeDelta::seconds(1))`"). Times in ms. -/
def specTradingPeriod (start : Int) (ps : List Exit) : Interval :=
  let now := match ps.getLast? with
    | some p => p.timeExit
    | none => start
  .delta (if now - start < 1000 then 1000 else now - start)

/-- The PnL curve the drawdowns are measured on: cumulative realised PnL at each exit time. -/
def specCurve (ps : List Exit) : List Drawdown.Pt :=
  Drawdown.pnlCurve 0 (ps.map fun p => (p.timeExit, p.closed.pnlRealised))

/-- The four un-scaled metrics of a history, as extended values, each over the trading period. -/
structure SpecMetrics where
  pnlReturn : Ext
  sharpe : Ext
  sortino : Ext
  calmar : Ext
  deriving DecidableEq, Repr

def specMetrics (sqrtFn : Rat → Rat) (riskFree : Rat) (ps : List Exit) (maxDrawdown : Rat) :
    SpecMetrics :=
  let mean := DataSet.specMean (returns ps)
  { pnlReturn := .fin mean
    sharpe := specSharpe riskFree mean (specStdDev sqrtFn (returns ps))
    sortino := specSortino riskFree mean (specStdDev sqrtFn (lossReturns ps))
    calmar := specCalmar riskFree mean maxDrawdown }

/-! ## Where the code panics — the checked run

`Gen.updateFromPosition` above is total: on a closed position whose cost of investment
`price_entry_average * quantity_abs_max` is zero it computes `pnl / 0 = 0` (Lean's convention) and
goes on. The code does not: `calculate_pnl_return` (position.rs:549-555) is a plain `Decimal` `/`,
which panics ("Division by zero") — after `pnl_raw += ..` (pnl.rs:47), before anything else is
updated; the generator is lost with the unwinding. The definitions below make that outcome explicit:
`none` = the code panicked. The drivers run these (they print `panic` exactly when the result is
`none`), and the theorems about "what the code reports" are stated of them
(`Props/C16M.lean` §7). No other division by zero is reachable in `update_from_position` /
`generate` (`trading_period` is clamped to ≥ 1 s; the Welford updates divide by a count ≥ 1; every
other division is a `checked_div` or sits behind a zero test); the panics of the `Decimal` RANGE
(`+` / `−` / `×` / `÷` overflow) are outside the model (DESIGN §3, `props/C16M.py` ASSUMPTIONS). -/

/-- `update_from_position` panics on this position: zero cost of investment
(`TearSheet.Closed.panics`: `price_entry_average * quantity_abs_max == 0`). -/
def Exit.panics (p : Exit) : Bool := p.closed.panics

/-- `TearSheetGenerator::update_from_position` with the panic explicit. -/
def Gen.updateChecked (sqrtFn : Rat → Rat) (g : Gen) (p : Exit) : Option Gen :=
  if p.panics then none else some (g.updateFromPosition sqrtFn p)

/-- A whole history through `update_from_position`, oldest first; `none` as soon as one call
panics (the later positions are never seen). -/
def Gen.runChecked (sqrtFn : Rat → Rat) : Gen → List Exit → Option Gen
  | g, [] => some g
  | g, p :: ps =>
    match g.updateChecked sqrtFn p with
    | none => none
    | some g' => Gen.runChecked sqrtFn g' ps

end BarterModel.Metrics
