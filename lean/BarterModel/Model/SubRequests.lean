import BarterModel.Model.Connectors
import BarterModel.Model.SubValidator
/-!
# C13Q — subscription requests: every connector asks the venue for exactly what was subscribed

Concrete model (one definition per Rust item, `file:line` in the doc comment) of

* `barter-data/src/exchange/subscription.rs` — `ExchangeSub::new`, `ExchangeSub::id`;
* `Connector::requests` of the 8 connector implementations behind the 15 connectors
  (`exchange/{binance,bitfinex,bitmex,bybit,coinbase,gateio,kraken,okx}/mod.rs`), down to the JSON text
  (`serde_json::json!` builds a `BTreeMap`-backed object: keys are rendered in sorted order);
* `Connector::expected_responses`, `Connector::subscription_timeout`, `Connector::url` /
  `ExchangeServer::websocket_url`, `Connector::ping_interval`, `Connector::ID`;
* `barter-data/src/subscriber/mapper.rs` (`WebSocketSubMapper::map`) and `subscriber/mod.rs`
  (`WebSocketSubscriber::subscribe` up to the point where the requests are sent).

Channel / market naming and the instrument map are **imported** from the C13 model
(`Model/Connectors.lean`: `channel`, `market`, `subId`, `mapOf`), the number of expected responses from the
C13S model (`Model/SubValidator.lean`: `expectedResponses`).

After the concrete model comes the abstract specification, written from the documented intent (doc comments
of `Connector::requests` / `expected_responses`, the venue payload examples quoted in the connectors'
`subscription.rs` files, the venues' stream-name grammars), not from the code.

Strings are `List Char`; only ASCII lower-casing is modelled (Binance calls the Unicode `to_lowercase`).
JSON string escaping is modelled for `"` and `\` only (no control characters in channel / market names).
Core Lean only.
-/
namespace BarterModel.SubRequests
open BarterModel.Connectors

/-! ## `ExchangeSub` -/

/-- `ExchangeSub<Channel, Market>` (`exchange/subscription.rs:25-41`). -/
structure ESub where
  chan : Str
  market : Str
  deriving DecidableEq, Repr, Inhabited

/-- `ExchangeSub::id` (`exchange/subscription.rs:43-56`): `SubscriptionId("{channel}|{market}")`. -/
def ESub.id (s : ESub) : Str := subId s.chan s.market

/-- `ExchangeSub::new(sub)` (`exchange/subscription.rs:63-73`): channel and market are the subscription's
`Identifier<Channel>` / `Identifier<Market>` (the C13 model's `channel` and `market`). -/
def exchangeSub (p : Pair) (i : Inst) : ESub := ⟨channel p i.kind, market p.exch i⟩

/-- the `.map(ExchangeSub::new)` of `WebSocketSubMapper::map` (`subscriber/mapper.rs:50-66`) -/
def exchangeSubs (p : Pair) (subs : List Inst) : List ESub := subs.map (exchangeSub p)

/-! ## Connector implementations -/

/-- The eight `impl Connector` blocks; the C13S model already enumerates them. -/
abbrev Family := BarterModel.SubValidator.Exchange

/-- which `impl Connector` a connector (an `ExchangeId` with a `Connector`) is an instance of:
`Binance<Server>` (binance/mod.rs:61), `Bitfinex` (bitfinex/mod.rs:89), `Bitmex` (bitmex/mod.rs:50),
`Bybit<Server>` (bybit/mod.rs:65), `Coinbase` (coinbase/mod.rs:59), `Gateio<Server>` (gateio/mod.rs:62),
`Kraken` (kraken/mod.rs:64), `Okx` (okx/mod.rs:65). -/
def family : Exch → Family
  | .binanceSpot | .binanceFuturesUsd => .binance
  | .bitfinex => .bitfinex
  | .bitmex => .bitmex
  | .bybitSpot | .bybitPerpetualsUsd => .bybit
  | .coinbase => .coinbase
  | .gateioSpot | .gateioFuturesUsd | .gateioFuturesBtc | .gateioPerpetualsUsd | .gateioPerpetualsBtc
  | .gateioOptions => .gateio
  | .kraken => .kraken
  | .okx => .okx

/-- every connector, in the order of the C13 model's `Exch` -/
def allExch : List Exch :=
  [.binanceSpot, .binanceFuturesUsd, .bitfinex, .bitmex, .bybitSpot, .bybitPerpetualsUsd, .coinbase,
   .gateioSpot, .gateioFuturesUsd, .gateioFuturesBtc, .gateioPerpetualsUsd, .gateioPerpetualsBtc,
   .gateioOptions, .kraken, .okx]

/-- `Connector::ID.as_str()` (`barter-instrument/src/exchange.rs`, `ExchangeId::as_str`). -/
def idName : Exch → Str
  | .binanceSpot => "binance_spot".toList | .binanceFuturesUsd => "binance_futures_usd".toList
  | .bitfinex => "bitfinex".toList | .bitmex => "bitmex".toList | .bybitSpot => "bybit_spot".toList
  | .bybitPerpetualsUsd => "bybit_perpetuals_usd".toList | .coinbase => "coinbase".toList
  | .gateioSpot => "gateio_spot".toList | .gateioFuturesUsd => "gateio_futures_usd".toList
  | .gateioFuturesBtc => "gateio_futures_btc".toList
  | .gateioPerpetualsUsd => "gateio_perpetuals_usd".toList
  | .gateioPerpetualsBtc => "gateio_perpetuals_btc".toList | .gateioOptions => "gateio_options".toList
  | .kraken => "kraken".toList | .okx => "okx".toList

/-! ## Request payloads -/

/-- One `WsMessage::text(json!({..}).to_string())`, reduced to the fields that vary. -/
inductive Wire
  /-- `{"method":"SUBSCRIBE","params":[..],"id":1}` — binance/mod.rs:88-95 -/
  | binance (params : List Str)
  /-- `{"event":"subscribe","channel":..,"symbol":..}` — bitfinex/mod.rs:106-113 -/
  | bitfinex (channel symbol : Str)
  /-- `{"op":"subscribe","args":[..]}` — bitmex/mod.rs:68-74 -/
  | bitmex (args : List Str)
  /-- `{"op":"subscribe","args":[..]}` — bybit/mod.rs:97-103 -/
  | bybit (args : List Str)
  /-- `{"type":"subscribe","product_ids":[..],"channels":[..]}` — coinbase/mod.rs:75-82 -/
  | coinbase (productIds channels : List Str)
  /-- `{"time":<now ms>,"channel":..,"event":"subscribe","payload":[..]}` — gateio/mod.rs:80-88; the
  `time` value is `chrono::Utc::now().timestamp_millis()` and is not part of the model -/
  | gateio (channel : Str) (payload : List Str)
  /-- `{"event":"subscribe","pair":[..],"subscription":{"name":..}}` — kraken/mod.rs:81-90 -/
  | kraken (pair : List Str) (name : Str)
  /-- `{"op":"subscribe","args":[{"channel":..,"instId":..},..]}` — okx/mod.rs:85-91 with the custom
  `Serialize for ExchangeSub<OkxChannel, OkxMarket>` of okx/subscription.rs:7-18 -/
  | okx (args : List ESub)
  deriving DecidableEq, Repr, Inhabited

/-- `Connector::requests(exchange_subs)`:
binance/mod.rs:73-95 (one frame, `"{market.to_lowercase()}{channel}"` per subscription),
bitfinex/mod.rs:102-116 (one frame per subscription), bitmex/mod.rs:62-74 (one frame, `"{channel}:{market}"`),
bybit/mod.rs:91-103 (one frame, `"{channel}.{market}"`), coinbase/mod.rs:71-85 (one frame per subscription,
singleton lists), gateio/mod.rs:76-91 (one frame per subscription), kraken/mod.rs:76-93 (one frame per
subscription, singleton pair list), okx/mod.rs:83-91 (one frame, all subscriptions as objects). -/
def requests (e : Exch) (subs : List ESub) : List Wire :=
  match family e with
  | .binance => [.binance (subs.map fun s => lower s.market ++ s.chan)]
  | .bitfinex => subs.map fun s => .bitfinex s.chan s.market
  | .bitmex => [.bitmex (subs.map fun s => s.chan ++ ':' :: s.market)]
  | .bybit => [.bybit (subs.map fun s => s.chan ++ '.' :: s.market)]
  | .coinbase => subs.map fun s => .coinbase [s.market] [s.chan]
  | .gateio => subs.map fun s => .gateio s.chan [s.market]
  | .kraken => subs.map fun s => .kraken [s.market] s.chan
  | .okx => [.okx subs]

/-! ### JSON text (`serde_json::Value::to_string`) -/

/-- the fragment of `serde_json::Value` the requests use -/
inductive Json
  | str (s : Str)
  | num (n : Nat)
  /-- a number the model does not fix (Gateio's `time`); rendered as `NOW` -/
  | now
  | arr (xs : List Json)
  | obj (kvs : List (Str × Json))
  deriving Repr, Inhabited

/-- `BTreeMap::insert` position: keys in ascending order -/
def insertKey (kv : Str × Json) : List (Str × Json) → List (Str × Json)
  | [] => [kv]
  | x :: xs => if kv.1 < x.1 then kv :: x :: xs else x :: insertKey kv xs

/-- `json!({ k: v, .. })`: `serde_json::Map` is a `BTreeMap` (feature `preserve_order` is off), so the object
iterates in key order whatever the source order -/
def Json.mkObj (kvs : List (Str × Json)) : Json := .obj (kvs.foldr insertKey [])

/-- serde_json string escaping, for `"` and `\` -/
def esc (s : Str) : Str :=
  s.flatMap fun c => if c = '"' then ['\\', '"'] else if c = '\\' then ['\\', '\\'] else [c]

def quote (s : Str) : Str := '"' :: esc s ++ ['"']

def commaSep : List Str → Str
  | [] => []
  | [x] => x
  | x :: y :: xs => x ++ ',' :: commaSep (y :: xs)

mutual
/-- compact rendering (`to_string`) -/
def Json.render : Json → Str
  | .str s => quote s
  | .num n => Nat.toDigits 10 n
  | .now => "NOW".toList
  | .arr xs => '[' :: commaSep (renderList xs) ++ [']']
  | .obj kvs => '{' :: commaSep (renderFields kvs) ++ ['}']
def renderList : List Json → List Str
  | [] => []
  | x :: xs => x.render :: renderList xs
def renderFields : List (Str × Json) → List Str
  | [] => []
  | (k, v) :: rest => (quote k ++ ':' :: v.render) :: renderFields rest
end

def strs (l : List Str) : Json := .arr (l.map .str)

/-- the `json!({..})` expression of each connector, fields in source order -/
def Wire.toJson : Wire → Json
  | .binance params =>
    .mkObj [("method".toList, .str "SUBSCRIBE".toList), ("params".toList, strs params), ("id".toList, .num 1)]
  | .bitfinex c s =>
    .mkObj [("event".toList, .str "subscribe".toList), ("channel".toList, .str c), ("symbol".toList, .str s)]
  | .bitmex args => .mkObj [("op".toList, .str "subscribe".toList), ("args".toList, strs args)]
  | .bybit args => .mkObj [("op".toList, .str "subscribe".toList), ("args".toList, strs args)]
  | .coinbase ps cs =>
    .mkObj [("type".toList, .str "subscribe".toList), ("product_ids".toList, strs ps), ("channels".toList, strs cs)]
  | .gateio c payload =>
    .mkObj [("time".toList, .now), ("channel".toList, .str c), ("event".toList, .str "subscribe".toList),
            ("payload".toList, strs payload)]
  | .kraken pair name =>
    .mkObj [("event".toList, .str "subscribe".toList), ("pair".toList, strs pair),
            ("subscription".toList, .mkObj [("name".toList, .str name)])]
  | .okx args =>
    .mkObj [("op".toList, .str "subscribe".toList),
            ("args".toList, .arr (args.map fun a =>
              .mkObj [("channel".toList, .str a.chan), ("instId".toList, .str a.market)]))]

/-- the text of the websocket frame -/
def Wire.text (w : Wire) : Str := w.toJson.render

/-! ## `expected_responses`, `subscription_timeout`, `url`, `ping_interval` -/

/-- `Connector::expected_responses(&map)` (exchange/mod.rs:127-129; overrides binance/mod.rs:97-99,
bybit/mod.rs:106-108, bitmex/mod.rs:76-78) — the C13S model's table. -/
def expected (e : Exch) (mapLen : Nat) : Nat := BarterModel.SubValidator.expectedResponses (family e) mapLen

/-- `Connector::subscription_timeout()` in ms (exchange/mod.rs:133-135, `DEFAULT_SUBSCRIPTION_TIMEOUT`
exchange/mod.rs:45; no connector overrides it). -/
def timeoutMs (e : Exch) : Nat := BarterModel.SubValidator.subscriptionTimeoutMs (family e)

/-- `ExchangeServer::websocket_url()` / the `BASE_URL_*` constants: binance/spot/mod.rs:22,
binance/futures/mod.rs:27, bitfinex/mod.rs:65, bitmex/mod.rs:45, bybit/spot/mod.rs, bybit/futures/mod.rs,
coinbase/mod.rs:38, gateio/spot/mod.rs:20, gateio/future/mod.rs:17,53, gateio/perpetual/mod.rs:19,55,
gateio/option/mod.rs:17, kraken/mod.rs:44, okx/mod.rs:38. -/
def urlConst : Exch → Str
  | .binanceSpot => "wss://stream.binance.com:9443/ws".toList
  | .binanceFuturesUsd => "wss://fstream.binance.com/ws".toList
  | .bitfinex => "wss://api-pub.bitfinex.com/ws/2".toList
  | .bitmex => "wss://ws.bitmex.com/realtime".toList
  | .bybitSpot => "wss://stream.bybit.com/v5/public/spot".toList
  | .bybitPerpetualsUsd => "wss://stream.bybit.com/v5/public/linear".toList
  | .coinbase => "wss://ws-feed.execution.coinbase.com".toList
  | .gateioSpot => "wss://api.gateio.ws/ws/v4/".toList
  | .gateioFuturesUsd => "wss://fx-ws.gateio.ws/v4/ws/delivery/usdt".toList
  | .gateioFuturesBtc => "wss://fx-ws.gateio.ws/v4/ws/delivery/btc".toList
  | .gateioPerpetualsUsd => "wss://fx-ws.gateio.ws/v4/ws/usdt".toList
  | .gateioPerpetualsBtc => "wss://fx-ws.gateio.ws/v4/ws/btc".toList
  | .gateioOptions => "wss://op-ws.gateio.live/v4/ws".toList
  | .kraken => "wss://ws.kraken.com/".toList
  | .okx => "wss://wsaws.okx.com:8443/ws/v5/public".toList

/-- the part of a URL after `scheme://` -/
def afterScheme (u : Str) : Str := (u.dropWhile (· ≠ '/')).drop 2

/-- `scheme` of `scheme://rest` -/
def urlScheme (u : Str) : Str := u.takeWhile (· ≠ ':')

/-- host[:port] -/
def urlAuthority (u : Str) : Str := (afterScheme u).takeWhile (· ≠ '/')

/-- `Url::host_str()` -/
def urlHost (u : Str) : Str := (urlAuthority u).takeWhile (· ≠ ':')

/-- `Url::path()` of a special-scheme URL: an empty path is `/` -/
def urlPath (u : Str) : Str :=
  match (afterScheme u).dropWhile (· ≠ '/') with
  | [] => ['/']
  | p => p

/-- `Connector::url()` = `Url::parse(const)`, rendered with `Url::as_str()`: for the special scheme `wss` an
empty path becomes `/`; nothing else is normalised in the 15 constants (lower-case hosts, non-default ports,
no dot segments, no query). -/
def urlParsed (e : Exch) : Str :=
  urlScheme (urlConst e) ++ "://".toList ++ urlAuthority (urlConst e) ++ urlPath (urlConst e)

/-- `Connector::ping_interval()`: `None` by default (exchange/mod.rs:116-118); Bybit every 5 000 ms the text
`{"op":"ping"}` (bybit/mod.rs:77-89); Okx every 29 s the text `ping` (okx/mod.rs:76-81, `PING_INTERVAL_OKX` :43).
`(period in ms, frame text)`. -/
def pingInterval (e : Exch) : Option (Nat × Str) :=
  match family e with
  | .bybit => some (5000, (Json.mkObj [("op".toList, .str "ping".toList)]).render)
  | .okx => some (29000, "ping".toList)
  | _ => none

/-! ## `WebSocketSubMapper::map` and `WebSocketSubscriber::subscribe` -/

/-- `SubscriptionMeta { instrument_map, ws_subscriptions }` (`subscription/mod.rs`). -/
structure SubMeta where
  map : IMap
  ws : List Wire
  deriving Repr

/-- `WebSocketSubMapper::map` (`subscriber/mapper.rs:33-75`): the instrument map (C13 model: the k-th
subscription is inserted under `ExchangeSub::id` with key `k`, a later duplicate id replaces the key) and the
requests, both built from the same `ExchangeSub`s. -/
def mapper (p : Pair) (subs : List Inst) : SubMeta :=
  ⟨mapOf p subs, requests p.exch (exchangeSubs p subs)⟩

/-- What `WebSocketSubscriber::subscribe` (`subscriber/mod.rs:63-101`) does before it hands over to the
validator: connects to `url`, sends `sent` frame by frame in this order (`:82-85`), then validates `map`
expecting `expected` responses within `timeoutMs` of silence (`:88-93`, C13S). -/
structure Plan where
  url : Str
  sent : List Wire
  map : IMap
  expected : Nat
  timeoutMs : Nat
  deriving Repr

def subscribe (p : Pair) (subs : List Inst) : Plan :=
  let m := mapper p subs
  ⟨urlParsed p.exch, m.ws, m.map, expected p.exch m.map.length, timeoutMs p.exch⟩

/-! ## What a venue reads in a frame

Each venue's documented request grammar, as a decoder from a frame to the list of `(channel, market)` topics
it asks for. Binance: stream names `<symbol>@<streamName>` (lower-case symbol); Bitmex: `<table>:<symbol>`;
Bybit: `<topic>.<symbol>`; Coinbase: every channel for every product id; Gateio: the frame's channel for every
entry of `payload`; Kraken: `subscription.name` for every entry of `pair`; Okx: the `args` objects; Bitfinex:
`channel` and `symbol`. -/

structure Topic where
  chan : Str
  market : Str
  deriving DecidableEq, Repr, Inhabited

/-- the part before the first `sep` -/
def before (sep : Char) (s : Str) : Str := s.takeWhile (· ≠ sep)

/-- the part from the first `sep` on (`sep` included) -/
def fromSep (sep : Char) (s : Str) : Str := s.dropWhile (· ≠ sep)

/-- the part after the first `sep` -/
def after (sep : Char) (s : Str) : Str := (fromSep sep s).drop 1

def Wire.topics : Wire → List Topic
  | .binance params => params.map fun s => ⟨fromSep '@' s, before '@' s⟩
  | .bitfinex c s => [⟨c, s⟩]
  | .bitmex args => args.map fun s => ⟨before ':' s, after ':' s⟩
  | .bybit args => args.map fun s => ⟨before '.' s, after '.' s⟩
  | .coinbase ps cs => cs.flatMap fun c => ps.map fun m => ⟨c, m⟩
  | .gateio c payload => payload.map fun m => ⟨c, m⟩
  | .kraken pair name => pair.map fun m => ⟨name, m⟩
  | .okx args => args.map fun a => ⟨a.chan, a.market⟩

def verbUpper : Str := "SUBSCRIBE".toList
def verbLower : Str := "subscribe".toList

/-- the request verb: value of `method` / `op` / `event` / `type` -/
def Wire.verb : Wire → Str
  | .binance _ => verbUpper
  | .bitfinex _ _ => verbLower
  | .bitmex _ => verbLower
  | .bybit _ => verbLower
  | .coinbase _ _ => verbLower
  | .gateio _ _ => verbLower
  | .kraken _ _ => verbLower
  | .okx _ => verbLower

/-- everything the frames of one `requests` call ask for, in order -/
def requested (ws : List Wire) : List Topic := ws.flatMap Wire.topics

/-! ## Abstract specification (from the documented intent)

`Connector::requests`: "Defines how to translate a collection of `ExchangeSub`s into the `WsMessage`
subscription payloads sent to the exchange server." — the venue must end up being asked for exactly the
subscribed `(channel, market)` combinations. Binance: "Market must be lowercase when subscribing"
(binance/market.rs:54-56, binance/mod.rs:77-79).

`Connector::expected_responses`: "Number of `Subscription` responses expected from the execution server in
responses to the requests send." — the venue payload examples quoted in the `subscription.rs` doc comments say
what one response acknowledges:

* Binance `{"id":1,"result":null}` — the request `id`: one per frame;
* Bybit `{"success":true,"ret_msg":"subscribe","req_id":"10001","op":"subscribe"}` — the request: one per frame;
* Bitmex `{"success":true,"subscribe":"trade:XBTUSD","request":{"op":"subscribe","args":["trade:XBTUSD"]}}` —
  `subscribe` names ONE topic of the request: one per topic;
* Okx `{"event":"subscribe","args":{"channel":"trades","instId":"BTC-USD-191227"}}` — one `arg`: one per topic;
* Kraken `{"channelID":10001,"event":"subscriptionStatus","pair":"XBT/EUR","status":"subscribed",..}` — one
  `pair`: one per topic;
* Coinbase `{"type":"subscriptions","channels":[{"name":"matches","product_ids":["BTC-USD","ETH-USD"]}]}` — the
  whole request: one per frame;
* Gateio `{"time":..,"channel":"spot.trades","event":"subscribe","result":{"status":"success"}}` — the request:
  one per frame;
* Bitfinex `{event:"subscribed",channel:"trades",chanId:CHANNEL_ID,symbol:"tBTCUSD",pair:"BTCUSD"}` — one
  subscribe event: one per frame. -/

/-- how the venue wants the market spelled in a request, given the symbol it uses in its messages -/
def requestCase (e : Exch) (mkt : Str) : Str :=
  match family e with
  | .binance => lower mkt
  | _ => mkt

/-- what the venue must be asked for: the subscribed combinations, in order -/
def specTopics (e : Exch) (subs : List ESub) : List Topic :=
  subs.map fun s => ⟨s.chan, requestCase e s.market⟩

/-- venues whose request format carries a list of topics (one frame for everything) -/
def batches (e : Exch) : Bool :=
  match family e with
  | .binance | .bitmex | .bybit | .okx => true
  | _ => false

/-- number of frames: one for the batching venues, one per subscription otherwise -/
def specFrameCount (e : Exch) (n : Nat) : Nat := if batches e then 1 else n

/-- the documented request verb: Binance `"method":"SUBSCRIBE"`, everyone else `subscribe` (as `op`, `event`
or `type`) -/
def specVerb (e : Exch) : Str :=
  match family e with
  | .binance => verbUpper
  | _ => verbLower

/-- The frames the venue must receive, each as (verb, topics): everything in one frame for the batching
venues, one frame per subscription, in order, otherwise. -/
def specFrames (e : Exch) (subs : List ESub) : List (Str × List Topic) :=
  if batches e then [(specVerb e, specTopics e subs)]
  else (specTopics e subs).map fun t => (specVerb e, [t])

/-- what the venue reads in the frames of a request -/
def readFrames (ws : List Wire) : List (Str × List Topic) := ws.map fun w => (w.verb, w.topics)

/-- does the venue acknowledge per topic (as opposed to per frame)? — from the quoted payload examples -/
def acksPerTopic (e : Exch) : Bool :=
  match family e with
  | .bitmex | .okx | .kraken => true
  | _ => false

/-- number of acknowledgements the documented venue behaviour produces for the frames `ws` -/
def docAcks (e : Exch) (ws : List Wire) : Nat :=
  if acksPerTopic e then (requested ws).length else ws.length

/-- the same number for a request for `n` subscriptions that follows the documented format -/
def specAcks (e : Exch) (n : Nat) : Nat := if acksPerTopic e then n else specFrameCount e n

/-- the ids under which the venue's later messages for a requested topic are looked up: `channel|SYMBOL`, the
symbol as the venue spells it in its messages (upper case for Binance) -/
def topicId (e : Exch) (t : Topic) : Str :=
  match family e with
  | .binance => subId t.chan (upper t.market)
  | _ => subId t.chan t.market

/-- keep the first occurrence of every element, in order (`FnvHashMap` keys as a list: iteration order is not
observable, the drivers sort) -/
def dedup : List Str → List Str → List Str
  | acc, [] => acc
  | acc, x :: xs => if x ∈ acc then dedup acc xs else dedup (acc ++ [x]) xs

/-- position of the last subscription whose id is `id` -/
def lastIndexFrom (start : Nat) (ids : List Str) (id : Str) : Option Nat :=
  match ids with
  | [] => none
  | x :: xs =>
    match lastIndexFrom (start + 1) xs id with
    | some k => some k
    | none => if x = id then some start else none

def lastIndex (ids : List Str) (id : Str) : Option Nat := lastIndexFrom 0 ids id

/-- the venue name every websocket host must carry: first component of the connector id -/
def venueName (e : Exch) : Str := before '_' (idName e)

/-- `needle` occurs in `hay` -/
def occursIn (needle : Str) : Str → Bool
  | [] => needle.isEmpty
  | c :: cs => needle.isPrefixOf (c :: cs) || occursIn needle cs

/-- documented requirements on a connector's websocket URL: secure websocket scheme, a host of the venue -/
def urlOk (e : Exch) : Bool :=
  urlScheme (urlConst e) == "wss".toList && occursIn (venueName e) (urlHost (urlConst e))

/-! ## Added after the review of the sub-check theorems: a venue-side reader of the frame TEXT

`Wire.topics` / `Wire.verb` above read a frame off the model's own constructor. The definitions below read the
JSON **text** of a frame (`Wire.text`, a `List Char`) instead, independently of how it was produced: a lexer
that recognises string literals (with the `\"` / `\\` escapes; any other character is a token of its own) and,
on the token list, the venue's documented grammar: the string value of a key (`"op":"subscribe"`), the array of
string literals after a key (`"args":[..]`), Okx's `args` objects. It is not a JSON parser (no nesting check, no
numbers); `Lemmas/SubRequests.lean` proves `readText (family e) w.text = some (w.verb, w.topics)` for every
frame `requests` produces, for all names (`readText_text`). -/


/-- a token of a frame's text: a string literal (unescaped) or any other character -/
inductive Tok where
  | str (s : Str)
  | sym (c : Char)
  deriving DecidableEq, Repr

inductive LexMode where
  | out
  | inStr (acc : Str)
  | esc (acc : Str)

def lexAux : LexMode → Str → List Tok
  | _, [] => []
  | .out, c :: cs => if c = '"' then lexAux (.inStr []) cs else .sym c :: lexAux .out cs
  | .inStr acc, c :: cs =>
    if c = '\\' then lexAux (.esc acc) cs
    else if c = '"' then .str acc :: lexAux .out cs
    else lexAux (.inStr (acc ++ [c])) cs
  | .esc acc, c :: cs => lexAux (.inStr (acc ++ [c])) cs

def lex (t : Str) : List Tok := lexAux .out t

def stringsAfter (k : Str) : List Tok → List Str
  | [] => []
  | t :: rest =>
    match t, rest with
    | .str k', .sym c :: .str v :: _ =>
      if k' = k ∧ c = ':' then v :: stringsAfter k rest else stringsAfter k rest
    | _, _ => stringsAfter k rest

def leadingStrs : List Tok → List Str
  | .str s :: r => s :: leadingStrs r
  | .sym c :: r => if c = ',' then leadingStrs r else []
  | [] => []

def arrayAfter (k : Str) : List Tok → Option (List Str)
  | [] => none
  | t :: rest =>
    match t, rest with
    | .str k', .sym c1 :: .sym c2 :: r =>
      if k' = k ∧ c1 = ':' ∧ c2 = '[' then some (leadingStrs r) else arrayAfter k rest
    | _, _ => arrayAfter k rest

def stringAfter (k : Str) (ts : List Tok) : Option Str := (stringsAfter k ts).head?

def readText (f : Family) (t : Str) : Option (Str × List Topic) :=
  let ts := lex t
  match f with
  | .binance => do
    let verb ← stringAfter "method".toList ts
    let ps ← arrayAfter "params".toList ts
    some (verb, ps.map fun s => ⟨fromSep '@' s, before '@' s⟩)
  | .bitmex => do
    let verb ← stringAfter "op".toList ts
    let args ← arrayAfter "args".toList ts
    some (verb, args.map fun s => ⟨before ':' s, after ':' s⟩)
  | .bybit => do
    let verb ← stringAfter "op".toList ts
    let args ← arrayAfter "args".toList ts
    some (verb, args.map fun s => ⟨before '.' s, after '.' s⟩)
  | .coinbase => do
    let verb ← stringAfter "type".toList ts
    let cs ← arrayAfter "channels".toList ts
    let ps ← arrayAfter "product_ids".toList ts
    some (verb, cs.flatMap fun c => ps.map fun m => ⟨c, m⟩)
  | .gateio => do
    let verb ← stringAfter "event".toList ts
    let c ← stringAfter "channel".toList ts
    let payload ← arrayAfter "payload".toList ts
    some (verb, payload.map fun m => ⟨c, m⟩)
  | .kraken => do
    let verb ← stringAfter "event".toList ts
    let name ← stringAfter "name".toList ts
    let pair ← arrayAfter "pair".toList ts
    some (verb, pair.map fun m => ⟨name, m⟩)
  | .okx => do
    let verb ← stringAfter "op".toList ts
    some (verb, List.zipWith (fun c m => ⟨c, m⟩) (stringsAfter "channel".toList ts) (stringsAfter "instId".toList ts))
  | .bitfinex => do
    let verb ← stringAfter "event".toList ts
    let c ← stringAfter "channel".toList ts
    let s ← stringAfter "symbol".toList ts
    some (verb, [⟨c, s⟩])


end BarterModel.SubRequests
