import BarterModel.Model.Orders
/-
Model of the engine's request path and command actions:
  `Engine::process` / `Engine::action`                    barter/src/engine/mod.rs:144-238
  `SendRequests::{send_requests,send_request}`            barter/src/engine/action/send_requests.rs:53-120
  `GenerateAlgoOrders::generate_algo_orders`              barter/src/engine/action/generate_algo_orders.rs:37-62
  `CancelOrders::cancel_orders`                           barter/src/engine/action/cancel_orders.rs:33-52
  `ClosePositions::close_positions`                       barter/src/engine/action/close_positions.rs:42-62
  `close_open_positions_with_market_orders`               barter/src/strategy/close_positions.rs:44-112
  `MultiExchangeTxMap::find`                              barter/src/engine/execution_tx.rs:73-86
  `InstrumentStates::filtered`                            barter/src/engine/state/instrument/mod.rs:181-206
  `Order::to_request_cancel`                              barter-execution/src/order/mod.rs:131-150
  `TradingState::update`                                  barter/src/engine/state/trading/mod.rs:20-48
  in-flight recording: Model/Orders.lean (C01).

User code is a parameter: the strategy's algo output (`algoCancels`, `algoOpens`) and the risk
manager's verdict (`refuse : Key → Bool`) are inputs of each tick, so theorems quantify over all of
them. Execution links are `healthy` (transmitter present, receiver alive), `closed` (receiver
dropped) or `missing` (`None` in the map); an exchange index beyond the table is also an error.
Delivery is one global log of delivered requests in send order; exchange `x`'s channel content
is the sub-list with `key.exchange = x` (an unbounded mpsc channel is FIFO and never refuses while
the receiver lives — assumption of the model).
-/
namespace BarterModel.Engine
open BarterModel.Orders

inductive Side where
  | buy
  | sell
  deriving DecidableEq, Repr, Inhabited

def Side.opposite : Side → Side
  | .buy => .sell
  | .sell => .buy

/-- `OrderKey` (strategy id omitted: constant). -/
structure Key where
  exchange : Nat
  instrument : Nat
  cid : Nat
  deriving DecidableEq, Repr, Inhabited

/-- `OrderRequestOpen` (kind / time in force are carried but never inspected by the engine). -/
structure OpenReq where
  key : Key
  side : Side
  price : Rat
  quantity : Rat
  deriving DecidableEq, Repr, Inhabited

/-- `OrderRequestCancel`. -/
structure CancelReq where
  key : Key
  id : Option Nat
  deriving DecidableEq, Repr, Inhabited

/-- `ExecutionRequest::{Open,Cancel}` as delivered on an execution link. -/
inductive Req where
  | opn (r : OpenReq)
  | cnl (r : CancelReq)
  deriving DecidableEq, Repr, Inhabited

def Req.key : Req → Key
  | .opn r => r.key
  | .cnl r => r.key

inductive Link where
  | healthy
  | closed
  | missing
  /-- transmitter present whose `Tx::send` fails with an error that is not `is_unrecoverable()`
  (impossible for the default `UnboundedTx`, possible for any other `Tx` the generic
  `MultiExchangeTxMap<Tx>` is instantiated with, e.g. a bounded channel that is full) -/
  | unhealthy
  deriving DecidableEq, Repr, Inhabited

/-- `index` and `terminated` are `EngineError::Unrecoverable`: `IndexError` (no link for the
exchange / index out of range) and `ExecutionChannelTerminated` (receiver gone); `unhealthy` is
`EngineError::Recoverable(ExecutionChannelUnhealthy)` (send_requests.rs:104-117). -/
inductive SendError where
  | index
  | terminated
  | unhealthy
  deriving DecidableEq, Repr, Inhabited

/-- `EngineError::Unrecoverable(_)` -/
def SendError.unrecoverable : SendError → Bool
  | .index => true
  | .terminated => true
  | .unhealthy => false

/-- `InstrumentState` restricted to what commands read. `position` is `(side, quantity_abs)`. -/
structure Instr where
  exchange : Nat
  base : Nat
  quote : Nat
  orders : Orders
  position : Option (Side × Rat)
  price : Option Rat
  deriving Repr, Inhabited

structure Eng where
  enabled : Bool
  links : List Link
  /-- delivered requests, in send order -/
  log : List Req
  instruments : List Instr
  /-- number of `on_trading_disabled` invocations -/
  disabledCalls : Nat
  deriving Repr, Inhabited

/-- tracked state of `(instrument i, cid c)` -/
def orderState (e : Eng) (i c : Nat) : Option Active :=
  match e.instruments[i]? with
  | some s => stateOf s.orders c
  | none => none

/-- `execution_txs.find(exchange)?.send(..)` (send_requests.rs:83-118, execution_tx.rs:73-86). -/
def linkResult (links : List Link) (exchange : Nat) : Option SendError :=
  match links[exchange]? with
  | some .healthy => none
  | some .closed => some .terminated
  | some .missing => some .index
  | some .unhealthy => some .unhealthy
  | none => some .index

/-- Result of `send_requests`: `sent`, `errors` (partition preserving order). -/
structure SendOut (α : Type) where
  sent : List α
  errors : List (α × SendError)
  deriving Repr

def SendOut.empty {α : Type} : SendOut α := ⟨[], []⟩
def SendOut.isEmpty {α : Type} (o : SendOut α) : Bool := o.sent.isEmpty && o.errors.isEmpty
/-- `unrecoverable_errors()` is not `None`: some reported error is `EngineError::Unrecoverable` -/
def SendOut.fatal {α : Type} (o : SendOut α) : Bool := o.errors.any fun x => x.2.unrecoverable

/-- `send_requests` for one request kind: the requests whose link is healthy are delivered (appended
to the log, in order) and reported `sent`; the others are reported with their error. -/
def sendRequests {α : Type} (e : Eng) (toReq : α → Req) (rs : List α) : Eng × SendOut α :=
  let ok := fun r => (linkResult e.links (toReq r).key.exchange).isNone
  let sent := rs.filter ok
  let errors := rs.filterMap fun r =>
    match linkResult e.links (toReq r).key.exchange with
    | some err => some (r, err)
    | none => none
  ({ e with log := e.log ++ sent.map toReq }, ⟨sent, errors⟩)

def modifyInstr (l : List Instr) (i : Nat) (f : Instr → Instr) : List Instr :=
  match l[i]? with
  | some x => l.set i (f x)
  | none => l

/-- `EngineState::record_in_flight_cancel` (in_flight_recorder.rs:40-51). -/
def recordCancel (e : Eng) (r : CancelReq) : Eng :=
  { e with instruments := modifyInstr e.instruments r.key.instrument fun s =>
      { s with orders := recordInFlightCancel s.orders r.key.cid } }

/-- `EngineState::record_in_flight_open` (in_flight_recorder.rs:53-64). -/
def recordOpen (e : Eng) (r : OpenReq) : Eng :=
  { e with instruments := modifyInstr e.instruments r.key.instrument fun s =>
      { s with orders := recordInFlightOpen s.orders r.key.cid r.quantity r.price r.key.exchange } }

def recordCancels (e : Eng) (rs : List CancelReq) : Eng := rs.foldl recordCancel e
def recordOpens (e : Eng) (rs : List OpenReq) : Eng := rs.foldl recordOpen e

/-- `GenerateAlgoOrdersOutput`. -/
structure AlgoOut where
  cancels : SendOut CancelReq
  opens : SendOut OpenReq
  cancelsRefused : List CancelReq
  opensRefused : List OpenReq
  deriving Repr

def AlgoOut.isEmpty (o : AlgoOut) : Bool :=
  o.cancels.isEmpty && o.opens.isEmpty && o.cancelsRefused.isEmpty && o.opensRefused.isEmpty
def AlgoOut.fatal (o : AlgoOut) : Bool := o.cancels.fatal || o.opens.fatal

/-- `generate_algo_orders` (generate_algo_orders.rs:37-62): strategy output and risk verdict are
parameters. -/
def generateAlgoOrders (e : Eng) (cancels : List CancelReq) (opens : List OpenReq)
    (refuse : Key → Bool) : Eng × AlgoOut :=
  let approvedC := cancels.filter (fun r => !refuse r.key)
  let approvedO := opens.filter (fun r => !refuse r.key)
  let (e1, outC) := sendRequests e Req.cnl approvedC
  let (e2, outO) := sendRequests e1 Req.opn approvedO
  let e3 := recordCancels e2 outC.sent
  let e4 := recordOpens e3 outO.sent
  (e4, ⟨outC, outO, cancels.filter (fun r => refuse r.key), opens.filter (fun r => refuse r.key)⟩)

/-- `InstrumentFilter`. -/
inductive Filter where
  | none
  | exchanges (l : List Nat)
  | instruments (l : List Nat)
  | underlyings (l : List (Nat × Nat))
  deriving DecidableEq, Repr, Inhabited

/-- the per-variant predicate of `InstrumentStates::filtered` -/
def Filter.matches (f : Filter) (idx : Nat) (s : Instr) : Bool :=
  match f with
  | .none => true
  | .exchanges l => l.contains s.exchange
  | .instruments l => l.contains idx
  | .underlyings l => l.contains (s.base, s.quote)

/-- insertion sort of the tracked orders by client order id (the code iterates a hash map; the order
of requests generated for one instrument is therefore unspecified — the harness canonicalises it
the same way) -/
def insertByCid (x : Nat × Order) : List (Nat × Order) → List (Nat × Order)
  | [] => [x]
  | y :: ys => if x.1 ≤ y.1 then x :: y :: ys else y :: insertByCid x ys

def sortByCid (m : Orders) : List (Nat × Order) := m.foldr insertByCid []

/-- `Order::to_request_cancel` (order/mod.rs:131-150): in-flight → no exchange id, open → its exchange
id, already being cancelled → no request. The request carries the tracked order's OWN key (the
exchange recorded with the order, which is the instrument's exchange unless a request for the
instrument was addressed to another exchange). -/
def toRequestCancel (idx : Nat) (co : Nat × Order) : Option CancelReq :=
  match co.2.state with
  | .inFlight => some ⟨⟨co.2.exchange, idx, co.1⟩, none⟩
  | .opn o => some ⟨⟨co.2.exchange, idx, co.1⟩, some o.id⟩
  | .cancelInFlight _ => none

/-- requests generated by `cancel_orders(filter)` (cancel_orders.rs:37-41) -/
def cancelRequests (e : Eng) (f : Filter) : List CancelReq :=
  (e.instruments.zipIdx.filter (fun si => f.matches si.2 si.1)).flatMap fun si =>
    (sortByCid si.1.orders).filterMap (toRequestCancel si.2)

/-- client order id generated for the closing order of instrument `idx` (injected generator) -/
def closeCid (idx : Nat) : Nat := 9000 + idx

/-- requests generated by `close_open_positions_with_market_orders` (close_positions.rs:59-77,
`build_ioc_market_order_to_close_position` :82-112) -/
def closeRequests (e : Eng) (f : Filter) : List OpenReq :=
  (e.instruments.zipIdx.filter (fun si => f.matches si.2 si.1)).filterMap fun si =>
    match si.1.position, si.1.price with
    | some (side, q), some p => some ⟨⟨si.1.exchange, si.2, closeCid si.2⟩, side.opposite, p, q⟩
    | _, _ => none

/-- `Command`. -/
inductive Command where
  | sendCancelRequests (rs : List CancelReq)
  | sendOpenRequests (rs : List OpenReq)
  | closePositions (f : Filter)
  | cancelOrders (f : Filter)
  deriving Repr

/-- `ActionOutput` flattened: what was sent / failed, per kind. -/
structure ActionOut where
  cancels : SendOut CancelReq
  opens : SendOut OpenReq
  deriving Repr

def ActionOut.fatal (o : ActionOut) : Bool := o.cancels.fatal || o.opens.fatal

/-- `Engine::action` (engine/mod.rs:206-238). -/
def action (e : Eng) : Command → Eng × ActionOut
  | .sendCancelRequests rs =>
    let (e1, out) := sendRequests e Req.cnl rs
    (recordCancels e1 out.sent, ⟨out, SendOut.empty⟩)
  | .sendOpenRequests rs =>
    let (e1, out) := sendRequests e Req.opn rs
    (recordOpens e1 out.sent, ⟨SendOut.empty, out⟩)
  | .closePositions f =>
    let (e1, outC) := sendRequests e Req.cnl []
    let (e2, outO) := sendRequests e1 Req.opn (closeRequests e f)
    (recordOpens (recordCancels e2 outC.sent) outO.sent, ⟨outC, outO⟩)
  | .cancelOrders f =>
    let (e1, out) := sendRequests e Req.cnl (cancelRequests e f)
    (recordCancels e1 out.sent, ⟨out, SendOut.empty⟩)

/-- State updates from account / market items that the request path depends on. -/
inductive Update where
  /-- an order snapshot / cancel response for instrument `i` (C01 ops) -/
  | order (i : Nat) (op : Op)
  /-- a fill that opens a position on a flat instrument (the position arithmetic itself is C02) -/
  | position (i : Nat) (side : Side) (quantity : Rat)
  /-- a fill that closes the position -/
  | flat (i : Nat)
  /-- a market event that sets the instrument's price -/
  | price (i : Nat) (p : Rat)
  /-- any other market / account item or disconnect notice: it changes only state this model does not
  carry (connectivity, balances, statistics), but the engine still runs its generation stage -/
  | other
  deriving Repr

def applyUpdate (e : Eng) : Update → Eng
  | .order i op => { e with instruments := modifyInstr e.instruments i fun s => { s with orders := step s.orders op } }
  | .position i side q => { e with instruments := modifyInstr e.instruments i fun s => { s with position := some (side, q) } }
  | .flat i => { e with instruments := modifyInstr e.instruments i fun s => { s with position := none } }
  | .price i p => { e with instruments := modifyInstr e.instruments i fun s => { s with price := some p } }
  | .other => e

/-- `EngineEvent`. -/
inductive Event where
  | shutdown
  | command (c : Command)
  | tradingState (enabled : Bool)
  | update (u : Update)
  deriving Repr

/-- What one call of `Engine::process` reports (the `EngineAudit`, flattened). -/
structure Audit where
  commanded : Option ActionOut
  /-- `None`: generation did not run; `Some`: what `generate_algo_orders` returned -/
  generated : Option AlgoOut
  /-- the `AlgoOrders` output as it appears in the audit: dropped only when empty; an output that
  carries an unrecoverable error is reported TOGETHER with the errors (engine/mod.rs:175-181, after
  the repair `fix: keep the AlgoOrders output in the audit …`) -/
  algoInAudit : Option AlgoOut
  /-- the audit carries unrecoverable errors (terminal) -/
  fatal : Bool
  deriving Repr

/-- The tail of `Engine::process` (engine/mod.rs:171-184): generate algo orders iff trading is
enabled; `algoC`, `algoO`, `refuse` are what the strategy and the risk manager answer if asked. -/
def generateStage (e : Eng) (commanded : Option ActionOut) (algoC : List CancelReq)
    (algoO : List OpenReq) (refuse : Key → Bool) : Eng × Audit :=
  if e.enabled then
    let r := generateAlgoOrders e algoC algoO refuse
    (r.1, ⟨commanded, some r.2,
      if r.2.isEmpty then none else some r.2,
      !r.2.isEmpty && r.2.fatal⟩)
  else (e, ⟨commanded, none, none, false⟩)

/-- `TradingState::update` + `transitioned_to_disabled().then(on_trading_disabled)`. -/
def updateTradingState (e : Eng) (on : Bool) : Eng :=
  if e.enabled && !on then { e with enabled := false, disabledCalls := e.disabledCalls + 1 }
  else { e with enabled := on }

/-- `Engine::process` (engine/mod.rs:144-185). -/
def process (e : Eng) (ev : Event) (algoC : List CancelReq) (algoO : List OpenReq)
    (refuse : Key → Bool) : Eng × Audit :=
  match ev with
  | .shutdown => (e, ⟨none, none, none, false⟩)
  | .command c =>
    let r := action e c
    if r.2.fatal then (r.1, ⟨some r.2, none, none, true⟩)
    else generateStage r.1 (some r.2) algoC algoO refuse
  | .tradingState on => generateStage (updateTradingState e on) none algoC algoO refuse
  | .update u => generateStage (applyUpdate e u) none algoC algoO refuse

/-! ### Netting of fills (engine-level projection of `PositionManager::update_from_trade`)

The engine-level model carries `(side, quantity_abs)` of the open position only; the full position
arithmetic is `Model/Position.lean` (C02). `netFill` is the projection of
`PositionManager::update_from_trade` / `Position::update_from_trade` (position.rs:32-54, 227-328) on
that pair, arm by arm: no position = enter; same side = increase; opposite side and larger open
quantity = reduce; equal = close exactly; smaller = flip with the remainder. -/

/-- signed open quantity: long positive, short negative, flat zero -/
def signedQty : Option (Side × Rat) → Rat
  | none => 0
  | some (.buy, q) => q
  | some (.sell, q) => -q

def netFill (pos : Option (Side × Rat)) (side : Side) (q : Rat) : Option (Side × Rat) :=
  match pos with
  | none => some (side, q)
  | some (ps, pq) =>
    if ps = side then some (ps, pq + q)
    else if pq > q then some (ps, pq - q)
    else if pq = q then none
    else some (side, q - pq)

/-- The state update that an account trade `(side, q)` on instrument `i` amounts to in state `e`
(`ev fill i side q` of the line protocol): the netted position, or flat. -/
def fillUpdate (e : Eng) (i : Nat) (side : Side) (q : Rat) : Update :=
  match (e.instruments[i]?).bind (·.position) with
  | none => .position i side q
  | some p =>
    match netFill (some p) side q with
    | some (s', q') => .position i s' q'
    | none => .flat i

/-- The account trade that takes the open position `pre` to `post` (side, quantity); `none` if the two
are the same signed quantity. Inverse of `netFill` (`tradeBetween_netFill`). -/
def tradeBetween (pre post : Option (Side × Rat)) : Option (Side × Rat) :=
  let d := signedQty post - signedQty pre
  if 0 < d then some (.buy, d) else if d < 0 then some (.sell, -d) else none

end BarterModel.Engine
