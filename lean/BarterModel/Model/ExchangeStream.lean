/-
Model of the protocol-agnostic `ExchangeStream` poll loop, of the default WebSocket `StreamParser`
and of the deserialisation helpers of `barter-integration`:

  * `barter-integration/src/stream/mod.rs`          `ExchangeStream::{new, poll_next}`
  * `barter-integration/src/protocol/mod.rs`        `StreamParser` (the trait: a `parse` function)
  * `barter-integration/src/protocol/websocket.rs`  `WebSocketParser::parse`, `process_*`,
                                                    `is_websocket_disconnected`
  * `barter-integration/src/de.rs`                  every helper
  * `barter-integration/src/error.rs`               the `SocketError` variants the above produce
  * `barter-data/src/lib.rs:299-320`                `process_buffered_events` (fills the initial buffer)

Everything user supplied is a parameter: the `Transformer` is an arbitrary stateful function
`σ → ι → σ × List (Except τ ο)`, the `serde` deserialiser of the exchange message type is a pair of
functions (`De`), `From<SocketError>` is a function `conv`, and the decimal → `f64` rounding of
`str::parse::<f64>` is a function (`FloatSem.round`). Third-party behaviour that shows in
observable strings is modelled by its documented behaviour, with the place it comes from:
tungstenite 0.26 `CloseCode::from(u16)` + derived `Debug`, bytes 1.x `Debug for Bytes`,
`core::str::from_utf8` (`Utf8Error::{valid_up_to, error_len}` and its `Display`),
`u64::from_str`, the grammar of `f64::from_str`, `f64 as u64`, `Duration::from_secs_f64`
(round half to even on nanoseconds), chrono's representable range.

Times are whole nanoseconds since the Unix epoch (`Nat`). NOT modelled: the text of
`serde_json::Error`, tracing output, `connect` (network), wakers (a poll is a function call; the
inner stream is a script of poll results).
-/
namespace BarterModel.ExStream

/-! ## 1. WebSocket messages, errors and the parser (`protocol/websocket.rs`) -/

/-- tungstenite `CloseCode` (protocol/frame/coding.rs:119-188). -/
inductive CloseCode where
  | normal | away | protocol | unsupported | status | abnormal | invalid | policy | size
  | extension | error | restart | again | tls
  | reserved (c : Nat) | iana (c : Nat) | library (c : Nat) | bad (c : Nat)
  deriving DecidableEq, Repr, Inhabited

/-- `impl From<u16> for CloseCode` (coding.rs:235-258). -/
def CloseCode.ofU16 (c : Nat) : CloseCode :=
  if c = 1000 then .normal else if c = 1001 then .away else if c = 1002 then .protocol
  else if c = 1003 then .unsupported else if c = 1005 then .status else if c = 1006 then .abnormal
  else if c = 1007 then .invalid else if c = 1008 then .policy else if c = 1009 then .size
  else if c = 1010 then .extension else if c = 1011 then .error else if c = 1012 then .restart
  else if c = 1013 then .again else if c = 1015 then .tls
  else if 1 ≤ c ∧ c ≤ 999 then .bad c
  else if 1016 ≤ c ∧ c ≤ 2999 then .reserved c
  else if 3000 ≤ c ∧ c ≤ 3999 then .iana c
  else if 4000 ≤ c ∧ c ≤ 4999 then .library c
  else .bad c

/-- `#[derive(Debug)]` of `CloseCode`. -/
def CloseCode.debug : CloseCode → String
  | .normal => "Normal" | .away => "Away" | .protocol => "Protocol" | .unsupported => "Unsupported"
  | .status => "Status" | .abnormal => "Abnormal" | .invalid => "Invalid" | .policy => "Policy"
  | .size => "Size" | .extension => "Extension" | .error => "Error" | .restart => "Restart"
  | .again => "Again" | .tls => "Tls"
  | .reserved c => "Reserved(" ++ toString c ++ ")"
  | .iana c => "Iana(" ++ toString c ++ ")"
  | .library c => "Library(" ++ toString c ++ ")"
  | .bad c => "Bad(" ++ toString c ++ ")"

def hexDigit (n : Nat) : Char :=
  if n < 10 then Char.ofNat (48 + n) else Char.ofNat (87 + n)

/-- `impl Debug for Bytes` (bytes fmt/debug.rs:12-40): one byte. -/
def byteDebug (b : Nat) : List Char :=
  if b = 10 then ['\\', 'n'] else if b = 13 then ['\\', 'r'] else if b = 9 then ['\\', 't']
  else if b = 92 ∨ b = 34 then ['\\', Char.ofNat b]
  else if b = 0 then ['\\', '0']
  else if 0x20 ≤ b ∧ b < 0x7f then [Char.ofNat b]
  else ['\\', 'x', hexDigit (b / 16), hexDigit (b % 16)]

def bytesDebug (bs : List Nat) : String :=
  "b\"" ++ String.ofList (bs.flatMap byteDebug) ++ "\""

def utf8Bytes (s : String) : List Nat := s.toUTF8.toList.map (·.toNat)

/-- tungstenite `CloseFrame` (frame.rs:23-29); `reason` is a `Utf8Bytes`. -/
structure CloseFrame where
  code : CloseCode
  reason : String
  deriving DecidableEq, Repr, Inhabited

/-- `format!("{:?}", close_frame)` for `Option<CloseFrame>` (derived `Debug`s). -/
def closeFrameDebug : Option CloseFrame → String
  | none => "None"
  | some f => "Some(CloseFrame { code: " ++ f.code.debug ++ ", reason: Utf8Bytes("
      ++ bytesDebug (utf8Bytes f.reason) ++ ") })"

/-- tungstenite `ProtocolError`: the variant `is_websocket_disconnected` singles out, and the rest. -/
inductive ProtocolError where
  | sendAfterClosing
  | receivedAfterClosing
  | resetWithoutClosingHandshake
  | other (tag : Nat)
  deriving DecidableEq, Repr, Inhabited

/-- tungstenite `Error` (error.rs:15-76), payloads dropped except `Protocol`. -/
inductive WsError where
  | connectionClosed | alreadyClosed | io | tls | capacity
  | protocol (p : ProtocolError)
  | writeBufferFull | utf8 | attackAttempt | url | http | httpFormat
  deriving DecidableEq, Repr, Inhabited

/-- tungstenite `Message`. Payloads are byte lists (`Bytes`) except `Text` (`Utf8Bytes`). -/
inductive WsMessage where
  | text (payload : String)
  | binary (payload : List Nat)
  | ping (payload : List Nat)
  | pong (payload : List Nat)
  | close (frame : Option CloseFrame)
  | frame (payload : List Nat)
  deriving DecidableEq, Repr, Inhabited

/-- The `SocketError` variants produced by the modelled code (error.rs:7-64). The
`serde_json::Error` inside `Deserialise` is not modelled. -/
inductive SocketError where
  | deserialise (payload : String)
  | terminated (frame : String)
  | webSocket (e : WsError)
  deriving DecidableEq, Repr, Inhabited

/-- `impl Display for SocketError` (thiserror attributes, error.rs:38-39, 44-45) for the variants
whose text does not involve `serde_json` / tungstenite texts. -/
def SocketError.display : SocketError → Option String
  | .terminated frame => some ("ExchangeStream terminated with closing frame: " ++ frame)
  | _ => none

/-! ### `core::str::from_utf8` (needed for the payload text of a failed binary deserialisation) -/

inductive Utf8Res where
  | ok (cs : List Char)
  /-- `Utf8Error { valid_up_to, error_len }` -/
  | err (validUpTo : Nat) (errorLen : Option Nat)
  deriving DecidableEq, Repr

def isCont (b : Nat) : Bool := 0x80 ≤ b && b ≤ 0xBF

/-- second byte admissible after a three-byte lead (core/str/validations.rs, `run_utf8_validation`) -/
def ok3 (b0 b1 : Nat) : Bool :=
  (b0 = 0xE0 && 0xA0 ≤ b1 && b1 ≤ 0xBF) || (0xE1 ≤ b0 && b0 ≤ 0xEC && isCont b1) ||
  (b0 = 0xED && 0x80 ≤ b1 && b1 ≤ 0x9F) || (0xEE ≤ b0 && b0 ≤ 0xEF && isCont b1)

/-- second byte admissible after a four-byte lead -/
def ok4 (b0 b1 : Nat) : Bool :=
  (b0 = 0xF0 && 0x90 ≤ b1 && b1 ≤ 0xBF) || (0xF1 ≤ b0 && b0 ≤ 0xF3 && isCont b1) ||
  (b0 = 0xF4 && 0x80 ≤ b1 && b1 ≤ 0x8F)

/-- `run_utf8_validation`, decoding as it goes. `i` = index of the current byte, `fuel` bounds the
recursion (callers pass the length). -/
def utf8Go : Nat → Nat → List Char → List Nat → Utf8Res
  | 0, _, acc, _ => .ok acc.reverse
  | _, _, acc, [] => .ok acc.reverse
  | fuel + 1, i, acc, b0 :: rest =>
    if b0 < 0x80 then utf8Go fuel (i + 1) (Char.ofNat b0 :: acc) rest
    else if 0xC2 ≤ b0 ∧ b0 ≤ 0xDF then
      match rest with
      | [] => .err i none
      | b1 :: r =>
        if isCont b1 then utf8Go fuel (i + 2) (Char.ofNat ((b0 - 0xC0) * 64 + (b1 - 0x80)) :: acc) r
        else .err i (some 1)
    else if 0xE0 ≤ b0 ∧ b0 ≤ 0xEF then
      match rest with
      | [] => .err i none
      | b1 :: r1 =>
        if ok3 b0 b1 then
          match r1 with
          | [] => .err i none
          | b2 :: r2 =>
            if isCont b2 then
              utf8Go fuel (i + 3)
                (Char.ofNat ((b0 - 0xE0) * 4096 + (b1 - 0x80) * 64 + (b2 - 0x80)) :: acc) r2
            else .err i (some 2)
        else .err i (some 1)
    else if 0xF0 ≤ b0 ∧ b0 ≤ 0xF4 then
      match rest with
      | [] => .err i none
      | b1 :: r1 =>
        if ok4 b0 b1 then
          match r1 with
          | [] => .err i none
          | b2 :: r2 =>
            if isCont b2 then
              match r2 with
              | [] => .err i none
              | b3 :: r3 =>
                if isCont b3 then
                  utf8Go fuel (i + 4)
                    (Char.ofNat ((b0 - 0xF0) * 262144 + (b1 - 0x80) * 4096 + (b2 - 0x80) * 64
                      + (b3 - 0x80)) :: acc) r3
                else .err i (some 3)
            else .err i (some 2)
        else .err i (some 1)
    else .err i (some 1)

def utf8Decode (bs : List Nat) : Utf8Res := utf8Go bs.length 0 [] bs

/-- `impl Display for Utf8Error` (core/str/error.rs). -/
def utf8ErrorDisplay (validUpTo : Nat) : Option Nat → String
  | some n => "invalid utf-8 sequence of " ++ toString n ++ " bytes from index " ++ toString validUpTo
  | none => "incomplete utf-8 byte sequence from index " ++ toString validUpTo

/-- `String::from_utf8(payload.into()).unwrap_or_else(|x| x.to_string())` (websocket.rs:101): the
payload as text when it is UTF-8, otherwise the *text of the UTF-8 error*. -/
def binaryPayloadText (bs : List Nat) : String :=
  match utf8Decode bs with
  | .ok cs => String.ofList cs
  | .err v l => utf8ErrorDisplay v l

/-- The `serde` deserialiser of the exchange message type `ι`: `serde_json::from_str` on text
payloads, `serde_json::from_slice` on binary payloads. `none` = `Err(serde_json::Error)`. -/
structure De (ι : Type) where
  text : String → Option ι
  binary : List Nat → Option ι

abbrev Parsed (ι : Type) := Option (Except SocketError ι)

/-- `process_text` (websocket.rs:62-82). -/
def processText {ι : Type} (de : De ι) (payload : String) : Parsed ι :=
  some (match de.text payload with
    | some m => .ok m
    | none => .error (.deserialise payload))

/-- `process_binary` (websocket.rs:85-105). -/
def processBinary {ι : Type} (de : De ι) (payload : List Nat) : Parsed ι :=
  some (match de.binary payload with
    | some m => .ok m
    | none => .error (.deserialise (binaryPayloadText payload)))

/-- `process_ping` (websocket.rs:108-111). -/
def processPing {ι : Type} (_ping : List Nat) : Parsed ι := none

/-- `process_pong` (websocket.rs:114-117). -/
def processPong {ι : Type} (_pong : List Nat) : Parsed ι := none

/-- `process_close_frame` (websocket.rs:120-126). -/
def processCloseFrame {ι : Type} (frame : Option CloseFrame) : Parsed ι :=
  some (.error (.terminated (closeFrameDebug frame)))

/-- `process_frame` (websocket.rs:129-136). -/
def processFrame {ι : Type} (_frame : List Nat) : Parsed ι := none

/-- `WebSocketParser::parse` (websocket.rs:41-58). -/
def parse {ι : Type} (de : De ι) : Except WsError WsMessage → Parsed ι
  | .ok (.text t) => processText de t
  | .ok (.binary b) => processBinary de b
  | .ok (.ping p) => processPing p
  | .ok (.pong p) => processPong p
  | .ok (.close f) => processCloseFrame f
  | .ok (.frame f) => processFrame f
  | .error e => some (.error (.webSocket e))

/-- `is_websocket_disconnected` (websocket.rs:150-158). -/
def isWebsocketDisconnected : WsError → Bool
  | .connectionClosed => true
  | .alreadyClosed => true
  | .io => true
  | .protocol .sendAfterClosing => true
  | _ => false

/-! ### Specification of the parser (from the doc comments: "deserialising into an
`ExchangeMessage`", "safe-to-skip message", "terminated with closing frame") -/

/-- What a protocol input *is*, independently of how it is handled. -/
inductive Disposition where
  /-- carries an exchange payload that has to be deserialised -/
  | data
  /-- protocol housekeeping with no exchange content: safe to skip -/
  | housekeeping
  /-- the peer closed the session -/
  | closed
  /-- the transport itself failed -/
  | transport
  deriving DecidableEq, Repr

def disposition : Except WsError WsMessage → Disposition
  | .ok (.text _) | .ok (.binary _) => .data
  | .ok (.ping _) | .ok (.pong _) | .ok (.frame _) => .housekeeping
  | .ok (.close _) => .closed
  | .error _ => .transport

/-- The text of a data payload, when it has one. -/
def payloadText : WsMessage → Option String
  | .text t => some t
  | .binary b => match utf8Decode b with
    | .ok cs => some (String.ofList cs)
    | .err _ _ => none
  | _ => none

/-- What the documentation determines about `parse` (`none` = it is silent): housekeeping is
skipped, a close is `Terminated` with the frame, a transport error is passed on, a data payload is
handed to the deserialiser and a failure is reported together with the payload as text — which
says nothing about a payload that has no text form. -/
def specParse {ι : Type} (de : De ι) (m : Except WsError WsMessage) : Option (Parsed ι) :=
  match m with
  | .error e => some (some (.error (.webSocket e)))
  | .ok w =>
    match disposition m with
    | .housekeeping => some none
    | .closed =>
      match w with
      | .close f => some (some (.error (.terminated (closeFrameDebug f))))
      | _ => none
    | .transport => none
    | .data =>
      match w with
      | .text t =>
        some (some (match de.text t with
          | some x => .ok x
          | none => .error (.deserialise t)))
      | .binary b =>
        match de.binary b with
        | some x => some (some (.ok x))
        | none => (payloadText w).map fun t => some (.error (.deserialise t))
      | _ => none

/-- "Does this error indicate that the WebSocket has disconnected?" as far as tungstenite's
documentation of its errors settles it (`none` = not settled): `ConnectionClosed` / `AlreadyClosed`
say so, `Io` errors are "errors with the underlying connection", the kinds below have nothing to
do with the connection's liveness; the `Protocol` and `Tls` families are left open. -/
def specDisconnected : WsError → Option Bool
  | .connectionClosed | .alreadyClosed | .io => some true
  | .capacity | .writeBufferFull | .utf8 | .attackAttempt | .url | .http | .httpFormat => some false
  | .protocol _ | .tls => none

/-! ## 2. `ExchangeStream` (`stream/mod.rs`) -/

/-- One poll result of the inner stream that is not the end: an item, or `Poll::Pending`. -/
inductive Inner (μ : Type) where
  | item (m : μ)
  | pending
  deriving DecidableEq, Repr

/-- The inner stream as a script: the finite list of its next poll results; once the script is
used up it returns `Ready(None)` on every poll if `ended`, `Pending` on every poll otherwise. -/
structure Script (μ : Type) where
  items : List (Inner μ)
  ended : Bool
  deriving DecidableEq, Repr

/-- `Protocol::parse::<Input>`, `StreamTransformer::Error: From<SocketError>` and
`Transformer::transform` (`&mut self` = explicit state `σ`). `μ` inner item
(`Result<Protocol::Message, Protocol::Error>`), `ε` the parser's error, `ι` `Transformer::Input`,
`ο` `Transformer::Output`, `τ` `Transformer::Error`. -/
structure Params (μ ε ι σ ο τ : Type) where
  parse : μ → Option (Except ε ι)
  conv : ε → τ
  transform : σ → ι → σ × List (Except τ ο)

/-- `ExchangeStream` (stream/mod.rs:16-29). -/
structure St (μ σ ο τ : Type) where
  stream : Script μ
  transformer : σ
  buffer : List (Except τ ο)

/-- `Poll<Option<Self::Item>>`. -/
inductive PollRes (α : Type) where
  | ready (a : Option α)
  | pending
  deriving DecidableEq, Repr

/-- `ExchangeStream::new` (stream/mod.rs:88-99). -/
def St.new {μ σ ο τ : Type} (stream : Script μ) (transformer : σ) (buffer : List (Except τ ο)) :
    St μ σ ο τ := ⟨stream, transformer, buffer⟩

variable {μ ε ι σ ο τ : Type}

/-- The `loop` of `poll_next` from the point where the buffer is empty (stream/mod.rs:49-78):
poll the inner stream; `None` ⇒ `continue`; `Some(Err)` ⇒ return the converted error;
`Some(Ok)` ⇒ transform, push every output to the buffer and go round the loop (which pops the
first output, or polls again if there was none). -/
def pollInner (P : Params μ ε ι σ ο τ) (ended : Bool) (t : σ) :
    List (Inner μ) → St μ σ ο τ × PollRes (Except τ ο)
  | [] => (⟨⟨[], ended⟩, t, []⟩, if ended then .ready none else .pending)
  | .pending :: rest => (⟨⟨rest, ended⟩, t, []⟩, .pending)
  | .item m :: rest =>
    match P.parse m with
    | none => pollInner P ended t rest
    | some (.error e) => (⟨⟨rest, ended⟩, t, []⟩, .ready (some (.error (P.conv e))))
    | some (.ok x) =>
      match P.transform t x with
      | (t', []) => pollInner P ended t' rest
      | (t', o :: os) => (⟨⟨rest, ended⟩, t', os⟩, .ready (some o))

/-- `ExchangeStream::poll_next` (stream/mod.rs:41-78). -/
def pollNext (P : Params μ ε ι σ ο τ) (s : St μ σ ο τ) : St μ σ ο τ × PollRes (Except τ ο) :=
  match s.buffer with
  | o :: rest => ({ s with buffer := rest }, .ready (some o))
  | [] => pollInner P s.stream.ended s.transformer s.stream.items

/-- The results of the first `n` polls. -/
def polls (P : Params μ ε ι σ ο τ) : Nat → St μ σ ο τ → List (PollRes (Except τ ο))
  | 0, _ => []
  | n + 1, s => (pollNext P s).2 :: polls P n (pollNext P s).1

/-- The state after `n` polls. -/
def after (P : Params μ ε ι σ ο τ) : Nat → St μ σ ο τ → St μ σ ο τ
  | 0, s => s
  | n + 1, s => after P n (pollNext P s).1

/-- The items handed out by a list of poll results. -/
def itemsOf {α : Type} : List (PollRes α) → List α
  | [] => []
  | .ready (some a) :: r => a :: itemsOf r
  | _ :: r => itemsOf r

/-- `process_buffered_events` (barter-data/src/lib.rs:299-320): the messages buffered during
subscription validation are parsed (failures logged and dropped, skippable ones dropped) and
transformed, in order; the outputs are the initial buffer of the `ExchangeStream`. -/
def processBuffered (P : Params μ ε ι σ ο τ) (t : σ) : List μ → σ × List (Except τ ο)
  | [] => (t, [])
  | m :: ms =>
    match P.parse m with
    | some (.ok x) =>
      let (t', outs) := P.transform t x
      let (t'', more) := processBuffered P t' ms
      (t'', outs ++ more)
    | _ => processBuffered P t ms

/-- The parameters with parse failures turned into skippable messages (how
`process_buffered_events` treats them: logged and dropped). -/
def quiet (P : Params μ ε ι σ ο τ) : Params μ ε ι σ ο τ :=
  { P with parse := fun m => match P.parse m with
      | some (.error _) => none
      | r => r }

/-! ### Specification of the stream (from the doc comment: "polls protocol messages from the
inner Stream, and transforms them into the desired output data structure") -/

/-- What one protocol message contributes to the output, and the transformer state after it. -/
def contribution (P : Params μ ε ι σ ο τ) (t : σ) (m : μ) : σ × List (Except τ ο) :=
  match P.parse m with
  | none => (t, [])
  | some (.error e) => (t, [.error (P.conv e)])
  | some (.ok x) => P.transform t x

/-- The output of a message sequence: the concatenation, in order, of the contributions, the
transformer state threaded through in message order. -/
def specOut (P : Params μ ε ι σ ο τ) (t : σ) : List μ → List (Except τ ο)
  | [] => []
  | m :: ms => (contribution P t m).2 ++ specOut P (contribution P t m).1 ms

/-- The transformer state after a message sequence. -/
def specState (P : Params μ ε ι σ ο τ) (t : σ) : List μ → σ
  | [] => t
  | m :: ms => specState P (contribution P t m).1 ms

/-- The messages of a script. -/
def messages : List (Inner μ) → List μ
  | [] => []
  | .item m :: r => m :: messages r
  | .pending :: r => messages r

/-- The poll-by-poll trace the script determines: every message replaced by its outputs, every
`Pending` of the inner stream kept in its place. -/
def specTrace (P : Params μ ε ι σ ο τ) (t : σ) : List (Inner μ) → List (PollRes (Except τ ο))
  | [] => []
  | .pending :: r => .pending :: specTrace P t r
  | .item m :: r =>
    (contribution P t m).2.map (fun o => .ready (some o)) ++ specTrace P (contribution P t m).1 r

/-- What every poll returns once script and buffer are used up. -/
def exhausted (ended : Bool) : PollRes (Except τ ο) := if ended then .ready none else .pending

/-- The whole observable behaviour of a stream: the determined prefix of poll results, followed by
`exhausted` for ever. -/
def specPolls (P : Params μ ε ι σ ο τ) (s : St μ σ ο τ) : List (PollRes (Except τ ο)) :=
  s.buffer.map (fun o => .ready (some o)) ++ specTrace P s.transformer s.stream.items

/-- The `k`-th poll according to the specification. -/
def specPollAt (P : Params μ ε ι σ ο τ) (s : St μ σ ο τ) (k : Nat) : PollRes (Except τ ο) :=
  ((specPolls P s)[k]?).getD (exhausted s.stream.ended)

/-- Everything the stream will still hand out: buffer first, then the outputs of the messages
not yet read. -/
def future (P : Params μ ε ι σ ο τ) (s : St μ σ ο τ) : List (Except τ ο) :=
  s.buffer ++ specOut P s.transformer (messages s.stream.items)

/-! ## 3. Deserialisation helpers (`de.rs`) -/

def u64Max : Nat := 2 ^ 64 - 1

/-- Largest `secs` for which chrono's `DateTime::<Utc>::from_timestamp(secs, _)` is `Some`
(+262142-12-31T23:59:59Z). -/
def maxChronoSecs : Nat := 8210266876799

def nanosPerSec : Nat := 1000000000
def nanosPerMilli : Nat := 1000000

/-- Result of a helper: a value, a `serde` error, or a panic of the helper itself. -/
inductive Outcome (α : Type) where
  | ok (a : α)
  | err (e : String)
  | panic
  deriving DecidableEq, Repr

/-- `std::time::Duration`: whole seconds and sub-second nanoseconds (`< 10^9`). -/
structure Duration where
  secs : Nat
  nanos : Nat
  deriving DecidableEq, Repr

def Duration.totalNanos (d : Duration) : Nat := d.secs * nanosPerSec + d.nanos

/-- `Duration::from_millis` (u64 argument). -/
def Duration.fromMillis (ms : Nat) : Duration := ⟨ms / 1000, (ms % 1000) * nanosPerMilli⟩

/-- `datetime_utc_from_epoch_duration` (de.rs:2-6): `UNIX_EPOCH + duration` (panics when the
seconds exceed `i64::MAX`), then chrono's `From<SystemTime>`, which ends in
`Utc.timestamp_opt(sec, nsec).unwrap()` (panics outside chrono's range). `none` = panic. -/
def datetimeUtcFromEpochDuration (d : Duration) : Option Nat :=
  if d.secs ≤ maxChronoSecs then some d.totalNanos else none

def ofDateTime (o : Option Nat) : Outcome Nat :=
  match o with
  | some t => .ok t
  | none => .panic

/-- The JSON value a helper is applied to, as far as the helpers can tell values apart. -/
inductive Json where
  /-- a string; `escaped` = the literal contains a `\` escape (then `serde_json` cannot lend a
  borrowed `&str`) -/
  | str (content : List Char) (escaped : Bool)
  /-- a non-negative integer literal (no sign, fraction or exponent) -/
  | uint (n : Nat)
  /-- anything else: negative or fractional number, `null`, `true`, array, object, malformed -/
  | other
  deriving DecidableEq, Repr

/-- Error labels (the harness maps `serde_json::Error` messages to the same labels). -/
def eJson : String := "json"          -- rejected by the JSON layer: wrong type / malformed
def eIntEmpty : String := "empty"     -- IntErrorKind::Empty
def eIntDigit : String := "digit"     -- IntErrorKind::InvalidDigit
def eIntOverflow : String := "overflow" -- IntErrorKind::PosOverflow
def eFloatEmpty : String := "fempty"  -- FloatErrorKind::Empty
def eFloatInvalid : String := "finvalid" -- FloatErrorKind::Invalid
def eMissing (name : String) : String := "missing:" ++ name

/-- `de_str` (de.rs:9-17): `let data: &str = Deserialize::deserialize(..)?` needs a *borrowed*
string, then `data.parse::<T>()`; `parse` is `T::from_str` with its error label. -/
def deStr {α : Type} (parseT : List Char → Except String α) : Json → Outcome α
  | .str cs false => match parseT cs with
    | .ok a => .ok a
    | .error e => .err e
  | _ => .err eJson

def isDigit (c : Char) : Bool := '0' ≤ c && c ≤ '9'
def digitVal (c : Char) : Nat := c.toNat - 48

/-- The checked accumulation loop of `u64::from_str` (core/num/mod.rs `from_ascii_radix`):
left to right, digit check before overflow check. -/
def u64Loop : Nat → List Char → Except String Nat
  | acc, [] => .ok acc
  | acc, c :: cs =>
    if isDigit c then
      if acc * 10 + digitVal c ≤ u64Max then u64Loop (acc * 10 + digitVal c) cs
      else .error eIntOverflow
    else .error eIntDigit

/-- `<u64 as FromStr>::from_str`. -/
def parseU64Str : List Char → Except String Nat
  | [] => .error eIntEmpty
  | ['+'] => .error eIntDigit
  | ['-'] => .error eIntDigit
  | '+' :: cs => u64Loop 0 cs
  | cs => u64Loop 0 cs

/-- An `f64`, as far as the helpers look at it (`-0.0` is `finite 0`). -/
inductive F64 where
  | finite (q : Rat)
  | inf (neg : Bool)
  | nan
  deriving DecidableEq, Repr

/-- The decimal → binary64 rounding of `f64::from_str` (correctly rounded in the real code;
a parameter here). -/
structure FloatSem where
  round : Rat → F64

def natOfDigits (ds : List Char) : Nat := ds.foldl (fun a c => a * 10 + digitVal c) 0

def pow10Rat (e : Int) : Rat := (10 : Rat) ^ e

def lower (c : Char) : Char := c.toLower

/-- `Exp ::= 'e' Sign? Digit+` — the exponent value, `none` if malformed; `[]` ⇒ `0`. -/
def parseExp : List Char → Option Int
  | [] => some 0
  | e :: rest =>
    if lower e = 'e' then
      match rest with
      | '+' :: ds => if !ds.isEmpty && ds.all isDigit then some (natOfDigits ds : Int) else none
      | '-' :: ds => if !ds.isEmpty && ds.all isDigit then some (-(natOfDigits ds : Int)) else none
      | ds => if !ds.isEmpty && ds.all isDigit then some (natOfDigits ds : Int) else none
    else none

/-- `Number ::= ( Digit+ | Digit+ '.' Digit* | Digit* '.' Digit+ ) Exp?` — exact value. -/
def parseNumber (cs : List Char) : Option Rat :=
  let (ip, r1) := cs.span isDigit
  let (fp, r2, _dot) : List Char × List Char × Bool :=
    match r1 with
    | '.' :: r => let (fp, r2) := r.span isDigit; (fp, r2, true)
    | _ => ([], r1, false)
  if ip.isEmpty && fp.isEmpty then none else
  match parseExp r2 with
  | none => none
  | some e => some ((natOfDigits (ip ++ fp) : Rat) * pow10Rat (e - fp.length))

def isWord (cs : List Char) (w : String) : Bool := cs.map lower == w.toList

/-- `Sign?` -/
def splitSign : List Char → Bool × List Char
  | '-' :: r => (true, r)
  | '+' :: r => (false, r)
  | cs => (false, cs)

/-- `<f64 as FromStr>::from_str` (core/num/dec2flt/mod.rs `dec2flt`): `Sign? (Number | 'inf' |
'infinity' | 'nan')`, letters case-insensitive, no surrounding whitespace; the number is tried
first, the words only when it fails (`parse_number` then `parse_inf_nan`). -/
def parseF64Str (sem : FloatSem) (cs : List Char) : Except String F64 :=
  if cs.isEmpty then .error eFloatEmpty else
  let (neg, body) := splitSign cs
  match parseNumber body with
  | some q => .ok (sem.round (if neg then -q else q))
  | none =>
    if isWord body "inf" || isWord body "infinity" then .ok (.inf neg)
    else if isWord body "nan" then .ok .nan
    else .error eFloatInvalid

/-- `f64 as u64`: truncation towards zero, saturating; `NaN` ⇒ `0`. -/
def f64AsU64 : F64 → Nat
  | .nan => 0
  | .inf true => 0
  | .inf false => u64Max
  | .finite q => if q < 0 then 0 else min q.floor.toNat u64Max

/-- Round half to even. -/
def roundHalfEven (q : Rat) : Int :=
  let f := q.floor
  let r := q - f
  if r < 1 / 2 then f
  else if 1 / 2 < r then f + 1
  else if f % 2 = 0 then f else f + 1

/-- `Duration::from_secs_f64` (core/time.rs `try_from_secs!` + `expect`): panics (`none`) on a
negative, non-finite or `≥ 2^64` value; otherwise the exact value rounded to whole nanoseconds,
ties to even. -/
def durationFromSecsF64 : F64 → Option Duration
  | .nan => none
  | .inf _ => none
  | .finite q =>
    if q < 0 then none
    else if (2 : Rat) ^ 64 ≤ q then none
    else
      let n := (roundHalfEven (q * nanosPerSec)).toNat
      some ⟨n / nanosPerSec, n % nanosPerSec⟩

/-- `de_u64_epoch_ms_as_datetime_utc` (de.rs:20-29). -/
def deU64EpochMs : Json → Outcome Nat
  | .uint n =>
    if n ≤ u64Max then ofDateTime (datetimeUtcFromEpochDuration (Duration.fromMillis n))
    else .err eJson
  | _ => .err eJson

/-- `de_str_u64_epoch_ms_as_datetime_utc` (de.rs:32-41). -/
def deStrU64EpochMs (j : Json) : Outcome Nat :=
  match deStr parseU64Str j with
  | .ok ms => ofDateTime (datetimeUtcFromEpochDuration (Duration.fromMillis ms))
  | .err e => .err e
  | .panic => .panic

/-- `de_str_f64_epoch_ms_as_datetime_utc` (de.rs:44-53): `epoch_ms as u64`. -/
def deStrF64EpochMs (sem : FloatSem) (j : Json) : Outcome Nat :=
  match deStr (parseF64Str sem) j with
  | .ok x => ofDateTime (datetimeUtcFromEpochDuration (Duration.fromMillis (f64AsU64 x)))
  | .err e => .err e
  | .panic => .panic

/-- `de_str_f64_epoch_s_as_datetime_utc` (de.rs:56-65). -/
def deStrF64EpochS (sem : FloatSem) (j : Json) : Outcome Nat :=
  match deStr (parseF64Str sem) j with
  | .ok x =>
    match durationFromSecsF64 x with
    | some d => ofDateTime (datetimeUtcFromEpochDuration d)
    | none => .panic
  | .err e => .err e
  | .panic => .panic

/-- `extract_next` (de.rs:74-85) over the remaining elements of a sequence; `de` deserialises one
element into the target type. -/
def extractNext {J α : Type} (de : J → Option α) (name : String) :
    List J → Except String (α × List J)
  | [] => .error (eMissing name)
  | j :: rest =>
    match de j with
    | some a => .ok (a, rest)
    | none => .error eJson

/-- A visitor that extracts the fields `names` one after the other (how `extract_next` is used by
the sequence visitors of the connectors). -/
def extractAll {J α : Type} (de : J → Option α) : List String → List J → Except String (List α × List J)
  | [], js => .ok ([], js)
  | n :: names, js =>
    match extractNext de n js with
    | .error e => .error e
    | .ok (a, rest) =>
      match extractAll de names rest with
      | .error e => .error e
      | .ok (as, rest') => .ok (a :: as, rest')

/-- `se_element_to_vector` (de.rs:88-99): a sequence of length one. -/
def seElementToVector {α : Type} (element : α) : List α := [element]

/-! ### Specification of the time helpers (from their doc comments) -/

/-- "`u64` milliseconds value as `DateTime<Utc>`": the instant `ms` milliseconds after the epoch. -/
def specEpochMs (ms : Nat) : Nat := ms * nanosPerMilli

/-- The value of a decimal numeral without sign (`Digit+`). -/
def specNumeral (ds : List Char) : Nat := natOfDigits ds

/-! ### A concrete `FloatSem`: IEEE-754 binary64 round-to-nearest, ties to even (used by the
driver; the theorems keep `FloatSem` abstract). -/

/-- `⌊log2 q⌋` for `q > 0`. -/
def floorLog2 (q : Rat) : Int :=
  let e0 : Int := (q.num.toNat.log2 : Int) - (q.den.log2 : Int)
  if (2 : Rat) ^ e0 ≤ q then (if (2 : Rat) ^ (e0 + 1) ≤ q then e0 + 1 else e0) else e0 - 1

def nearestPos (q : Rat) : F64 :=
  let e := max (floorLog2 q - 52) (-1074)
  let m := roundHalfEven (q / (2 : Rat) ^ e)
  let v : Rat := (m : Rat) * (2 : Rat) ^ e
  if (2 : Rat) ^ (1024 : Int) ≤ v then .inf false else .finite v

def nearestF64 (q : Rat) : F64 :=
  if q = 0 then .finite 0
  else if 0 < q then nearestPos q
  else match nearestPos (-q) with
    | .finite v => .finite (-v)
    | .inf _ => .inf true
    | .nan => .nan

def ieee : FloatSem := ⟨nearestF64⟩

/-! ### Numerals with very large exponents (added after the review of the sub-check theorems)

`parseNumber` denotes the exact value `m · 10^E` of a numeral. That is the right *meaning*, but a
program cannot evaluate it for `"0e99999999999"` (`10^huge`). The definitions below read the same
grammar without computing the power (`parseNumberParts`: mantissa digits and decimal exponent) and
evaluate `f64::from_str` through them (`parseF64Fast`): a zero mantissa is `0` whatever the
exponent; a non-zero mantissa with `E ≥ 400` is `±inf` and with `E + #digits ≤ -400` is `0`
(`10^400 > 2^1024`, `10^-400 < 2^-1075`: what every correctly rounded binary64 conversion gives,
and what `core::num::dec2flt` returns); everything else is the exact value handed to the rounding,
as in `parseF64Str`. `Lemmas/ExchangeStream.lean` proves `parseNumber = value ∘ parseNumberParts`
and `parseF64Fast = parseF64Str` outside the two clamped branches (for every `FloatSem`); inside
them the equality is a property of the rounding (`ieee` overflows / underflows there — witnesses
at the thresholds in `Props/C12W.lean`). Nothing above this line was changed. -/

/-- `'.' Digit*` after the integer part: (fraction digits, rest, had a dot). -/
def fracSplit (r1 : List Char) : List Char × List Char × Bool :=
  match r1 with
  | '.' :: r => ((r.span isDigit).1, (r.span isDigit).2, true)
  | _ => ([], r1, false)

/-- The grammar of `parseNumber`, returning the mantissa digits `ip ++ fp` and the decimal
exponent `E = e - |fp|` instead of the value `natOfDigits (ip ++ fp) · 10^E`. -/
def parseNumberParts (cs : List Char) : Option (List Char × Int) :=
  let ip := (cs.span isDigit).1
  let t := fracSplit (cs.span isDigit).2
  if ip.isEmpty && t.1.isEmpty then none else
  match parseExp t.2.1 with
  | none => none
  | some e => some (ip ++ t.1, e - t.1.length)

/-- `parseF64Str` evaluated without computing `10^E` for huge `|E|` (see the section comment). -/
def parseF64Fast (sem : FloatSem) (cs : List Char) : Except String F64 :=
  if cs.isEmpty then .error eFloatEmpty else
  let (neg, body) := splitSign cs
  match parseNumberParts body with
  | some (ds, e) =>
    if natOfDigits ds = 0 then .ok (sem.round 0)
    else if 400 ≤ e then .ok (.inf neg)
    else if e + (ds.length : Int) ≤ -400 then .ok (.finite 0)
    else .ok (sem.round (if neg then -((natOfDigits ds : Rat) * pow10Rat e)
                         else (natOfDigits ds : Rat) * pow10Rat e))
  | none =>
    if isWord body "inf" || isWord body "infinity" then .ok (.inf neg)
    else if isWord body "nan" then .ok .nan
    else .error eFloatInvalid

/-- `deStrF64EpochMs` with the string → `f64` step as a parameter
(`deStrF64EpochMs sem = deStrF64EpochMsWith (parseF64Str sem)` by `rfl`). -/
def deStrF64EpochMsWith (p : List Char → Except String F64) (j : Json) : Outcome Nat :=
  match deStr p j with
  | .ok x => ofDateTime (datetimeUtcFromEpochDuration (Duration.fromMillis (f64AsU64 x)))
  | .err e => .err e
  | .panic => .panic

/-- `deStrF64EpochS` with the string → `f64` step as a parameter. -/
def deStrF64EpochSWith (p : List Char → Except String F64) (j : Json) : Outcome Nat :=
  match deStr p j with
  | .ok x =>
    match durationFromSecsF64 x with
    | some d => ofDateTime (datetimeUtcFromEpochDuration d)
    | none => .panic
  | .err e => .err e
  | .panic => .panic

end BarterModel.ExStream
