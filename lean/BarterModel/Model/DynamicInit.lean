import BarterModel.Model.Subscribe
import BarterModel.Model.SubRequests
import BarterModel.Model.MarketStreamInit
/-!
# C13D (sub-check of C13) — the ARM BODIES of `DynamicStreams::init`

`Model/Subscribe.lean` (C13V) models `DynamicStreams::init` up to the `match (exchange, sub_kind)` and reads the
arm PATTERNS from the source text; its `dispatch` ASSUMES that the arm reached under the pattern
`(ExchangeId::X, SubKind::K)` opens a connection of exchange `X` and kind `K`. This file models what the arm
BODIES (barter-data/src/streams/builder/dynamic/mod.rs:127-546) really do: each constructs

    init_market_stream(STREAM_RECONNECTION_POLICY,
        subs.into_iter().map(|sub| Subscription::new(<Connector>::default(), sub.instrument, <Kind>)).collect())

for a connector TYPE and a kind TYPE written out in the body, and forwards the stream into `txs.<family>`.
The body is a table `armBody : ExchangeId → SubKind → Option Body` over ALL 42 × 6 pairs, copied arm by arm; a
wrong connector (`GateioFuturesUsd::default()` in the `GateioFuturesBtc` arm) or a wrong kind type compiles, and
is a different table.

What a call of `init_market_stream` does before the network is what the code itself logs there (and the
harness records through a `tracing` subscriber): `Exchange::ID`, the policy, the stream key
(consumer.rs:56-70), then `Exchange::url()` and the subscriptions as handed to the subscriber
(subscriber/mod.rs:71-73), then the URL dialled (barter-integration/src/protocol/websocket.rs:142).

REUSED: everything of `Model/Subscribe.lean` (validation, `Channels::try_from`, `groups` = sort + chunk_by with
`sort_unstable_by_key` a parameter), `SubRequests.urlParsed` (the URL table, C13Q),
`MarketStreamInit.streamReconnectionPolicy` (C12I).

The network is outside the model; the sandbox has none: a call whose arm exists ends in a failed connection
attempt (`Outcome.network`).

Second half: the abstract specification, from the property text ("market-data messages are attributed to the
subscribed instrument; exchange id of events = the subscribed exchange") and the doc comment of
`DynamicStreams::init`. Core Lean only.
-/
namespace BarterModel.DynamicInit
open BarterModel.Names (ExchangeId Str)
open BarterModel.Connectors (Exch)
open BarterModel.Subscribe
open BarterModel.Streams (Policy)

/-! ## The arm bodies -/

/-- What the body of one arm writes out: the connector type it constructs (`<Connector>::default()` / the unit
struct), the kind type it constructs, the `txs.<family>` it forwards the stream to. -/
structure Body where
  conn : Exch
  kind : SubKind
  chan : Chan
  deriving DecidableEq, Repr, Inhabited

/-- The bodies of the `match (exchange, sub_kind)` in `DynamicStreams::init`, arm by arm (line numbers of
dynamic/mod.rs); `none` = the fall-through arm `Err(DataError::Unsupported { exchange, sub_kind })` (:543-545).
Total over the whole `ExchangeId` × `SubKind` table. -/
def armBody : ExchangeId → SubKind → Option Body
  | .binanceSpot, .publicTrades => some ⟨.binanceSpot, .publicTrades, .trades⟩                 -- :127-146
  | .binanceSpot, .orderBooksL1 => some ⟨.binanceSpot, .orderBooksL1, .l1s⟩                    -- :147-166
  | .binanceSpot, .orderBooksL2 => some ⟨.binanceSpot, .orderBooksL2, .l2s⟩                    -- :167-186
  | .binanceFuturesUsd, .publicTrades => some ⟨.binanceFuturesUsd, .publicTrades, .trades⟩     -- :187-206
  | .binanceFuturesUsd, .orderBooksL1 => some ⟨.binanceFuturesUsd, .orderBooksL1, .l1s⟩        -- :207-226
  | .binanceFuturesUsd, .orderBooksL2 => some ⟨.binanceFuturesUsd, .orderBooksL2, .l2s⟩        -- :227-246
  | .binanceFuturesUsd, .liquidations => some ⟨.binanceFuturesUsd, .liquidations, .liquidations⟩ -- :247-266
  | .bitfinex, .publicTrades => some ⟨.bitfinex, .publicTrades, .trades⟩                       -- :267-286
  | .bitmex, .publicTrades => some ⟨.bitmex, .publicTrades, .trades⟩                           -- :287-306
  | .bybitSpot, .publicTrades => some ⟨.bybitSpot, .publicTrades, .trades⟩                     -- :307-326
  | .bybitPerpetualsUsd, .publicTrades => some ⟨.bybitPerpetualsUsd, .publicTrades, .trades⟩   -- :327-346
  | .coinbase, .publicTrades => some ⟨.coinbase, .publicTrades, .trades⟩                       -- :347-366
  | .gateioSpot, .publicTrades => some ⟨.gateioSpot, .publicTrades, .trades⟩                   -- :367-386
  | .gateioFuturesUsd, .publicTrades => some ⟨.gateioFuturesUsd, .publicTrades, .trades⟩       -- :387-406
  | .gateioFuturesBtc, .publicTrades => some ⟨.gateioFuturesBtc, .publicTrades, .trades⟩       -- :407-426
  | .gateioPerpetualsUsd, .publicTrades => some ⟨.gateioPerpetualsUsd, .publicTrades, .trades⟩ -- :427-446
  | .gateioPerpetualsBtc, .publicTrades => some ⟨.gateioPerpetualsBtc, .publicTrades, .trades⟩ -- :447-466
  | .gateioOptions, .publicTrades => some ⟨.gateioOptions, .publicTrades, .trades⟩             -- :467-486
  | .kraken, .publicTrades => some ⟨.kraken, .publicTrades, .trades⟩                           -- :487-506
  | .kraken, .orderBooksL1 => some ⟨.kraken, .orderBooksL1, .l1s⟩                              -- :507-526
  | .okx, .publicTrades => some ⟨.okx, .publicTrades, .trades⟩                                 -- :527-542
  | _, _ => none                                                                               -- :543-545

/-- A table of arm bodies: `armBody` is the repository's. The theorems are stated over a table with the
hypothesis `TableOk` — which only `armBody` satisfies (`Props.C13D.tableOk_unique`): the hypothesis names what the
proofs use — and name a concrete violation for two tables that do not. -/
abbrev Table := ExchangeId → SubKind → Option Body

/-- What makes a table of arm bodies right: an arm exists exactly under the patterns C13V reads from the source
(`hasArm`), constructs the connector whose `Connector::ID` is the pattern's exchange and the kind type of the
pattern's `SubKind`, and forwards into the family `Channels::try_from` created for that kind. -/
structure TableOk (tbl : Table) : Prop where
  arm_iff : ∀ e k, (tbl e k).isSome = hasArm e k
  own_id : ∀ e k b, tbl e k = some b → connId b.conn = e
  own_kind : ∀ e k b, tbl e k = some b → b.kind = k
  own_chan : ∀ e k b, tbl e k = some b → route k = some b.chan

/-! ## One call of `init_market_stream` -/

variable {ι : Type}

/-- `init_market_stream::<Connector, Instrument, Kind>(policy, subscriptions)` as one arm calls it: the
subscriptions are `Subscription<Connector, Instrument, Kind>` values that differ only in the instrument. -/
structure Call (ι : Type) where
  policy : Policy
  conn : Exch
  kind : SubKind
  chan : Chan
  instruments : List ι
  deriving DecidableEq, Repr

/-- `Exchange::ID` of the connector type: what `init_market_stream` logs as `exchange` (consumer.rs:56), what
`with_reconnection_events` stamps on every `Reconnecting` notice (:79) and what the transformers stamp on
every `MarketEvent` (C13). -/
def Call.id (c : Call ι) : ExchangeId := connId c.conn

/-- `Exchange::url()` (subscriber/mod.rs:72) = the URL dialled. -/
def Call.url (c : Call ι) : Str := BarterModel.SubRequests.urlParsed c.conn

/-- `StreamKey::new("market_stream", exchange, Some(sub.kind.as_str()))` through its `Debug`
(consumer.rs:59-62, 97-104): `market_stream-<ExchangeId>-<kind>`. -/
def Call.streamKey (c : Call ι) : Str :=
  "market_stream-".toList ++ c.id.display ++ '-' :: c.kind.asStr

/-- `display_subscriptions_without_exchange` on `Subscription<Connector, Instrument, Kind>` values
(subscription/mod.rs:49-67): the kind TYPE displays as its `as_str`. -/
def Call.display (disp : ι → Str) (c : Call ι) : Str :=
  ",".toList.intercalate (c.instruments.map fun i => '(' :: disp i ++ ", ".toList ++ c.kind.asStr ++ [')'])

/-- The subscriptions a call initialises, as `(Connector::ID, instrument, kind)`: comparable with what the
caller asked for. -/
def Call.initialised (c : Call ι) : List (Subscr ι) := c.instruments.map fun i => ⟨c.id, i, c.kind⟩

/-- The call the body `b` makes for the group `g`: `STREAM_RECONNECTION_POLICY`, and
`subs.into_iter().map(|sub| Subscription::new(<Connector>, sub.instrument, <Kind>)).collect()` keeps the
instruments in group order. -/
def callOf (b : Body) (g : (ExchangeId × SubKind) × List (Subscr ι)) : Call ι :=
  ⟨BarterModel.MarketStreamInit.streamReconnectionPolicy, b.conn, b.kind, b.chan, g.2.map (·.instrument)⟩

/-- One arm: the body table decides which call is made; an empty group would stop in `init_market_stream`
(consumer.rs:58-62). -/
def runArm (tbl : Table) (g : (ExchangeId × SubKind) × List (Subscr ι)) : Except (InitErr ι) (Call ι) :=
  match tbl g.1.1 g.1.2 with
  | none => .error (.unsupported g.1.1 g.1.2)
  | some b => if g.2.isEmpty then .error .subscriptionsEmpty else .ok (callOf b g)

/-- The call of the arm a group reaches, where the arm exists. (The `getD default` is never taken for a group
of validated batches under the right table: `Props.C13D.arm_lookup_never_defaults`; likewise the two error
paths of `runArm` are dead there: `Props.C13D.only_validation_errors`.) -/
def armCall (tbl : Table) (g : (ExchangeId × SubKind) × List (Subscr ι)) : Call ι :=
  callOf ((tbl g.1.1 g.1.2).getD default) g

/-- The call as a connection value of the C13V model (`Subscribe.Conn`). -/
def Call.toConn (c : Call ι) : Conn ι := ⟨c.id, c.kind, c.chan, c.instruments⟩

/-- `try_join_all` over the arm futures of all batches, first poll: every future is polled in order (batch by
batch, group by group); one that fails without awaiting (no arm, empty group) ends the poll — the calls before
it have been made, the futures after it are never polled. -/
def runArms (tbl : Table) : List ((ExchangeId × SubKind) × List (Subscr ι)) → List (Call ι) × Option (InitErr ι)
  | [] => ([], none)
  | g :: t =>
    match runArm tbl g with
    | .error e => ([], some e)
    | .ok c => ((runArms tbl t).1.cons c, (runArms tbl t).2)

/-- What `DynamicStreams::init` returns (no network). -/
inductive Outcome (ι : Type) where
  /-- `Ok(DynamicStreams)`: only without any connection to open; the channel owners -/
  | ok (chans : Chans)
  /-- every arm future is pending on its connection attempt, which fails: `Err(DataError::Socket(..))` -/
  | network
  | error (e : InitErr ι)
  deriving DecidableEq, Repr

structure Run (ι : Type) where
  /-- the `init_market_stream` calls made, in order -/
  calls : List (Call ι)
  outcome : Outcome ι
  deriving DecidableEq, Repr

/-- `DynamicStreams::init` (dynamic/mod.rs:75-581) with the arm bodies `tbl`, offline. -/
def init [DecidableEq ι] (tbl : Table) (ops : InstOps ι) (usort : List (Subscr ι) → List (Subscr ι))
    (batches : List (List (Subscr ι))) : Run ι :=
  match validateBatches ops batches with
  | .error s => ⟨[], .error (.validation s)⟩
  | .ok vs =>
    match channels vs with
    | .error k => ⟨[], .error (.unsupportedSubKind k)⟩
    | .ok chans =>
      match runArms tbl (vs.flatMap (groups usort)) with
      | (cs, some e) => ⟨cs, .error e⟩
      | ([], none) => ⟨[], .ok chans⟩
      | (cs, none) => ⟨cs, .network⟩

/-- Everything a run initialised. -/
def Run.initialised (r : Run ι) : List (Subscr ι) := r.calls.flatMap Call.initialised

/-! ## Abstract specification -/

/-- The distinct elements of a list, first occurrences kept ("the subscriptions of the batch", a set). -/
def nub [DecidableEq ι] : List (Subscr ι) → List (Subscr ι)
  | [] => []
  | a :: t => a :: (nub t).filter (· ≠ a)

/-- What the property demands of `DynamicStreams::init` on `batches`, given which subscriptions are supported
(`ok`: the documented table):

* if every subscription of every batch is supported, then every subscription of a batch is initialised — under
  the connector whose id is its own exchange id, with its own kind and its own instrument — exactly once per
  batch that holds it, and nothing else is initialised (`Perm`: equality of multisets);
* otherwise the call fails with the error naming a rejected subscription and NOTHING is initialised. -/
def Spec [DecidableEq ι] (ok : Subscr ι → Bool) (batches : List (List (Subscr ι))) (r : Run ι) : Prop :=
  if batches.all (fun b => b.all ok) then
    r.initialised.Perm (batches.flatMap nub) ∧ ∀ e, r.outcome ≠ .error e
  else
    r.calls = [] ∧ ∃ s, r.outcome = .error (.validation s) ∧ ok s = false ∧ ∃ b ∈ batches, s ∈ b

/-- executable form for the oracle: the multiset of subscriptions that must be initialised, ascending -/
def specInitialised [DecidableEq ι] (ops : InstOps ι) (batches : List (List (Subscr ι))) : List (Subscr ι) :=
  (batches.flatMap (specSet ops)).mergeSort (BarterModel.Index.leKey (Subscr.sortKey ops))

/-- "If the batch contains more-than-one ExchangeId and/or SubKind, it will be further split": the number of
connections a batch opens. -/
def specCalls [DecidableEq ι] (ops : InstOps ι) (batches : List (List (Subscr ι))) : Nat :=
  (batches.map fun b => (specGroups ops b).length).sum

end BarterModel.DynamicInit
