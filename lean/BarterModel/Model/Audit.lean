import BarterModel.Model.Engine
/-
Model of the audit stream and of the state replica (C10):
  `Auditor::audit` / `audit_snapshot` (sequence.fetch_add)   barter/src/engine/audit/mod.rs:37-69
  `process_with_audit`                                        barter/src/engine/mod.rs:81-90
  `sync_run_with_audit` / `async_run_with_audit`              barter/src/engine/run.rs:58-100,150-195
  `StateReplicaManager::{run, validate_and_update_context, update_from_event}`
                                                              barter/src/engine/audit/state_replica.rs:52-150
The engine state is `Engine.Eng` (Model/Engine.lean): trading state, per-instrument orders /
position / price. Connectivity, balances, market-data registers and tear sheets are updated by
the very same `EngineState::update_from_{account,market}` calls on both sides; they are covered by
their own models (C14, C09, C16, C18) and compared directly on the real engine / real replica by
the correspondence harness.
-/
namespace BarterModel.Audit
open BarterModel.Engine BarterModel.Orders

/-- strategy / risk answers for one tick -/
structure Ask where
  algoC : List CancelReq
  algoO : List OpenReq
  refuse : Key → Bool

/-- `Engine` + `EngineMeta.sequence`. -/
structure EngA where
  eng : Eng
  seq : Nat

/-- One record of the audit stream. -/
inductive Tick where
  /-- `AuditTick { event: EngineAudit::Process(..), context.sequence }` -/
  | process (seq : Nat) (ev : Event) (audit : Engine.Audit)
  /-- `AuditTick { event: EngineAudit::FeedEnded, .. }` -/
  | feedEnded (seq : Nat)

def Tick.seq : Tick → Nat
  | .process s _ _ => s
  | .feedEnded s => s

/-- `Terminal for EngineAudit`: FeedEnded, a Shutdown event, or unrecoverable errors. -/
def Tick.terminal : Tick → Bool
  | .feedEnded _ => true
  | .process _ ev a => (match ev with | .shutdown => true | _ => false) || a.fatal

/-- `process_with_audit`: process, then `audit` stamps the record with `sequence.fetch_add()`. -/
def processWithAudit (s : EngA) (ev : Event) (ask : Ask) : EngA × Tick :=
  let r := process s.eng ev ask.algoC ask.algoO ask.refuse
  (⟨r.1, s.seq + 1⟩, .process s.seq ev r.2)

/-- `sync_run_with_audit` / `async_run_with_audit`: every record is sent, including the terminal one;
nothing is processed after a terminal record; an exhausted feed yields a `FeedEnded` record. -/
def runWithAudit (s : EngA) : List (Event × Ask) → EngA × List Tick
  | [] => (⟨s.eng, s.seq + 1⟩, [.feedEnded s.seq])
  | (ev, ask) :: rest =>
    let r := processWithAudit s ev ask
    if r.2.terminal then (r.1, [r.2])
    else
      let r' := runWithAudit r.1 rest
      (r'.1, r.2 :: r'.2)

/-- `StateReplicaManager::update_from_event` on the replica's `EngineState`. Commands and shutdown
change nothing; the trading state is updated without invoking `on_trading_disabled`. -/
def replicaApply (r : Eng) : Event → Eng
  | .shutdown => r
  | .command _ => r
  | .tradingState on => { r with enabled := on }
  | .update u => applyUpdate r u

/-- The replica: an engine state and the sequence of the last applied record. -/
structure Replica where
  state : Eng
  seq : Nat

inductive StepResult where
  | applied (r : Replica) (stop : Bool)
  | skipped
  | error
  | ended

/-- One iteration of `StateReplicaManager::run` (state_replica.rs:69-94). -/
def Replica.step (r : Replica) : Tick → StepResult
  | .feedEnded _ => .ended
  | .process seq ev a =>
    if r.seq ≥ seq then .skipped
    else if r.seq + 1 ≠ seq then .error
    else .applied ⟨replicaApply r.state ev, seq⟩ ((Tick.process seq ev a).terminal)

/-- `StateReplicaManager::run` over a finite record list: `Except.error` on an out-of-order stream. -/
def Replica.run (r : Replica) : List Tick → Except Unit Replica
  | [] => .ok r
  | t :: ts =>
    match r.step t with
    | .ended => .ok r
    | .skipped => r.run ts
    | .error => .error ()
    | .applied r' stop => if stop then .ok r' else r'.run ts

/-- setting in-flight request markers aside -/
def strip : Option Active → Option Active
  | some (.opn o) => some (.opn o)
  | some (.cancelInFlight (some o)) => some (.opn o)
  | _ => none

/-- order snapshots an exchange produces for the replica hypothesis: open or inactive only -/
def Op.exchangeReport : Op → Bool
  | .snapshot s => match s.state with
    | .active (.opn _) => true
    | .inactive _ => true
    | _ => false
  | .cancelResp _ _ => true
  | _ => false

/-- the state an event's updates are applied to before any request is generated -/
def preState (e : Eng) : Event → Eng
  | .update u => applyUpdate e u
  | _ => e

/-- every open request reported sent by this tick -/
def sentOpens (a : Engine.Audit) : List OpenReq :=
  (match a.commanded with | some c => c.opens.sent | none => []) ++
  (match a.generated with | some g => g.opens.sent | none => [])

def sentCancels (a : Engine.Audit) : List CancelReq :=
  (match a.commanded with | some c => c.cancels.sent | none => []) ++
  (match a.generated with | some g => g.cancels.sent | none => [])

end BarterModel.Audit
