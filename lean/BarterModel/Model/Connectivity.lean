/-
Model of `barter/src/engine/state/connectivity/mod.rs` (ConnectivityStates) and of the engine
entry points that drive it (`barter/src/engine/mod.rs:263-315`, `state/mod.rs:101-189`).

Exchanges are identified with their position in `ConnectivityStates.exchanges` (an `IndexMap`
built from the distinct exchange ids of `IndexedInstruments`, C11), so `ExchangeId` lookups
(`connectivity_mut`) and `ExchangeIndex` lookups (`connectivity_index_mut`) are both `List.set`
at a position. Out-of-range lookups panic in the code; here they leave the list unchanged and
every theorem carries the guard `e < n`.
-/
namespace BarterModel.Conn

inductive Health where
  | healthy
  | reconnecting
  deriving DecidableEq, Repr, Inhabited

/-- `ConnectivityState` (connectivity/mod.rs:171-185). -/
structure CState where
  marketData : Health
  account : Health
  deriving DecidableEq, Repr, Inhabited

def CState.allHealthy (c : CState) : Bool :=
  c.marketData == .healthy && c.account == .healthy

/-- `ConnectivityStates` (connectivity/mod.rs:11-21). -/
structure States where
  global : Health
  exchanges : List CState
  deriving DecidableEq, Repr, Inhabited

/-- `generate_empty_indexed_connectivity_states` (connectivity/mod.rs:196-210). -/
def States.init (n : Nat) : States :=
  { global := .reconnecting, exchanges := List.replicate n ⟨.reconnecting, .reconnecting⟩ }

def States.allHealthy (s : States) : Bool := s.exchanges.all CState.allHealthy

def modify (l : List CState) (e : Nat) (f : CState → CState) : List CState :=
  match l[e]? with
  | some c => l.set e (f c)
  | none => l

/-- `update_from_account_reconnecting` (connectivity/mod.rs:28-32). -/
def States.accountReconnecting (s : States) (e : Nat) : States :=
  { global := .reconnecting,
    exchanges := modify s.exchanges e (fun c => { c with account := .reconnecting }) }

/-- `update_from_market_reconnecting` (connectivity/mod.rs:65-69). -/
def States.marketReconnecting (s : States) (e : Nat) : States :=
  { global := .reconnecting,
    exchanges := modify s.exchanges e (fun c => { c with marketData := .reconnecting }) }

/-- `update_from_account_event` (connectivity/mod.rs:39-59). -/
def States.accountEvent (s : States) (e : Nat) : States :=
  if s.global == .healthy then s else
  match s.exchanges[e]? with
  | none => s
  | some c =>
    if c.account == .healthy then s else
    let ex := s.exchanges.set e { c with account := .healthy }
    if ex.all CState.allHealthy then { global := .healthy, exchanges := ex }
    else { global := s.global, exchanges := ex }

/-- `update_from_market_event` (connectivity/mod.rs:76-96). -/
def States.marketEvent (s : States) (e : Nat) : States :=
  if s.global == .healthy then s else
  match s.exchanges[e]? with
  | none => s
  | some c =>
    if c.marketData == .healthy then s else
    let ex := s.exchanges.set e { c with marketData := .healthy }
    if ex.all CState.allHealthy then { global := .healthy, exchanges := ex }
    else { global := s.global, exchanges := ex }

/-- The four connectivity-relevant engine inputs (`EngineEvent::{Market,Account}` ×
`{Item,Reconnecting}`), each tagged with the exchange it concerns. -/
inductive Ev where
  | marketItem (e : Nat)
  | accountItem (e : Nat)
  | marketReconnecting (e : Nat)
  | accountReconnecting (e : Nat)
  deriving DecidableEq, Repr

def Ev.exchange : Ev → Nat
  | .marketItem e | .accountItem e | .marketReconnecting e | .accountReconnecting e => e

/-- Engine-level state: connectivity plus the log of `OnDisconnectStrategy::on_disconnect`
invocations (exchange argument of each call, oldest first). -/
structure Eng where
  conn : States
  disconnects : List Nat
  deriving DecidableEq, Repr

def Eng.init (n : Nat) : Eng := { conn := States.init n, disconnects := [] }

/-- `Engine::update_from_market_stream` / `update_from_account_stream` (engine/mod.rs:263-315)
followed by `EngineState::update_from_{market,account}` first statement (state/mod.rs:111,186). -/
def Eng.step (s : Eng) : Ev → Eng
  | .marketItem e => { s with conn := s.conn.marketEvent e }
  | .accountItem e => { s with conn := s.conn.accountEvent e }
  | .marketReconnecting e =>
    { conn := s.conn.marketReconnecting e, disconnects := s.disconnects ++ [e] }
  | .accountReconnecting e =>
    { conn := s.conn.accountReconnecting e, disconnects := s.disconnects ++ [e] }

def Eng.run (s : Eng) (evs : List Ev) : Eng := evs.foldl Eng.step s

/-- Abstract specification used by the oracle: per-exchange link health is a pure function of the
history (last thing seen on that link), global health is the conjunction, and the disconnect log
is the list of notices. Written without reference to the code's early returns. -/
def specLinkFrom (h0 : Health) (isNotice isItem : Ev → Bool) (evs : List Ev) : Health :=
  evs.foldl (fun h ev => if isItem ev then .healthy else if isNotice ev then .reconnecting else h) h0

def specLink (isNotice isItem : Ev → Bool) (evs : List Ev) : Health :=
  specLinkFrom .reconnecting isNotice isItem evs

def specMarket (e : Nat) (evs : List Ev) : Health :=
  specLink (· == .marketReconnecting e) (· == .marketItem e) evs

def specAccount (e : Nat) (evs : List Ev) : Health :=
  specLink (· == .accountReconnecting e) (· == .accountItem e) evs

def specGlobal (n : Nat) (evs : List Ev) : Health :=
  if (List.range n).all (fun e => specMarket e evs == .healthy && specAccount e evs == .healthy)
  then .healthy else .reconnecting

def specDisconnects (evs : List Ev) : List Nat :=
  evs.filterMap (fun
    | .marketReconnecting e => some e
    | .accountReconnecting e => some e
    | _ => none)

end BarterModel.Conn
