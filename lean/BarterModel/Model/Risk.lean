/-
Model of `barter/src/risk/mod.rs` (RiskApproved, RiskRefused, DefaultRiskManager) and of
`barter/src/risk/check/mod.rs` (RiskCheck, CheckHigherThan, CheckFailHigherThan) and
`barter/src/risk/check/util.rs` (calculate_quote_notional, calculate_abs_percent_difference,
calculate_delta), plus `InstrumentKind::contract_size`
(`barter-instrument/src/instrument/kind/mod.rs:33-40`), the documented source of the
`contract_size` argument.

Conventions
* `Decimal` is `Rat`. Two models of its arithmetic live side by side:
  (1) the `fits`-parametric one (`checkedMul fits` …): every checked operation returns the EXACT
  result or `none`, decided by a representability predicate `fits : Rat → Bool` applied to the exact
  result (`decFits`: |r| ≤ 2^96 − 1). `fits` decides only overflow of the exact result; this model is
  the real `Decimal` only where no operation rounds (every intermediate result `decExact`, below).
  (2) `decMul` (last section): `rust_decimal`'s multiplication with its rounding — exact when the
  exact product is a `Decimal` (`decExact`), otherwise the product rounded half-to-even to the
  largest scale ≤ 28 whose mantissa fits 96 bits, `none` when not even scale 0 fits. The driver
  runs `notionalDec` / `deltaDec`, which are `calculate_quote_notional` / `calculate_delta` over
  `decMul`. Rounding of `checked_sub` / `checked_div` (percentage difference) is not modelled.
* `f64` of `CheckHigherThan<f64>` is `F64`: NaN, ±∞ and the finite values as exact rationals (−0.0 is
  the rational 0: `<=` does not distinguish the two zeros).
* `PartialOrd::le` of the generic `CheckHigherThan<T>` is the parameter `le : α → α → Bool`, so the
  theorems cover total orders (`Decimal`, integers) and partial ones (`f64` with NaN, `F64` below).
* A panic of the code (`Decimal`'s unchecked `*` overflows in `calculate_delta`) is `none` of
  `calculateDelta`.
* The generic `State` of `DefaultRiskManager<State>` and the request types are type parameters.

The second half is the abstract specification, written from the doc comments, not from the code.
-/
namespace BarterModel.Risk

/-! ## `barter/src/risk/mod.rs` -/

/-- `RiskApproved<T>(pub T)` (risk/mod.rs:41-56). -/
structure RiskApproved (α : Type) where
  item : α
  deriving DecidableEq, Repr

/-- derive `Constructor` (risk/mod.rs:54). -/
def RiskApproved.new {α : Type} (a : α) : RiskApproved α := ⟨a⟩

/-- `RiskApproved::into_item` (risk/mod.rs:58-62). -/
def RiskApproved.intoItem {α : Type} (r : RiskApproved α) : α := r.item

/-- `RiskRefused<T, Reason>` (risk/mod.rs:64-70). -/
structure RiskRefused (α ρ : Type) where
  item : α
  reason : ρ
  deriving DecidableEq, Repr

/-- `RiskRefused::new` (risk/mod.rs:72-79); `reason.into()` is the identity on the model's reason. -/
def RiskRefused.new {α ρ : Type} (a : α) (reason : ρ) : RiskRefused α ρ := ⟨a, reason⟩

/-- `RiskRefused::into_item` (risk/mod.rs:81-85). -/
def RiskRefused.intoItem {α ρ : Type} (r : RiskRefused α ρ) : α := r.item

/-- `impl Unrecoverable for RiskRefused` (risk/mod.rs:87-94): delegates to the reason;
`unrec` is the reason type's `Unrecoverable::is_unrecoverable`. -/
def RiskRefused.isUnrecoverable {α ρ : Type} (unrec : ρ → Bool) (r : RiskRefused α ρ) : Bool :=
  unrec r.reason

/-- The two `EngineError` classes (`barter/src/engine/error.rs:11-18`), the one `Reason` type of the
crate that implements `Unrecoverable`. -/
inductive EngineErrorKind where
  | recoverable
  | unrecoverable
  deriving DecidableEq, Repr

/-- `impl Unrecoverable for EngineError` (engine/error.rs:45-49). -/
def EngineErrorKind.isUnrecoverable : EngineErrorKind → Bool
  | .recoverable => false
  | .unrecoverable => true

/-- The four iterators returned by `RiskManager::check` (risk/mod.rs:27-38). -/
structure CheckOut (κ ο ρ : Type) where
  approvedCancels : List (RiskApproved κ)
  approvedOpens : List (RiskApproved ο)
  refusedCancels : List (RiskRefused κ ρ)
  refusedOpens : List (RiskRefused ο ρ)
  deriving Repr

/-- `DefaultRiskManager::check` (risk/mod.rs:113-134): `cancels.map(RiskApproved::new)`,
`opens.map(RiskApproved::new)`, two empty iterators; the state is ignored. -/
def DefaultRiskManager.check {σ κ ο ρ : Type} (_state : σ) (cancels : List κ) (opens : List ο) :
    CheckOut κ ο ρ :=
  { approvedCancels := cancels.map RiskApproved.new,
    approvedOpens := opens.map RiskApproved.new,
    refusedCancels := [],
    refusedOpens := [] }

/-! ## `barter/src/risk/check/mod.rs` -/

/-- `CheckHigherThan<T> { limit }` (check/mod.rs:27-32). -/
structure CheckHigherThan (α : Type) where
  limit : α
  deriving DecidableEq, Repr

/-- `CheckFailHigherThan<T> { limit, input }` (check/mod.rs:57-69). -/
structure CheckFailHigherThan (α : Type) where
  limit : α
  input : α
  deriving DecidableEq, Repr

/-- `RiskCheck::name` of `CheckHigherThan` (check/mod.rs:41-43). -/
def CheckHigherThan.name : String := "CheckHigherThan"

/-- `RiskCheck::check` of `CheckHigherThan` (check/mod.rs:45-54): `if *input <= self.limit`;
`le` is `PartialOrd::le` of `T`. -/
def CheckHigherThan.check {α : Type} (le : α → α → Bool) (c : CheckHigherThan α) (input : α) :
    Except (CheckFailHigherThan α) Unit :=
  if le input c.limit then .ok () else .error { limit := c.limit, input := input }

/-- `#[error("CheckHigherThanFailed: input {input} > limit {limit}")]` (check/mod.rs:61);
`disp` is `Display` of `T`. -/
def CheckFailHigherThan.message {α : Type} (disp : α → String) (e : CheckFailHigherThan α) : String :=
  "CheckHigherThanFailed: input " ++ disp e.input ++ " > limit " ++ disp e.limit

/-- `Decimal`'s / `i64`'s total `<=`. -/
def leRat (a b : Rat) : Bool := decide (a ≤ b)
def leInt (a b : Int) : Bool := decide (a ≤ b)

/-- A partially ordered `T`: `f64` as NaN, the two infinities and the finite values (as exact
rationals; −0.0 and 0.0 are both `val 0`, `<=` does not distinguish them). -/
inductive F64 where
  | nan
  | val (r : Rat)
  | pinf
  | ninf
  deriving DecidableEq, Repr

/-- `f64`'s `PartialOrd::le`: false as soon as one side is NaN; −∞ is below and +∞ above everything
else (and `x <= x` for the infinities). -/
def F64.le : F64 → F64 → Bool
  | .nan, _ => false
  | _, .nan => false
  | .ninf, _ => true
  | _, .pinf => true
  | .val a, .val b => decide (a ≤ b)
  | _, _ => false

/-! ## `barter/src/risk/check/util.rs` and `InstrumentKind::contract_size` -/

/-- Largest `Decimal`: 2^96 − 1. -/
def decMax : Rat := 79228162514264337593543950335

/-- Magnitude within the range of a `Decimal` (the 96-bit instance of `fits`): decides overflow of an
EXACT result only — not whether the value is a `Decimal` (`decExact`) nor what the code stores when
it is not (`decRound`). -/
def decFits (r : Rat) : Bool := decide (r.abs ≤ decMax)

/-- `Decimal::checked_mul` in exact arithmetic: the exact product, `None` when `fits` rejects it. The
real operation with its rounding is `decMul` (last section); the two agree where the exact product
is a `Decimal` (`Lemmas/Risk.lean: decMul_exact`, `checkedMul_decFits_of_exact`). -/
def checkedMul (fits : Rat → Bool) (a b : Rat) : Option Rat :=
  if fits (a * b) then some (a * b) else none

/-- `Decimal::checked_sub` in exact arithmetic: `None` on overflow of the exact difference (rounding of
a difference of operands with different scales near the 96-bit edge is not modelled). -/
def checkedSub (fits : Rat → Bool) (a b : Rat) : Option Rat :=
  if fits (a - b) then some (a - b) else none

/-- `Decimal::checked_div` in exact arithmetic: `None` on a zero divisor and on overflow of the exact
quotient (the rounding of the quotient to 28 digits is not modelled; compared with a tolerance). -/
def checkedDiv (fits : Rat → Bool) (a b : Rat) : Option Rat :=
  if b = 0 then none else if fits (a / b) then some (a / b) else none

/-- `calculate_quote_notional` (util.rs:16-22): `quantity.checked_mul(price)?.checked_mul(contract_size)`,
in exact arithmetic (over the real multiplication: `notionalDec`). -/
def calculateQuoteNotional (fits : Rat → Bool) (quantity price contractSize : Rat) : Option Rat :=
  (checkedMul fits quantity price).bind fun qp => checkedMul fits qp contractSize

/-- `calculate_abs_percent_difference` (util.rs:28-34):
`current.checked_sub(other)?.abs().checked_div(other)`. -/
def calculateAbsPercentDifference (fits : Rat → Bool) (current other : Rat) : Option Rat :=
  (checkedSub fits current other).bind fun d => checkedDiv fits d.abs other

/-- `barter_instrument::Side`. -/
inductive Side where
  | buy
  | sell
  deriving DecidableEq, Repr

/-- `calculate_delta` (util.rs:50-62): `instrument_delta * (quantity_in_kind * contract_size)`,
negated for `Side::Sell`. `none` = the unchecked `Decimal` multiplication panicked. Exact arithmetic
(over the real multiplication: `deltaDec`). -/
def calculateDelta (fits : Rat → Bool) (instrumentDelta contractSize : Rat) (side : Side)
    (quantityInKind : Rat) : Option Rat :=
  (checkedMul fits quantityInKind contractSize).bind fun exposure =>
    (checkedMul fits instrumentDelta exposure).map fun delta =>
      match side with
      | .buy => delta
      | .sell => -delta

/-- `InstrumentKind` (instrument/kind/mod.rs:20-27) reduced to what `contract_size` reads. -/
inductive Kind where
  | spot
  | perpetual (contractSize : Rat)
  | future (contractSize : Rat)
  | option (contractSize : Rat)
  deriving DecidableEq, Repr

/-- `InstrumentKind::contract_size` (instrument/kind/mod.rs:33-40): `Spot` is always one. -/
def Kind.contractSize : Kind → Rat
  | .spot => 1
  | .perpetual c => c
  | .future c => c
  | .option c => c

/-! ## Abstract specification (from the doc comments)

* `RiskManager` "reviews and optionally filters cancel and open order requests": every request handed
  to `check` comes back in exactly one of the approved / refused outputs (`Conserves`).
* `DefaultRiskManager`: "approving all orders without any risk checks": the approved outputs *are*
  the inputs (same requests, same order, same multiplicity), nothing is refused, whatever the state.
* `CheckHigherThan`: "check passes if input is <= limit"; the failure carries "the limit value that
  was exceeded" and "the input value that caused the check to fail".
* notional: "the total value of a position" = quantity × price × contract size ("multiplier that
  determines the actual exposure per contract"; one for spot), `None` only "if overflow has occurred".
* abs percent difference: |current − other| as a fraction of the reference `other` ("0.05 for a 5%
  difference"): non-negative, zero exactly for equal values.
* delta: instrument delta × contract size × quantity, "positive … long exposure", "negative … short".
-/

/-- What a `RiskManager` may do with the requests: each one ends in exactly one output. -/
def Conserves {κ ο ρ : Type} [DecidableEq κ] [DecidableEq ο] (cancels : List κ) (opens : List ο)
    (out : CheckOut κ ο ρ) : Prop :=
  (∀ x, (out.approvedCancels.map RiskApproved.intoItem).count x
        + (out.refusedCancels.map RiskRefused.intoItem).count x = cancels.count x) ∧
  (∀ x, (out.approvedOpens.map RiskApproved.intoItem).count x
        + (out.refusedOpens.map RiskRefused.intoItem).count x = opens.count x)

/-- "Approves all orders": what comes out, as plain request lists (approved cancels, approved opens,
refused cancels, refused opens). -/
def specApproveAll {κ ο : Type} (cancels : List κ) (opens : List ο) :
    List κ × List ο × List κ × List ο :=
  (cancels, opens, [], [])

/-- The plain request lists of a `check` output. -/
def CheckOut.items {κ ο ρ : Type} (out : CheckOut κ ο ρ) : List κ × List ο × List κ × List ο :=
  (out.approvedCancels.map RiskApproved.intoItem, out.approvedOpens.map RiskApproved.intoItem,
   out.refusedCancels.map RiskRefused.intoItem, out.refusedOpens.map RiskRefused.intoItem)

/-- "check passes if input is <= limit" for `Decimal`. -/
def specPasses (limit input : Rat) : Prop := input ≤ limit

/-- The documented outcome of a `CheckHigherThan<Decimal>`. -/
def specCheck (limit input : Rat) : Except (CheckFailHigherThan Rat) Unit :=
  if input ≤ limit then .ok () else .error ⟨limit, input⟩

/-- Position of a non-NaN `f64` on the extended real line: (−1, _) for −∞, (0, r) for a finite `r`,
(1, _) for +∞; `none` for NaN. -/
def F64.ext : F64 → Option (Int × Rat)
  | .nan => none
  | .ninf => some (-1, 0)
  | .val r => some (0, r)
  | .pinf => some (1, 0)

/-- The documented outcome over `f64` ("passes if input <= limit" on the extended real line): NaN is
never `<=` anything and nothing is `<=` NaN. -/
def specCheckF64 (limit input : F64) : Except (CheckFailHigherThan F64) Unit :=
  match limit.ext, input.ext with
  | some (kl, l), some (ki, i) =>
    if ki < kl ∨ (ki = kl ∧ i ≤ l) then .ok () else .error ⟨limit, input⟩
  | _, _ => .error ⟨limit, input⟩

/-- Notional value in quote: quantity × price × contract size. -/
def specNotional (quantity price contractSize : Rat) : Rat := quantity * price * contractSize

/-- Notional of a position in an instrument of the given kind (spot has no multiplier). -/
def specNotionalKind (k : Kind) (quantity price : Rat) : Rat :=
  match k with
  | .spot => quantity * price
  | .perpetual c => quantity * price * c
  | .future c => quantity * price * c
  | .option c => quantity * price * c

/-- The answers the documentation allows for the notional: the exact value, or `None` but only when
an overflow occurred (`ovf`). -/
def NotionalOk (ovf : Bool) (exact : Rat) (r : Option Rat) : Prop :=
  r = some exact ∨ (r = none ∧ ovf = true)

/-- |current − other| relative to the magnitude of the reference value. -/
def specAbsPercentDifference (current other : Rat) : Rat := (current - other).abs / other.abs

/-- Total delta: +δ·size·quantity when long (buy), −δ·size·quantity when short (sell). -/
def specDelta (instrumentDelta contractSize : Rat) (side : Side) (quantityInKind : Rat) : Rat :=
  match side with
  | .buy => instrumentDelta * contractSize * quantityInKind
  | .sell => -(instrumentDelta * contractSize * quantityInKind)

/-! ## `rust_decimal`'s multiplication with its rounding (`ops/mul.rs`, `ops/common.rs: Buf24::rescale`)

A `Decimal` is `± mantissa / 10^scale` with `mantissa < 2^96` and `scale ≤ 28`. `checked_mul`
(and the unchecked `*`, which panics where `checked_mul` is `None`) multiplies the mantissas (up to
192 bits), adds the scales and then, if the mantissa exceeds 96 bits or the scale exceeds 28, divides
by powers of ten — as few as needed —, rounding the last division half-to-even (sticky remainder),
and reports overflow when the scale is exhausted first. As a function of the exact product `x`:
the stored value is `rne(|x|·10^e) / 10^e` at the LARGEST `e ≤ 28` with `rne(|x|·10^e) < 2^96`, and
`None` if there is no such `e ≥ 0` (`decRound`). On the exactly representable products
(`decExact`) it is the exact product. Validated against the real `Decimal` on the harness (edge
generator of `harness/src/bin/c03r.rs`, `corpus/C03R/edge.ops`). -/

/-- Largest mantissa of a `Decimal`: 2^96 − 1 (= `decMax` as a natural number). -/
def decMantMax : Nat := 79228162514264337593543950335

/-- `n / d` rounded to the nearest integer, ties to the even one (`d > 0`). -/
def rneDiv (n d : Nat) : Nat :=
  if 2 * (n % d) < d then n / d
  else if d < 2 * (n % d) then n / d + 1
  else if (n / d) % 2 = 0 then n / d else n / d + 1

/-- The mantissa of `|x|` at scale `e`, rounded half-to-even: `rne(|x|·10^e)`. -/
def mantAt (x : Rat) (e : Nat) : Nat := rneDiv (x.num.natAbs * 10 ^ e) x.den

/-- `x` is a `Decimal` of scale `e`: `|x|·10^e` is an integer below 2^96. -/
def exactAt (x : Rat) (e : Nat) : Bool :=
  (x.num.natAbs * 10 ^ e) % x.den == 0 && decide (x.num.natAbs * 10 ^ e / x.den ≤ decMantMax)

/-- `x` is exactly representable as a `Decimal`: `x = m / 10^e` for an integer `|m| < 2^96` and a
scale `e ≤ 28` (`Lemmas/Risk.lean: decExact_iff`). -/
def decExact (x : Rat) : Bool := (List.range 29).any (exactAt x)

/-- The value `± m / 10^e` with the sign of `x`. -/
def decValue (x : Rat) (m e : Nat) : Rat :=
  ((x.num.sign * (m : Int) : Int) : Rat) / (((10 : Int) ^ e : Int) : Rat)

/-- Search for the largest scale `≤ e` at which the rounded mantissa fits 96 bits. -/
def decRoundFrom (x : Rat) : Nat → Option Rat
  | 0 => if mantAt x 0 ≤ decMantMax then some (decValue x (mantAt x 0) 0) else none
  | e + 1 =>
    if mantAt x (e + 1) ≤ decMantMax then some (decValue x (mantAt x (e + 1)) (e + 1))
    else decRoundFrom x e

/-- What `rust_decimal` stores for a multiplication whose exact result is `x`; `none` = overflow. -/
def decRound (x : Rat) : Option Rat := decRoundFrom x 28

/-- `Decimal::checked_mul` (and `*`, with `none` = panic) as the real `rust_decimal` computes it. -/
def decMul (a b : Rat) : Option Rat := decRound (a * b)

/-- `calculate_quote_notional` (util.rs:16-22) over the real multiplication, in the code's order:
`quantity.checked_mul(price)?.checked_mul(contract_size)`. -/
def notionalDec (q p c : Rat) : Option Rat := (decMul q p).bind fun qp => decMul qp c

/-- `calculate_delta` (util.rs:50-62) over the real multiplication, in the code's order:
`instrument_delta * (quantity_in_kind * contract_size)`; `none` = panic. -/
def deltaDec (d cs : Rat) (side : Side) (q : Rat) : Option Rat :=
  (decMul q cs).bind fun exposure =>
    (decMul d exposure).map fun delta =>
      match side with
      | .buy => delta
      | .sell => -delta

end BarterModel.Risk
