import BarterModel.Model.Index
/-
Model of the names and keys of `barter-instrument` and of the error-carrying lookup API of
`IndexedInstruments` (sub-check C11N of C11):

* `asset/name.rs`, `asset/mod.rs`      AssetNameInternal / AssetNameExchange, Asset
* `instrument/name.rs`                 InstrumentNameInternal / InstrumentNameExchange
* `exchange.rs`                        ExchangeId (whole table), ExchangeIndex
* `instrument/market_data/{mod,kind}.rs`  MarketDataInstrument, MarketDataInstrumentKind
* `instrument/mod.rs`, `instrument/kind/mod.rs`  Instrument constructors, key mapping, kind accessors
* `lib.rs`                             Keyed, Underlying, Side
* `index/mod.rs`, `index/error.rs`     the six `find_*` lookups with their `IndexError` values

Strings are `List Char` (`Str`). The *builder* of `IndexedInstruments` is NOT modelled again: it is
`BarterModel.Index.build` (Model/Index.lean, property C11), whose names are naturals; a string name
enters it through the order-preserving, injective name code `code` (strings of at most `L` = 48
Unicode scalar values), so that the `sort()` of the builder sees the order Rust's `str` has.

Unicode: `char::is_lowercase` / `char::to_lowercase` are modelled exactly on ASCII and, as an
ASSUMPTION that the correspondence probes, on the Latin-1 block, Greek U+0391–U+03C9, Cyrillic
U+0400–U+045F and U+0130; every other character is taken to be uncased. `to_lowercase_smolstr` maps
character by character for strings of at most 23 UTF-8 bytes and calls `str::to_lowercase` (which has
the context-sensitive final-sigma rule) for longer ones: only the former is modelled.

Second half of the file: the abstract specification, written from the doc comments.
Core Lean only.
-/
namespace BarterModel.Names
open BarterModel.Index (Keyed Kind Units Spec Indexed)

abbrev Str := List Char

/-! ## Characters -/

/-- `u8::to_ascii_lowercase` on a character. -/
def asciiLower (c : Char) : Char :=
  if 65 ≤ c.toNat ∧ c.toNat ≤ 90 then Char.ofNat (c.toNat + 32) else c

/-- `char::is_lowercase` (Unicode `Lowercase`): exact on ASCII and Latin-1, Greek U+03B1–U+03C9,
Cyrillic U+0430–U+045F; assumed `false` elsewhere. -/
def isLowerC (c : Char) : Bool :=
  let n := c.toNat
  (97 ≤ n ∧ n ≤ 122) ∨ n = 170 ∨ n = 181 ∨ n = 186 ∨ (223 ≤ n ∧ n ≤ 246) ∨ (248 ≤ n ∧ n ≤ 255) ∨
    (945 ≤ n ∧ n ≤ 969) ∨ (1072 ≤ n ∧ n ≤ 1119)

/-- `char::to_lowercase` (an iterator of one to three characters): exact on ASCII and Latin-1,
Greek capitals U+0391–U+03A9, Cyrillic capitals U+0400–U+042F and U+0130 (two characters);
assumed the identity elsewhere. -/
def lowcs (c : Char) : List Char :=
  let n := c.toNat
  if 65 ≤ n ∧ n ≤ 90 then [Char.ofNat (n + 32)]
  else if (192 ≤ n ∧ n ≤ 214) ∨ (216 ≤ n ∧ n ≤ 222) then [Char.ofNat (n + 32)]
  else if n = 304 then ['i', Char.ofNat 775]
  else if (913 ≤ n ∧ n ≤ 929) ∨ (931 ≤ n ∧ n ≤ 937) then [Char.ofNat (n + 32)]
  else if 1024 ≤ n ∧ n ≤ 1039 then [Char.ofNat (n + 80)]
  else if 1040 ≤ n ∧ n ≤ 1071 then [Char.ofNat (n + 32)]
  else [c]

/-- `StrExt::to_lowercase_smolstr` (smol_str 0.3.6 lib.rs:640): ASCII prefix through
`to_ascii_lowercase`, the rest `chars().flat_map(char::to_lowercase)`. -/
def lowerStr (s : Str) : Str := s.flatMap lowcs

/-- The body shared by `AssetNameInternal::new` (asset/name.rs:17-27) and
`InstrumentNameInternal::new` (instrument/name.rs:18-28). -/
def nameNew (s : Str) : Str := if s.all isLowerC then s else lowerStr s

def IsAscii (s : Str) : Prop := ∀ c ∈ s, c.toNat < 128

instance (s : Str) : Decidable (IsAscii s) := by unfold IsAscii; infer_instance

/-! ## The four name types -/

/-- `AssetNameInternal` (asset/name.rs:13). -/
structure AssetNameInternal where
  name : Str
  deriving DecidableEq, Repr

/-- `AssetNameExchange` (asset/name.rs:80). -/
structure AssetNameExchange where
  name : Str
  deriving DecidableEq, Repr

/-- `InstrumentNameInternal` (instrument/name.rs:12). -/
structure InstrumentNameInternal where
  name : Str
  deriving DecidableEq, Repr

/-- `InstrumentNameExchange` (instrument/name.rs:115). -/
structure InstrumentNameExchange where
  name : Str
  deriving DecidableEq, Repr

/-- `AssetNameInternal::new`, and the `From<&str | SmolStr | String>` impls that call it. -/
def AssetNameInternal.new (s : Str) : AssetNameInternal := ⟨nameNew s⟩
/-- `AssetNameExchange::new` (asset/name.rs:84-89): the name as given. -/
def AssetNameExchange.new (s : Str) : AssetNameExchange := ⟨s⟩
/-- `InstrumentNameInternal::new`. -/
def InstrumentNameInternal.new (s : Str) : InstrumentNameInternal := ⟨nameNew s⟩
/-- `InstrumentNameExchange::new` (instrument/name.rs:119-124). -/
def InstrumentNameExchange.new (s : Str) : InstrumentNameExchange := ⟨s⟩

/-- `#[derive(Display)]` on a newtype: the inner string. -/
def AssetNameInternal.display (x : AssetNameInternal) : Str := x.name
def AssetNameExchange.display (x : AssetNameExchange) : Str := x.name
def InstrumentNameInternal.display (x : InstrumentNameInternal) : Str := x.name
def InstrumentNameExchange.display (x : InstrumentNameExchange) : Str := x.name

/-- `#[derive(Serialize)]` on a newtype: the inner string (serde data model `str`). -/
def AssetNameInternal.ser (x : AssetNameInternal) : Str := x.name
def AssetNameExchange.ser (x : AssetNameExchange) : Str := x.name
def InstrumentNameInternal.ser (x : InstrumentNameInternal) : Str := x.name
def InstrumentNameExchange.ser (x : InstrumentNameExchange) : Str := x.name

/-- The hand-written `Deserialize` impls: a string, passed through `new`. -/
def AssetNameInternal.de (s : Str) : AssetNameInternal := .new s
def AssetNameExchange.de (s : Str) : AssetNameExchange := .new s
def InstrumentNameInternal.de (s : Str) : InstrumentNameInternal := .new s
def InstrumentNameExchange.de (s : Str) : InstrumentNameExchange := .new s

/-! ## ExchangeId (exchange.rs:33-76): the whole enum, in declaration order -/

inductive ExchangeId where
  | other | simulated | mock
  | binanceFuturesCoin | binanceFuturesUsd | binanceOptions | binancePortfolioMargin | binanceSpot
  | binanceUs | bitazza | bitfinex | bitflyer | bitget | bitmart | bitmartFuturesUsd | bitmex | bitso
  | bitstamp | bitvavo | bithumb | bybitPerpetualsUsd | bybitSpot | cexio | coinbase
  | coinbaseInternational | cryptocom | deribit | gateioFuturesBtc | gateioFuturesUsd | gateioOptions
  | gateioPerpetualsBtc | gateioPerpetualsUsd | gateioSpot | gemini | hitbtc | htx | kraken | kucoin
  | liquid | mexc | okx | poloniex
  deriving DecidableEq, Repr, Inhabited

open ExchangeId in
/-- Every variant, in declaration order (= the derived `Ord`). -/
def ExchangeId.all : List ExchangeId :=
  [other, simulated, mock, binanceFuturesCoin, binanceFuturesUsd, binanceOptions,
   binancePortfolioMargin, binanceSpot, binanceUs, bitazza, bitfinex, bitflyer, bitget, bitmart,
   bitmartFuturesUsd, bitmex, bitso, bitstamp, bitvavo, bithumb, bybitPerpetualsUsd, bybitSpot, cexio,
   coinbase, coinbaseInternational, cryptocom, deribit, gateioFuturesBtc, gateioFuturesUsd,
   gateioOptions, gateioPerpetualsBtc, gateioPerpetualsUsd, gateioSpot, gemini, hitbtc, htx, kraken,
   kucoin, liquid, mexc, okx, poloniex]

/-- Position in declaration order: the natural under which `Model/Index.lean` sees an exchange. -/
def ExchangeId.toNat (e : ExchangeId) : Nat := ExchangeId.all.idxOf e

def ExchangeId.ofNat? (n : Nat) : Option ExchangeId := ExchangeId.all[n]?

/-- The Rust identifier of the variant (what `#[derive(Debug)]` prints). -/
def ExchangeId.variantName : ExchangeId → Str
  | .other => "Other".toList
  | .simulated => "Simulated".toList
  | .mock => "Mock".toList
  | .binanceFuturesCoin => "BinanceFuturesCoin".toList
  | .binanceFuturesUsd => "BinanceFuturesUsd".toList
  | .binanceOptions => "BinanceOptions".toList
  | .binancePortfolioMargin => "BinancePortfolioMargin".toList
  | .binanceSpot => "BinanceSpot".toList
  | .binanceUs => "BinanceUs".toList
  | .bitazza => "Bitazza".toList
  | .bitfinex => "Bitfinex".toList
  | .bitflyer => "Bitflyer".toList
  | .bitget => "Bitget".toList
  | .bitmart => "Bitmart".toList
  | .bitmartFuturesUsd => "BitmartFuturesUsd".toList
  | .bitmex => "Bitmex".toList
  | .bitso => "Bitso".toList
  | .bitstamp => "Bitstamp".toList
  | .bitvavo => "Bitvavo".toList
  | .bithumb => "Bithumb".toList
  | .bybitPerpetualsUsd => "BybitPerpetualsUsd".toList
  | .bybitSpot => "BybitSpot".toList
  | .cexio => "Cexio".toList
  | .coinbase => "Coinbase".toList
  | .coinbaseInternational => "CoinbaseInternational".toList
  | .cryptocom => "Cryptocom".toList
  | .deribit => "Deribit".toList
  | .gateioFuturesBtc => "GateioFuturesBtc".toList
  | .gateioFuturesUsd => "GateioFuturesUsd".toList
  | .gateioOptions => "GateioOptions".toList
  | .gateioPerpetualsBtc => "GateioPerpetualsBtc".toList
  | .gateioPerpetualsUsd => "GateioPerpetualsUsd".toList
  | .gateioSpot => "GateioSpot".toList
  | .gemini => "Gemini".toList
  | .hitbtc => "Hitbtc".toList
  | .htx => "Htx".toList
  | .kraken => "Kraken".toList
  | .kucoin => "Kucoin".toList
  | .liquid => "Liquid".toList
  | .mexc => "Mexc".toList
  | .okx => "Okx".toList
  | .poloniex => "Poloniex".toList

/-- `ExchangeId::as_str` (exchange.rs:80-125), copied literal by literal. -/
def ExchangeId.asStr : ExchangeId → Str
  | .other => "other".toList
  | .simulated => "simulated".toList
  | .mock => "mock".toList
  | .binanceFuturesCoin => "binance_futures_coin".toList
  | .binanceFuturesUsd => "binance_futures_usd".toList
  | .binanceOptions => "binance_options".toList
  | .binancePortfolioMargin => "binance_portfolio_margin".toList
  | .binanceSpot => "binance_spot".toList
  | .binanceUs => "binance_us".toList
  | .bitazza => "bitazza".toList
  | .bitfinex => "bitfinex".toList
  | .bitflyer => "bitflyer".toList
  | .bitget => "bitget".toList
  | .bitmart => "bitmart".toList
  | .bitmartFuturesUsd => "bitmart_futures_usd".toList
  | .bitmex => "bitmex".toList
  | .bitso => "bitso".toList
  | .bitstamp => "bitstamp".toList
  | .bitvavo => "bitvavo".toList
  | .bithumb => "bithumb".toList
  | .bybitPerpetualsUsd => "bybit_perpetuals_usd".toList
  | .bybitSpot => "bybit_spot".toList
  | .cexio => "cexio".toList
  | .coinbase => "coinbase".toList
  | .coinbaseInternational => "coinbase_international".toList
  | .cryptocom => "cryptocom".toList
  | .deribit => "deribit".toList
  | .gateioFuturesBtc => "gateio_futures_btc".toList
  | .gateioFuturesUsd => "gateio_futures_usd".toList
  | .gateioOptions => "gateio_options".toList
  | .gateioPerpetualsBtc => "gateio_perpetuals_btc".toList
  | .gateioPerpetualsUsd => "gateio_perpetuals_usd".toList
  | .gateioSpot => "gateio_spot".toList
  | .gemini => "gemini".toList
  | .hitbtc => "hitbtc".toList
  | .htx => "htx".toList
  | .kraken => "kraken".toList
  | .kucoin => "kucoin".toList
  | .liquid => "liquid".toList
  | .mexc => "mexc".toList
  | .okx => "okx".toList
  | .poloniex => "poloniex".toList

/-- `#[derive(Display)]` (derive_more) on a field-less enum: the variant identifier. -/
def ExchangeId.display (e : ExchangeId) : Str := e.variantName

/-- serde_derive's `RenameRule::SnakeCase.apply_to_variant`: an underscore before every capital
that is not the first character, every character ASCII-lower-cased. -/
def snakeFrom : Bool → Str → Str
  | _, [] => []
  | first, c :: s =>
    (if !first && (65 ≤ c.toNat ∧ c.toNat ≤ 90) then ['_'] else []) ++ asciiLower c :: snakeFrom false s

def snake (s : Str) : Str := snakeFrom true s

/-- `#[serde(rename_all = "snake_case")]`: the serialised form of a variant. -/
def ExchangeId.ser (e : ExchangeId) : Str := snake e.variantName

/-- `Deserialize`: the serialised names, plus `#[serde(alias = "huobi")]` on `Htx`. -/
def ExchangeId.de (s : Str) : Option ExchangeId :=
  match ExchangeId.all.find? (fun e => e.ser = s) with
  | some e => some e
  | none => if s = "huobi".toList then some .htx else none

/-- `ExchangeIndex` / `AssetIndex` / `InstrumentIndex` `Display` (exchange.rs:15-19,
asset/mod.rs:30-34, instrument/mod.rs:57-61): `Name(n)`. -/
def indexDisplay (tyName : String) (n : Nat) : Str :=
  tyName.toList ++ '(' :: Nat.toDigits 10 n ++ [')']

/-- `Keyed` `Display` (lib.rs:58-66): `key, value`. -/
def keyedDisplay (key value : Str) : Str := key ++ ", ".toList ++ value

/-! ## Side (lib.rs:91-112) -/

inductive Side where
  | buy | sell
  deriving DecidableEq, Repr

def Side.display : Side → Str
  | .buy => "buy".toList
  | .sell => "sell".toList

/-- derived `Serialize` without a rename: the variant identifier. -/
def Side.ser : Side → Str
  | .buy => "Buy".toList
  | .sell => "Sell".toList

/-- derived `Deserialize` with the three aliases per variant. -/
def Side.de (s : Str) : Option Side :=
  if s ∈ ["Buy".toList, "buy".toList, "BUY".toList, "b".toList] then some .buy
  else if s ∈ ["Sell".toList, "sell".toList, "SELL".toList, "s".toList] then some .sell
  else none

/-! ## Asset (asset/mod.rs:69-107) -/

structure Asset where
  nameInternal : AssetNameInternal
  nameExchange : AssetNameExchange
  deriving DecidableEq, Repr

/-- `Asset::new`: both arguments go through `Into`, i.e. the name constructors. -/
def Asset.new (internal exchange : Str) : Asset :=
  { nameInternal := .new internal, nameExchange := .new exchange }

/-- `Asset::new_from_exchange` and `From<S: Into<AssetNameExchange>>`. -/
def Asset.newFromExchange (exchange : Str) : Asset :=
  let ne := AssetNameExchange.new exchange
  { nameInternal := .new ne.name, nameExchange := ne }

/-! ## Instrument names built from an exchange (instrument/name.rs:30-57) -/

/-- `new_from_exchange`: `exchange.as_str()`, a dash, the exchange's instrument name. -/
def InstrumentNameInternal.newFromExchange (e : ExchangeId) (nameExchange : Str) :
    InstrumentNameInternal :=
  .new (e.asStr ++ '-' :: (InstrumentNameExchange.new nameExchange).display)

/-- `new_from_exchange_underlying`: `format!("{exchange}-{base}_{quote}")`, i.e. the exchange's
**`Display`** (the variant identifier), not `as_str`. -/
def InstrumentNameInternal.newFromExchangeUnderlying (e : ExchangeId) (base quote : Str) :
    InstrumentNameInternal :=
  .new (e.display ++ '-' :: (AssetNameExchange.new base).display ++
    '_' :: (AssetNameExchange.new quote).display)

/-! ## Decimals and dates as they are printed -/

/-- A `Decimal` as `Decimal::new(mantissa, scale)`: its `Display` shows the scale, which a `Rat`
cannot (50000 and 50000.0 are equal decimals that print differently). -/
structure Dec where
  mant : Int
  scale : Nat
  deriving DecidableEq, Repr

def Dec.toRat (d : Dec) : Rat := (d.mant : Rat) / ((10 ^ d.scale : Nat) : Rat)

/-- `Decimal`'s `Display`: all `scale` fractional digits, at least one integer digit. -/
def Dec.display (d : Dec) : Str :=
  let ds := Nat.toDigits 10 d.mant.natAbs
  let ds := List.replicate (d.scale + 1 - ds.length) '0' ++ ds
  (if d.mant < 0 then ['-'] else []) ++ ds.take (ds.length - d.scale) ++
    (if d.scale = 0 then [] else '.' :: ds.drop (ds.length - d.scale))

def pad (w n : Nat) : Str :=
  let ds := Nat.toDigits 10 n
  List.replicate (w - ds.length) '0' ++ ds

/-- Civil date (year, month, day) of a day count since 1970-01-01 (proleptic Gregorian), the
arithmetic of `DateTime::<Utc>::date_naive` for non-negative timestamps. -/
def civil (days : Nat) : Nat × Nat × Nat :=
  let z := days + 719468
  let era := z / 146097
  let doe := z - era * 146097
  let yoe := (doe - doe / 1460 + doe / 36524 - doe / 146096) / 365
  let doy := doe - (365 * yoe + yoe / 4 - yoe / 100)
  let mp := (5 * doy + 2) / 153
  let d := doy - (153 * mp + 2) / 5 + 1
  let m := if mp < 10 then mp + 3 else mp - 9
  let y := yoe + era * 400
  (if m ≤ 2 then y + 1 else y, m, d)

/-- `NaiveDate`'s `Display` (`%Y-%m-%d`, years 0–9999) of the date a millisecond timestamp ≥ 0
falls on. -/
def dateDisplay (ms : Nat) : Str :=
  let (y, m, d) := civil (ms / 86400000)
  pad 4 y ++ '-' :: pad 2 m ++ '-' :: pad 2 d

/-! ## MarketDataInstrument (instrument/market_data) -/

def optionKindStr (put : Nat) : Str := if put = 0 then "call".toList else "put".toList

def optionExerciseStr (x : Nat) : Str :=
  if x = 0 then "american".toList else if x = 1 then "bermudan".toList else "european".toList

/-- `MarketDataInstrumentKind` (market_data/kind.rs:11-16); `put` / `exercise` coded as in
`Index.Kind`; expiry in milliseconds. -/
inductive MDKind where
  | spot
  | perpetual
  | future (expiry : Nat)
  | option (put : Nat) (exercise : Nat) (expiry : Nat) (strike : Dec)
  deriving DecidableEq, Repr

/-- `Display for MarketDataInstrumentKind` (kind.rs:24-45). -/
def MDKind.display : MDKind → Str
  | .spot => "spot".toList
  | .perpetual => "perpetual".toList
  | .future e => "future_".toList ++ dateDisplay e ++ "-UTC".toList
  | .option p x e k =>
    "option_".toList ++ optionKindStr p ++ '_' :: optionExerciseStr x ++ '_' :: dateDisplay e ++
      "-UTC_".toList ++ k.display

structure MarketDataInstrument where
  base : AssetNameInternal
  quote : AssetNameInternal
  kind : MDKind
  deriving DecidableEq, Repr

/-- `MarketDataInstrument::new` and `From<(S, S, MarketDataInstrumentKind)>` (mod.rs:28-54). -/
def MarketDataInstrument.new (base quote : Str) (kind : MDKind) : MarketDataInstrument :=
  { base := .new base, quote := .new quote, kind := kind }

/-- `Display for MarketDataInstrument` (mod.rs:22-26). -/
def MarketDataInstrument.display (m : MarketDataInstrument) : Str :=
  m.base.display ++ '_' :: m.quote.display ++ '_' :: m.kind.display

def hexDigit (n : Nat) : Char := if n < 10 then Char.ofNat (48 + n) else Char.ofNat (87 + n)

/-- serde_json's string escaping. -/
def jsonEscape (c : Char) : Str :=
  if c = '"' then ['\\', '"'] else if c = '\\' then ['\\', '\\']
  else if c.toNat = 8 then ['\\', 'b'] else if c.toNat = 12 then ['\\', 'f']
  else if c.toNat = 10 then ['\\', 'n'] else if c.toNat = 13 then ['\\', 'r']
  else if c.toNat = 9 then ['\\', 't']
  else if c.toNat < 32 then
    ['\\', 'u', '0', '0', hexDigit (c.toNat / 16), hexDigit (c.toNat % 16)]
  else [c]

def jsonStr (s : Str) : Str := '"' :: s.flatMap jsonEscape ++ ['"']

/-- serde_json text of a `MarketDataInstrumentKind` (`rename_all = "snake_case"`, externally tagged,
expiry `ts_milliseconds`, strike as a string). -/
def MDKind.json : MDKind → Str
  | .spot => jsonStr "spot".toList
  | .perpetual => jsonStr "perpetual".toList
  | .future e => "{\"future\":{\"expiry\":".toList ++ Nat.toDigits 10 e ++ "}}".toList
  | .option p x e k =>
    "{\"option\":{\"kind\":".toList ++ jsonStr (optionKindStr p) ++ ",\"exercise\":".toList ++
      jsonStr (optionExerciseStr x) ++ ",\"expiry\":".toList ++ Nat.toDigits 10 e ++
      ",\"strike\":".toList ++ jsonStr k.display ++ "}}".toList

/-- serde_json text of a `MarketDataInstrument` (`kind` renamed `instrument_kind`). -/
def MarketDataInstrument.json (m : MarketDataInstrument) : Str :=
  "{\"base\":".toList ++ jsonStr m.base.ser ++ ",\"quote\":".toList ++ jsonStr m.quote.ser ++
    ",\"instrument_kind\":".toList ++ m.kind.json ++ "}".toList

/-! ## Instrument (instrument/mod.rs:63-245, instrument/kind/mod.rs) -/

/-- `Instrument<ExchangeKey, AssetKey>` with string names; `underlying` flattened to `base`,
`quote`; kind / spec are the types of `Model/Index.lean` (decimals and expiries are naturals). -/
structure Instrument (E A : Type) where
  exchange : E
  nameInternal : InstrumentNameInternal
  nameExchange : InstrumentNameExchange
  base : A
  quote : A
  quoteAsset : Nat
  kind : Kind A
  spec : Option (Spec A)
  deriving DecidableEq, Repr

/-- `Instrument::new` (mod.rs:84-106): the two names go through `Into`. -/
def Instrument.new {E A : Type} (exchange : E) (nameInternal nameExchange : Str) (base quote : A)
    (quoteAsset : Nat) (kind : Kind A) (spec : Option (Spec A)) : Instrument E A :=
  { exchange := exchange, nameInternal := .new nameInternal, nameExchange := .new nameExchange,
    base := base, quote := quote, quoteAsset := quoteAsset, kind := kind, spec := spec }

/-- `Instrument::spot` (mod.rs:112-132): quote asset = underlying quote, kind = spot. -/
def Instrument.spot {E A : Type} (exchange : E) (nameInternal nameExchange : Str) (base quote : A)
    (spec : Option (Spec A)) : Instrument E A :=
  { exchange := exchange, nameInternal := .new nameInternal, nameExchange := .new nameExchange,
    base := base, quote := quote, quoteAsset := 1, kind := .spot, spec := spec }

/-- `map_exchange_key` (mod.rs:135-159). -/
def Instrument.mapExchangeKey {E E' A : Type} (i : Instrument E A) (e : E') : Instrument E' A :=
  { exchange := e, nameInternal := i.nameInternal, nameExchange := i.nameExchange, base := i.base,
    quote := i.quote, quoteAsset := i.quoteAsset, kind := i.kind, spec := i.spec }

def kindMapE {ε A B : Type} (f : A → Except ε B) : Kind A → Except ε (Kind B)
  | .spot => .ok .spot
  | .perpetual s a => (f a).map (fun a' => .perpetual s a')
  | .future s a e => (f a).map (fun a' => .future s a' e)
  | .option s a p x e k => (f a).map (fun a' => .option s a' p x e k)

def specMapE {ε A B : Type} (f : A → Except ε B) : Option (Spec A) → Except ε (Option (Spec B))
  | none => .ok none
  | some s =>
    match s.unit with
    | .asset a => (f a).map (fun a' => some ⟨s.priceMin, s.tick, .asset a', s.qtyMin, s.qtyInc, s.notionalMin⟩)
    | .contract => .ok (some ⟨s.priceMin, s.tick, .contract, s.qtyMin, s.qtyInc, s.notionalMin⟩)
    | .quote => .ok (some ⟨s.priceMin, s.tick, .quote, s.qtyMin, s.qtyInc, s.notionalMin⟩)

/-- `map_asset_key_with_lookup` (mod.rs:162-245): base, quote, settlement asset, quantity-unit
asset are looked up in this order; the first `Err` is returned (`?`). -/
def Instrument.mapAssetKeyWithLookup {ε E A B : Type} (f : A → Except ε B) (i : Instrument E A) :
    Except ε (Instrument E B) :=
  match f i.base with
  | .error x => .error x
  | .ok b =>
  match f i.quote with
  | .error x => .error x
  | .ok q =>
  match kindMapE f i.kind with
  | .error x => .error x
  | .ok k =>
  match specMapE f i.spec with
  | .error x => .error x
  | .ok s =>
    .ok { exchange := i.exchange, nameInternal := i.nameInternal, nameExchange := i.nameExchange,
          base := b, quote := q, quoteAsset := i.quoteAsset, kind := k, spec := s }

/-- The asset keys of an instrument in lookup order (the same list `add_instrument` pushes). -/
def Instrument.assetRefs {E A : Type} (i : Instrument E A) : List A :=
  [i.base, i.quote] ++ i.kind.settlementAsset.toList ++ (BarterModel.Index.specUnitAsset i.spec).toList

/-- `InstrumentKind::contract_size` (kind/mod.rs:33-40). -/
def contractSize {A : Type} : Kind A → Nat
  | .spot => 1
  | .perpetual s _ => s
  | .future s _ _ => s
  | .option s _ _ _ _ _ => s

/-- `From<&InstrumentKind<AssetKey>> for MarketDataInstrumentKind` (kind/mod.rs:95-118). -/
def MDKind.ofKind {A : Type} : Kind A → MDKind
  | .spot => .spot
  | .perpetual _ _ => .perpetual
  | .future _ _ e => .future e
  | .option _ _ p x e k => .option p x e ⟨k, 0⟩

/-- `eq_market_data_instrument_kind` (kind/mod.rs:53-69); `Decimal` equality is numeric. -/
def eqMarketDataKind {A : Type} : Kind A → MDKind → Bool
  | .spot, .spot => true
  | .perpetual _ _, .perpetual => true
  | .future _ _ e, .future e' => e == e'
  | .option _ _ p x e k, .option p' x' e' k' =>
    p == p' && x == x' && e == e' && decide (((k : Int) : Rat) = k'.toRat)
  | _, _ => false

/-- `From<&Instrument<ExchangeKey, Asset>> for MarketDataInstrument` (mod.rs:247-255). -/
def MarketDataInstrument.ofInstrument {E : Type} (i : Instrument E Asset) : MarketDataInstrument :=
  { base := i.base.nameInternal, quote := i.quote.nameInternal, kind := .ofKind i.kind }

/-! ## The name code: strings into the naturals of `Model/Index.lean` -/

/-- one more than the largest Unicode scalar value, plus one for "end of string" -/
def B : Nat := 1114113

/-- longest name the code covers -/
def L : Nat := 48

/-- Base-`B` numeral with `n` digits, most significant first: digit `c + 1` per character, `0`
after the end of the string. -/
def encN : Nat → Str → Nat
  | 0, _ => 0
  | _ + 1, [] => 0
  | n + 1, c :: s => (c.toNat + 1) * B ^ n + encN n s

def code (s : Str) : Nat := encN L s

def decN : Nat → Nat → Str
  | 0, _ => []
  | n + 1, v =>
    let d := v / B ^ n
    if d = 0 then [] else Char.ofNat (d - 1) :: decN n (v % B ^ n)

def decode (v : Nat) : Str := decN L v

def Asset.erase (a : Asset) : BarterModel.Index.Asset :=
  ⟨code a.nameInternal.name, code a.nameExchange.name⟩

def kindMap {A B : Type} (f : A → B) : Kind A → Kind B
  | .spot => .spot
  | .perpetual s a => .perpetual s (f a)
  | .future s a e => .future s (f a) e
  | .option s a p x e k => .option s (f a) p x e k

def specMap {A B : Type} (f : A → B) : Option (Spec A) → Option (Spec B)
  | none => none
  | some s =>
    some ⟨s.priceMin, s.tick,
      (match s.unit with | .asset a => .asset (f a) | .contract => .contract | .quote => .quote),
      s.qtyMin, s.qtyInc, s.notionalMin⟩

/-- A definition as `add_instrument` receives it. -/
abbrev SDef := Instrument ExchangeId Asset

/-- The definition as `Model/Index.lean` sees it: exchange ↦ declaration position, names ↦ codes. -/
def toDef (i : SDef) : BarterModel.Index.Def :=
  { exchange := i.exchange.toNat, nameInternal := code i.nameInternal.name,
    nameExchange := code i.nameExchange.name, base := i.base.erase, quote := i.quote.erase,
    quoteAsset := i.quoteAsset, kind := kindMap Asset.erase i.kind, spec := specMap Asset.erase i.spec }

/-- An instrument with its two names replaced by their codes (keys untouched): the shape on which
the builder of `Model/Index.lean` maps keys. -/
def eraseNames {E A : Type} (i : Instrument E A) : BarterModel.Index.Instrument E A :=
  { exchange := i.exchange, nameInternal := code i.nameInternal.name,
    nameExchange := code i.nameExchange.name, base := i.base, quote := i.quote,
    quoteAsset := i.quoteAsset, kind := i.kind, spec := i.spec }

/-- All names of a definition fit the code. -/
def SDef.Short (i : SDef) : Prop :=
  i.nameInternal.name.length ≤ L ∧ i.nameExchange.name.length ≤ L ∧
    ∀ a ∈ i.assetRefs, a.nameInternal.name.length ≤ L ∧ a.nameExchange.name.length ≤ L

instance (i : SDef) : Decidable i.Short := by unfold SDef.Short; infer_instance

/-- `IndexedInstruments::new` on string-named definitions: the builder of `Model/Index.lean`. -/
def buildS (defs : List SDef) : Option Indexed := BarterModel.Index.build (defs.map toDef)

/-! ## Lookups with their error values (index/mod.rs:90-175, index/error.rs) -/

/-- `IndexError` (index/error.rs:7-28), payload text dropped. -/
inductive IndexError where
  | exchangeIndex
  | assetIndex
  | instrumentIndex
  deriving DecidableEq, Repr

/-- `Option::ok_or` -/
def okOr {α ε : Type} (o : Option α) (e : ε) : Except ε α :=
  match o with
  | some a => .ok a
  | none => .error e

/-- `exchanges()` / `assets()` / `instruments()` (index/mod.rs:69-83): the three tables as slices. -/
def exchanges (ii : Indexed) : List (Keyed Nat Nat) := ii.exchanges
def assets (ii : Indexed) : List (Keyed Nat BarterModel.Index.ExchangeAsset) := ii.assets
def instruments (ii : Indexed) : List (Keyed Nat BarterModel.Index.IInstrument) := ii.instruments

/-- `find_exchange_index` (mod.rs:93-95, 193-204). -/
def findExchangeIndex (ii : Indexed) (e : Nat) : Except IndexError Nat :=
  okOr (ii.findExchangeIndex e) .exchangeIndex

/-- `find_exchange` (mod.rs:97-105). -/
def findExchange (ii : Indexed) (k : Nat) : Except IndexError Nat :=
  okOr (ii.findExchange k) .exchangeIndex

/-- `find_asset_index` (mod.rs:116-122, 206-223). -/
def findAssetIndex (ii : Indexed) (e : Nat) (name : Nat) : Except IndexError Nat :=
  okOr (ii.findAssetIndex e name) .assetIndex

/-- `find_asset` (mod.rs:124-132). -/
def findAsset (ii : Indexed) (k : Nat) : Except IndexError BarterModel.Index.ExchangeAsset :=
  okOr (ii.findAsset k) .assetIndex

/-- `find_instrument_index` (mod.rs:144-159). The error variant is **`AssetIndex`**, as in the
code (and as the crate's own test asserts), not `InstrumentIndex`. -/
def findInstrumentIndex (ii : Indexed) (e : Nat) (name : Nat) : Except IndexError Nat :=
  okOr (ii.findInstrumentIndex e name) .assetIndex

/-- `find_instrument` (mod.rs:161-174). -/
def findInstrument (ii : Indexed) (k : Nat) : Except IndexError BarterModel.Index.IInstrument :=
  okOr (ii.findInstrument k) .instrumentIndex

/-- The string-level calls `find_asset_index(exchange, &AssetNameInternal)` and
`find_instrument_index(exchange, &InstrumentNameInternal)`. -/
def findAssetIndexS (ii : Indexed) (e : ExchangeId) (name : AssetNameInternal) : Except IndexError Nat :=
  findAssetIndex ii e.toNat (code name.name)

def findInstrumentIndexS (ii : Indexed) (e : ExchangeId) (name : InstrumentNameInternal) :
    Except IndexError Nat :=
  findInstrumentIndex ii e.toNat (code name.name)

/-! ## Abstract specification (from the doc comments, not from the code)

* Internal names are "lowercase `SmolStr` representations": the name of `new s` is `s` with every
  capital Latin letter replaced by its small letter (`specLower`, by table look-up), two inputs give
  the same name exactly when they are equal up to the case of Latin letters (`CaseEq`).
* Exchange names are "the `&str` representation of the `ExchangeId`", serialised in snake case: the
  words of the variant identifier, lower-cased, joined by `_` (`specExchangeName`).
* `new_from_exchange` "combines the `ExchangeId` and the `InstrumentNameExchange`" into a lowercase
  identifier "unique across exchanges".
* A lookup by key answers `Ok` exactly when the entity was "added during initialisation" and then
  the positional lookup of the answer gives the entity back; otherwise the `IndexError` variant
  documented for that kind of index. -/

def upperAlphabet : Str := "ABCDEFGHIJKLMNOPQRSTUVWXYZ".toList
def lowerAlphabet : Str := "abcdefghijklmnopqrstuvwxyz".toList

/-- the small letter of a capital Latin letter, anything else unchanged -/
def specLowerC (c : Char) : Char :=
  match upperAlphabet.idxOf? c with
  | some i => lowerAlphabet.getD i c
  | none => c

def specLower (s : Str) : Str := s.map specLowerC

/-- position of a Latin letter in the alphabet, whatever its case -/
def letterIdx (c : Char) : Option Nat :=
  match upperAlphabet.idxOf? c with
  | some i => some i
  | none => lowerAlphabet.idxOf? c

/-- the same character, or the same Latin letter in different cases -/
def caseEqC (a b : Char) : Bool := a == b || (letterIdx a).isSome && letterIdx a == letterIdx b

/-- equal up to the case of Latin letters -/
def caseEq : Str → Str → Bool
  | [], [] => true
  | a :: s, b :: t => caseEqC a b && caseEq s t
  | _, _ => false

/-- the words of a CamelCase identifier (a new word starts at every capital) -/
def camelWords : Str → List Str
  | [] => []
  | c :: s =>
    match camelWords s with
    | [] => [[c]]
    | w :: ws =>
      match s with
      | d :: _ => if upperAlphabet.contains d then [c] :: w :: ws else (c :: w) :: ws
      | [] => [c] :: w :: ws

def specExchangeName (e : ExchangeId) : Str :=
  "_".toList.intercalate ((camelWords e.variantName).map specLower)

/-- exchanges / (exchange, asset name) / (exchange, instrument name) "added during initialisation" -/
def specHasExchange (defs : List SDef) (e : ExchangeId) : Bool := defs.any (fun d => d.exchange == e)

def specHasAsset (defs : List SDef) (e : ExchangeId) (n : AssetNameInternal) : Bool :=
  defs.any (fun d => d.exchange == e && d.assetRefs.any (fun a => a.nameInternal == n))

def specHasInstrument (defs : List SDef) (e : ExchangeId) (n : InstrumentNameInternal) : Bool :=
  defs.any (fun d => d.exchange == e && d.nameInternal == n)

/-- `map_asset_key_with_lookup` "maps this instrument's `AssetKey` to a new key, using the provided
lookup closure": it can only succeed when every asset the instrument refers to is found; the error
reported is the lookup's error for the first reference (base, quote, settlement, quantity unit)
that is not. -/
def firstError {ε A B : Type} (f : A → Except ε B) : List A → Option ε
  | [] => none
  | a :: t =>
    match f a with
    | .error x => some x
    | .ok _ => firstError f t

/-! ### The tables of `IndexedInstruments` and the values of the lookups by key, as a function of the
definitions alone

Written from the property text of C11 ("every distinct exchange, exchange-asset and instrument
receives exactly one index equal to its position … the result does not depend on insertion order";
state `IndexedInstruments{exchanges, assets, instruments}`: "sorted + deduped vectors, key =
position") and from the doc comments of index/mod.rs (an index for each `ExchangeId` /
`ExchangeAsset` / `Instrument` "added during initialisation"; `find_asset_index` and
`find_instrument_index` are keyed by the exchange and the *internal* name). The order is the one
the types document: exchanges in declaration order, names as strings (Rust `str` order =
lexicographic by Unicode scalar value), an `ExchangeAsset` by exchange, then internal name, then
exchange name. Nothing here calls the builder model (`build`, `sortDedup`, `code`). -/

/-- "(e, n) comes before (e', n')": exchange in declaration order, then the name as a string -/
def specKeyLt (e : ExchangeId) (n : Str) (e' : ExchangeId) (n' : Str) : Bool :=
  decide (e.toNat < e'.toNat) || (e == e' && decide (n < n'))

/-- the (exchange, asset) pairs the definitions mention (base, quote, settlement, quantity unit) -/
def specAssetEntries (defs : List SDef) : List (ExchangeId × Asset) :=
  defs.flatMap (fun d => d.assetRefs.map (fun a => (d.exchange, a)))

/-- `exchanges()`: the exchanges added during initialisation, each once, in declaration order -/
def specExchangeTable (defs : List SDef) : List ExchangeId :=
  ExchangeId.all.filter (specHasExchange defs)

/-- the `ExchangeIndex` of an exchange that was added = its position in `exchanges()` -/
def specExchangeIndex (defs : List SDef) (e : ExchangeId) : Nat := (specExchangeTable defs).idxOf e

/-- the `AssetIndex` `find_asset_index(e, n)` answers when the asset was added: the number of
distinct (exchange, asset) pairs of the definitions whose (exchange, internal name) comes before
`(e, n)` — i.e. the position of the first entry with that key in the sorted, duplicate-free table. -/
def specAssetIndex (defs : List SDef) (e : ExchangeId) (n : AssetNameInternal) : Nat :=
  ((BarterModel.Index.specDistinct (specAssetEntries defs)).filter
    (fun x => specKeyLt x.1 x.2.nameInternal.name e n.name)).length

/-- the `InstrumentIndex` `find_instrument_index(e, n)` answers when such an instrument was added:
the number of distinct definitions whose (exchange, internal name) comes before `(e, n)`. -/
def specInstrumentIndex (defs : List SDef) (e : ExchangeId) (n : InstrumentNameInternal) : Nat :=
  ((BarterModel.Index.specDistinct defs).filter
    (fun d => specKeyLt d.exchange d.nameInternal.name e n.name)).length

/-- insert into a strictly ascending list; an element that is neither before nor after an element
already present is that element (or, for a coarser order, indistinguishable from it) and is dropped -/
def specInsert {α : Type} (lt : α → α → Bool) (x : α) : List α → List α
  | [] => [x]
  | y :: t => if lt x y then x :: y :: t else if lt y x then y :: specInsert lt x t else y :: t

/-- "sorted + deduped" -/
def specSortDistinct {α : Type} (lt : α → α → Bool) (l : List α) : List α :=
  l.foldl (fun acc x => specInsert lt x acc) []

/-- order of `ExchangeAsset<Asset>`: exchange, internal name, exchange name -/
def specAssetLt (x y : ExchangeId × Asset) : Bool :=
  specKeyLt x.1 x.2.nameInternal.name y.1 y.2.nameInternal.name ||
    (x.1 == y.1 && x.2.nameInternal == y.2.nameInternal &&
      decide (x.2.nameExchange.name < y.2.nameExchange.name))

/-- `assets()`: the distinct (exchange, asset) pairs in ascending order; key = position -/
def specAssetTable (defs : List SDef) : List (ExchangeId × Asset) :=
  specSortDistinct specAssetLt (specAssetEntries defs)

/-- within one exchange an internal asset name determines the asset (string-level `WFAssets`): the
hypothesis under which "references resolve to the entries the instrument was defined with" -/
def specWFAssets (defs : List SDef) : Bool :=
  (specAssetEntries defs).all (fun x => (specAssetEntries defs).all (fun y =>
    !(x.1 == y.1 && x.2.nameInternal == y.2.nameInternal) || x == y))

/-! The derived `Ord` of the Rust types, read off their declarations ("lexicographic in the
top-to-bottom order of the members; enum variants in declaration order"): `Instrument` = exchange,
name_internal, name_exchange, underlying (base, quote), quote, kind, spec. -/

def specCmpStr (a b : Str) : Ordering := if a < b then .lt else if a == b then .eq else .gt

/-- `Asset`: name_internal, name_exchange -/
def specCmpAsset (a b : Asset) : Ordering :=
  (specCmpStr a.nameInternal.name b.nameInternal.name).then
    (specCmpStr a.nameExchange.name b.nameExchange.name)

/-- `InstrumentKind`: Spot < Perpetual < Future < Option; the contracts by contract_size,
settlement_asset, (kind, exercise,) expiry(, strike) -/
def specCmpKind : Kind Asset → Kind Asset → Ordering
  | .spot, .spot => .eq
  | .spot, _ => .lt
  | _, .spot => .gt
  | .perpetual s a, .perpetual s' a' => (compare s s').then (specCmpAsset a a')
  | .perpetual _ _, _ => .lt
  | _, .perpetual _ _ => .gt
  | .future s a e, .future s' a' e' => ((compare s s').then (specCmpAsset a a')).then (compare e e')
  | .future _ _ _, _ => .lt
  | _, .future _ _ _ => .gt
  | .option s a p x e k, .option s' a' p' x' e' k' =>
    (((((compare s s').then (specCmpAsset a a')).then (compare p p')).then (compare x x')).then
      (compare e e')).then (compare k k')

/-- `OrderQuantityUnits`: Asset(_) < Contract < Quote -/
def specCmpUnits : Units Asset → Units Asset → Ordering
  | .asset a, .asset a' => specCmpAsset a a'
  | .asset _, _ => .lt
  | _, .asset _ => .gt
  | .contract, .contract => .eq
  | .contract, .quote => .lt
  | .quote, .contract => .gt
  | .quote, .quote => .eq

/-- `Option<InstrumentSpec>`: None < Some; price (min, tick_size), quantity (unit, min, increment),
notional (min) -/
def specCmpSpec : Option (Spec Asset) → Option (Spec Asset) → Ordering
  | none, none => .eq
  | none, some _ => .lt
  | some _, none => .gt
  | some a, some b =>
    (((((compare a.priceMin b.priceMin).then (compare a.tick b.tick)).then
      (specCmpUnits a.unit b.unit)).then (compare a.qtyMin b.qtyMin)).then
      (compare a.qtyInc b.qtyInc)).then (compare a.notionalMin b.notionalMin)

def specCmpInstrument (a b : SDef) : Ordering :=
  (((((((compare a.exchange.toNat b.exchange.toNat).then
    (specCmpStr a.nameInternal.name b.nameInternal.name)).then
    (specCmpStr a.nameExchange.name b.nameExchange.name)).then
    (specCmpAsset a.base b.base)).then (specCmpAsset a.quote b.quote)).then
    (compare a.quoteAsset b.quoteAsset)).then (specCmpKind a.kind b.kind)).then
    (specCmpSpec a.spec b.spec)

/-- `instruments()`: the distinct definitions in ascending derived order; key = position -/
def specInstrumentTable (defs : List SDef) : List SDef :=
  specSortDistinct (fun a b => specCmpInstrument a b == .lt) defs

/-! Vocabulary of the theorems that tie these functions to the builder model (`Props/C11N.lean`). -/

/-- `specKeyLt` on the naturals of the builder model: "(e, n) comes before (e', n')" -/
def keyLt (e n e' n' : Nat) : Bool := decide (e < e' ∨ (e = e' ∧ n < n'))

/-- the entry of the builder model an (exchange, asset) pair of strings stands for -/
def eraseEntry (x : ExchangeId × Asset) : BarterModel.Index.ExchangeAsset := ⟨x.1.toNat, x.2.erase⟩

end BarterModel.Names
