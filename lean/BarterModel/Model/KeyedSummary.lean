import BarterModel.Model.Metrics
import BarterModel.Model.Stale
/-!
# C16K — the keyed trading summary, all fields (composition of existing models; core Lean only)

Nothing is re-modelled here. The generators are the existing ones:
* per instrument the complete `TearSheetGenerator` of sub-check C16M (`Metrics.Gen`: clock, `PnLReturns`
  with both full `DataSetSummary`s of C17, the three drawdown generators of C18; `Metrics.Gen.generate`
  produces all ten fields of `TearSheet<Interval>`),
* per asset the complete `TearSheetAssetGenerator` (`summary/asset.rs:24-69`): `balance_now` plus the
  three drawdown generators of C18 (`Drawdown.Sheet`), fed `(balance.total, time_exchange)`,
* in front of the engine-held asset generator the balance register of C09 (`Stale.passes false`,
  `Stale.upd false`: `AssetState::update_from_balance`, `engine/state/asset/mod.rs:115-127`).

What this file adds is the *keying* and the two ways a summary is produced:
* engine path — `EngineState::update_from_account` routes a `Trade` to `instruments[trade.instrument]`
  (`engine/state/mod.rs:153-158`; `InstrumentState::update_from_trade` runs
  `tear_sheet.update_from_position` on the `PositionExited` it returns, `instrument/mod.rs:323-333`) and a
  balance snapshot (single `BalanceSnapshot`, or each item of a full `Snapshot` in order,
  `state/mod.rs:113-134`) to `assets[balance.asset]`; `Engine::trading_summary_generator`
  (`engine/mod.rs:318-329`) CLONES every instrument's `tear_sheet` and every asset's `statistics`
  (`TradingSummaryGenerator::init`, `summary/mod.rs:82-111`) and `generate` (`summary/mod.rs:148-176`)
  runs on the clone;
* direct path — a long-lived `TradingSummaryGenerator` updated by its own `update_from_position`
  (`summary/mod.rs:117-129`) / `update_from_balance` (`summary/mod.rs:132-142`, NO staleness guard) and
  asked to `generate(&mut self)` any number of times in between (every call mutates the mean / max
  drawdown generators of every entry).

`FnvIndexMap`s are lists addressed by position (`InstrumentIndex` / `AssetIndex` = position, C11); an
index out of range panics in the code — the total step functions leave the list unchanged; the CHECKED
runs at the end of this file (`Ev.panics`, `stepChecked`, `engineSummaryChecked`, …) return `none`
there, they are what the drivers run (`panic`), and `Props/C16K.lean` §7 states exactly when that happens. `Decimal` is exact `Rat`, times are `Int` milliseconds, `Decimal::sqrt`
is the parameter `f` exactly as in C16M. The summary-level clock (`time_engine_start`,
`time_engine_now`) is modelled on the direct path (it is set by `init` and moved by the `update_from_*`
calls); on the engine path both are read from the engine clock (`meta.time_start`, `self.time()`:
C20K) and are parameters here.

Second half: the per-key histories and the specification of an asset tear sheet over a snapshot list
(C18's decomposition of the curve of totals), and the NON-STALE subsequence defined with the C09 register.
-/
namespace BarterModel.KeyedSummary
open BarterModel

abbrev Exit := Metrics.Exit
abbrev Interval := Metrics.Interval
abbrev BalSnap := TearSheet.BalSnap
abbrev Balance := TearSheet.Balance

/-! ## The complete asset tear-sheet generator (`summary/asset.rs`) -/

/-- The point of the value curve a balance snapshot contributes:
`Timed::new(balance.total, time_exchange)` (asset.rs:46-49). -/
def pointOf (s : BalSnap) : Drawdown.Pt := ⟨s.time, s.balance.total⟩

/-- `TearSheetAssetGenerator` (asset.rs:24-29): `balance_now` and the three C18 generators. -/
structure AssetGen where
  balanceNow : Option Balance
  sheet : Drawdown.Sheet
  deriving DecidableEq, Repr

/-- `#[derive(Default)]` (asset.rs:23), what `generate_empty_indexed_asset_states` installs
(asset/mod.rs:154-176). -/
def AssetGen.default : AssetGen := ⟨none, Drawdown.Sheet.default⟩

/-- `TearSheetAssetGenerator::update_from_balance` (asset.rs:43-53) = C16's `balance_now` assignment +
C18's feeding code `Drawdown.Sheet.update`. -/
def AssetGen.updateFromBalance (g : AssetGen) (s : BalSnap) : AssetGen :=
  { balanceNow := some s.balance, sheet := (g.sheet.update (pointOf s)).1 }

/-- `TearSheetAsset` (asset.rs:15-20): `balance_end`, `drawdown`, `drawdown_mean`, `drawdown_max`
(the last three are `Drawdown.Report.{current, mean, max}`). -/
structure AssetSheet where
  balanceEnd : Option Balance
  drawdowns : Drawdown.Report
  deriving DecidableEq, Repr

/-- `TearSheetAssetGenerator::generate` (asset.rs:56-69), `&mut self`: C18's `Drawdown.Sheet.generate`
(folds the drawdown in progress into the mean / max generators) + C16's `balance_end`. -/
def AssetGen.generate (g : AssetGen) : AssetGen × AssetSheet :=
  let r := g.sheet.generate
  ({ g with sheet := r.1 }, { balanceEnd := g.balanceNow, drawdowns := r.2 })

/-! ## Engine path -/

/-- A snapshot as a message of the C09 register: `(time_exchange, (total, free))`. -/
def msgOf (s : BalSnap) : Stale.Msg Stale.Bal := (s.time, (s.balance.total, s.balance.free))

/-- `AssetState` (engine/state/asset/mod.rs:99-108): the statistics generator and the balance register
of C09 (`Option<Timed<Balance>>`). -/
structure AssetState where
  statistics : AssetGen
  balance : Option (Stale.Msg Stale.Bal)
  deriving DecidableEq, Repr

def AssetState.default : AssetState := ⟨AssetGen.default, none⟩

/-- `AssetState::update_from_balance` (asset/mod.rs:115-127). The guard is C09's
`Stale.passes false` (`balance.time <= snapshot.time_exchange`); the statistics generator is updated
exactly when the register is. -/
def AssetState.updateFromBalance (a : AssetState) (s : BalSnap) : AssetState :=
  match a.balance with
  | none => { statistics := a.statistics.updateFromBalance s, balance := some (msgOf s) }
  | some cur =>
    if Stale.passes false cur.1 s.time then
      { statistics := a.statistics.updateFromBalance s, balance := some (msgOf s) }
    else a

/-- The events that reach the tear sheets. -/
inductive Ev where
  /-- instrument `i`'s position was closed (`PositionExited`, with its `time_exit`) -/
  | position (i : Nat) (p : Exit)
  /-- balance snapshot for asset `a` -/
  | balance (a : Nat) (s : BalSnap)
  deriving DecidableEq, Repr

/-- The part of `EngineState` the summary is initialised from. -/
structure EngState where
  instruments : List Metrics.Gen
  assets : List AssetState
  deriving DecidableEq, Repr

/-- `EngineState::builder(..).time_engine_start(t0).build()` (engine/state/builder.rs:98-146,
`generate_indexed_instrument_states` → `TearSheetGenerator::init(time_engine_start)`,
instrument/mod.rs:419-447) without initial balances. -/
def EngState.init (t0 : Int) (n m : Nat) : EngState :=
  { instruments := List.replicate n (Metrics.Gen.init t0),
    assets := List.replicate m AssetState.default }

/-- `EngineState::update_from_account` as far as the tear sheets go (state/mod.rs:101-165). -/
def EngState.step (f : Rat → Rat) (s : EngState) : Ev → EngState
  | .position i p =>
    { s with instruments := TearSheet.modifyAt s.instruments i (·.updateFromPosition f p) }
  | .balance a b =>
    { s with assets := TearSheet.modifyAt s.assets a (·.updateFromBalance b) }

def EngState.run (f : Rat → Rat) (s : EngState) (evs : List Ev) : EngState :=
  evs.foldl (EngState.step f) s

/-! ## The summary generator (`summary/mod.rs`) -/

/-- `TradingSummaryGenerator` (summary/mod.rs:56-78), all five fields. -/
structure SummaryGen where
  riskFreeReturn : Rat
  timeEngineStart : Int
  timeEngineNow : Int
  instruments : List Metrics.Gen
  assets : List AssetGen
  deriving DecidableEq, Repr

/-- `TradingSummary<Interval>` (summary/mod.rs:29-45), all four fields. -/
structure Summary where
  timeEngineStart : Int
  timeEngineEnd : Int
  instruments : List Metrics.Sheet
  assets : List AssetSheet
  deriving DecidableEq, Repr

/-- `TradingSummaryGenerator::init` (summary/mod.rs:82-111): clones, in map order. -/
def SummaryGen.init (rf : Rat) (start now : Int) (s : EngState) : SummaryGen :=
  { riskFreeReturn := rf, timeEngineStart := start, timeEngineNow := now,
    instruments := s.instruments, assets := s.assets.map (·.statistics) }

/-- `TradingSummaryGenerator::update_from_position` (summary/mod.rs:117-129). -/
def SummaryGen.updateFromPosition (f : Rat → Rat) (g : SummaryGen) (i : Nat) (p : Exit) :
    SummaryGen :=
  { g with
    timeEngineNow := if g.timeEngineNow < p.timeExit then p.timeExit else g.timeEngineNow
    instruments := TearSheet.modifyAt g.instruments i (·.updateFromPosition f p) }

/-- `TradingSummaryGenerator::update_from_balance` (summary/mod.rs:132-142): straight to
`TearSheetAssetGenerator::update_from_balance`, no time test. -/
def SummaryGen.updateFromBalance (g : SummaryGen) (a : Nat) (s : BalSnap) : SummaryGen :=
  { g with
    timeEngineNow := if g.timeEngineNow < s.time then s.time else g.timeEngineNow
    assets := TearSheet.modifyAt g.assets a (·.updateFromBalance s) }

/-- `TradingSummaryGenerator::generate` (summary/mod.rs:148-176), `&mut self`: every entry's own
`generate`, keys and order kept; returns the mutated generator as well. -/
def SummaryGen.generate (f : Rat → Rat) (g : SummaryGen) (iv : Interval) : SummaryGen × Summary :=
  let is := g.instruments.map (fun t => t.generate f g.riskFreeReturn iv)
  let as := g.assets.map (·.generate)
  ({ g with instruments := is.map (·.1), assets := as.map (·.1) },
   { timeEngineStart := g.timeEngineStart, timeEngineEnd := g.timeEngineNow,
     instruments := is.map (·.2), assets := as.map (·.2) })

def SummaryGen.step (f : Rat → Rat) (g : SummaryGen) : Ev → SummaryGen
  | .position i p => g.updateFromPosition f i p
  | .balance a b => g.updateFromBalance a b

def SummaryGen.run (f : Rat → Rat) (g : SummaryGen) (evs : List Ev) : SummaryGen :=
  evs.foldl (SummaryGen.step f) g

/-- `Engine::trading_summary_generator(rf).generate(iv)` after the engine saw `evs`; `start` / `now` are
what the engine clock says (`meta.time_start`, `self.time()`). -/
def engineSummary (f : Rat → Rat) (t0 : Int) (n m : Nat) (rf : Rat) (start now : Int) (iv : Interval)
    (evs : List Ev) : Summary :=
  ((SummaryGen.init rf start now ((EngState.init t0 n m).run f evs)).generate f iv).2

/-- A summary generator taken from a fresh engine state (both clocks at `t0`), then updated directly. -/
def directGen (f : Rat → Rat) (t0 : Int) (n m : Nat) (rf : Rat) (evs : List Ev) : SummaryGen :=
  (SummaryGen.init rf t0 t0 (EngState.init t0 n m)).run f evs

/-- … and asked to generate once, at the end. -/
def directSummary (f : Rat → Rat) (t0 : Int) (n m : Nat) (rf : Rat) (iv : Interval) (evs : List Ev) :
    Summary :=
  ((directGen f t0 n m rf evs).generate f iv).2

/-! ### Interleaved `generate` calls -/

/-- What a user of either path does: feed an event, or ask for a summary at some interval. -/
inductive Op where
  | ev (e : Ev)
  | gen (iv : Interval)
  deriving DecidableEq, Repr

def eventsOf (ops : List Op) : List Ev := ops.filterMap fun | .ev e => some e | .gen _ => none

/-- Direct path: the long-lived generator is mutated by `generate(&mut self)`. Returns every summary
produced, oldest first. -/
def SummaryGen.exec (f : Rat → Rat) (g : SummaryGen) : List Op → SummaryGen × List Summary
  | [] => (g, [])
  | .ev e :: ops => SummaryGen.exec f (g.step f e) ops
  | .gen iv :: ops =>
    let r := g.generate f iv
    let rest := SummaryGen.exec f r.1 ops
    (rest.1, r.2 :: rest.2)

/-- Engine path: `trading_summary_generator(&self)` clones, so a summary request leaves the engine
state as it is. -/
def EngState.exec (f : Rat → Rat) (rf : Rat) (start now : Int) (s : EngState) :
    List Op → EngState × List Summary
  | [] => (s, [])
  | .ev e :: ops => EngState.exec f rf start now (s.step f e) ops
  | .gen iv :: ops =>
    let rest := EngState.exec f rf start now s ops
    (rest.1, ((SummaryGen.init rf start now s).generate f iv).2 :: rest.2)

/-- One generator with interleaved `generate` calls: C18's sheet … -/
inductive SOp where
  | pt (p : Drawdown.Pt)
  | gen
  deriving DecidableEq, Repr

def sheetStep (s : Drawdown.Sheet) : SOp → Drawdown.Sheet
  | .pt p => (s.update p).1
  | .gen => s.generate.1

def sheetExec (s : Drawdown.Sheet) (ops : List SOp) : Drawdown.Sheet := ops.foldl sheetStep s

def ptsOf (ops : List SOp) : List Drawdown.Pt := ops.filterMap fun | .pt p => some p | .gen => none

/-- … and the asset generator. -/
inductive AOp where
  | snap (s : BalSnap)
  | gen
  deriving DecidableEq, Repr

def AssetGen.step (g : AssetGen) : AOp → AssetGen
  | .snap s => g.updateFromBalance s
  | .gen => g.generate.1

def AssetGen.exec (g : AssetGen) (ops : List AOp) : AssetGen := ops.foldl AssetGen.step g

/-- The calls that reach asset `a`'s generator on the direct path: its own snapshots and EVERY
`generate`. -/
def aopsOf (a : Nat) (ops : List Op) : List AOp :=
  ops.filterMap fun
    | .ev (.balance b s) => if b = a then some (.snap s) else none
    | .ev (.position _ _) => none
    | .gen _ => some .gen

/-! ## Specification side -/

/-- Instrument `i`'s own history: its exited positions, oldest first. -/
def exitsOf (i : Nat) (evs : List Ev) : List Exit :=
  evs.filterMap fun | .position j p => if j = i then some p else none | .balance _ _ => none

/-- Asset `a`'s own history: its balance snapshots, oldest first. -/
def snapsOf (a : Nat) (evs : List Ev) : List BalSnap :=
  evs.filterMap fun | .balance b s => if b = a then some s else none | .position _ _ => none

/-- Is the snapshot applied by a register holding `h`? (C09: the first one always; later ones iff
`held.time <= snapshot.time`.) -/
def applies (h : Option (Stale.Msg Stale.Bal)) (s : BalSnap) : Bool :=
  match h with
  | none => true
  | some c => Stale.passes false c.1 s.time

/-- The NON-STALE subsequence of a snapshot list, defined with the C09 register: a snapshot is kept iff
the register (`Stale.upd false`, started at `h`) applies it when it arrives. -/
def nonStale : Option (Stale.Msg Stale.Bal) → List BalSnap → List BalSnap
  | _, [] => []
  | h, s :: ss => (if applies h s then [s] else []) ++ nonStale (Stale.upd false h (msgOf s)) ss

/-- The same subsequence without a register, from the words "not older than anything before it". -/
def runningMax : List BalSnap → List BalSnap → List BalSnap
  | _, [] => []
  | pre, s :: ss =>
    (if pre.all (fun x => decide (x.time ≤ s.time)) then [s] else []) ++ runningMax (pre ++ [s]) ss

/-- The value curve of a snapshot list. -/
def curveOf (snaps : List BalSnap) : List Drawdown.Pt := snaps.map pointOf

/-- The asset tear sheet of a snapshot list, from C16 (`balance_end` = the last balance) and C18 (the
first `generate` after the curve: drawdown in progress, mean and maximum over everything reported). -/
def assetSheetOf (snaps : List BalSnap) : AssetSheet :=
  { balanceEnd := snaps.getLast?.map (·.balance)
    drawdowns :=
      ⟨(Drawdown.decompose (curveOf snaps)).2,
       Drawdown.specMean (Drawdown.reported (curveOf snaps)),
       Drawdown.specMax (Drawdown.reported (curveOf snaps))⟩ }

/-- The drawdowns a sheet's mean / max generators are fed when `generate` calls are interleaved with
the points: each point contributes the drawdown it completes (C18), each `generate` the drawdown in
progress at that moment — again. `pts` = the points before `ops`. -/
def emitted : List Drawdown.Pt → List SOp → List Drawdown.Drawdown
  | _, [] => []
  | pts, .pt q :: ops =>
    ((Drawdown.decompose (pts ++ [q])).1.drop (Drawdown.decompose pts).1.length) ++
      emitted (pts ++ [q]) ops
  | pts, .gen :: ops => (Drawdown.decompose pts).2.toList ++ emitted pts ops

/-- Projections onto the C16 model (pnl / win rate / profit factor; `balance_end`; events without
exit time). -/
def projSheet (s : Metrics.Sheet) : TearSheet.TearSheet := ⟨s.pnl, s.winRate, s.profitFactor⟩
def projAsset (s : AssetSheet) : TearSheet.TearSheetAsset := ⟨s.balanceEnd⟩
def projEv : Ev → TearSheet.Ev
  | .position i p => .position i p.closed
  | .balance a s => .balance a s

/-! ## Where the code panics — the checked runs

The step functions above are total: an event for an instrument / asset index outside the maps is
IGNORED (`TearSheet.modifyAt` leaves the list as it is) and a closed position with a zero cost of
investment goes on with `pnl / 0 = 0`. The code panics in both situations:
* engine path — `InstrumentStates::instrument_index_mut` / `AssetStates::asset_index_mut`
  (`engine/state/instrument/mod.rs:73-81`, `asset/mod.rs:43-48`: "Panics if … does not exist",
  `get_index_mut(..).unwrap_or_else(|| panic!(..))`);
* direct path — `InstrumentTearSheetManager::instrument_mut` / `AssetTearSheetManager::asset_mut` of
  `TradingSummaryGenerator` (`summary/mod.rs:117-142`, same `unwrap_or_else(|| panic!(..))`);
* both — `calculate_pnl_return` (`Metrics.Exit.panics`, C16M).
The definitions below make the panic an explicit outcome (`none`); the drivers run them and print
`panic` exactly when they return `none`; `Props/C16K.lean` §7 states when that is and what the summary
is otherwise. (`Decimal` range panics are outside the model: DESIGN §3.) -/

/-- Would the code panic on this event, with `n` instruments and `m` assets in the maps? Unknown key,
or zero cost of investment. -/
def Ev.panics (n m : Nat) : Ev → Bool
  | .position i p => decide (n ≤ i) || p.panics
  | .balance a _ => decide (m ≤ a)

/-- … judged against the maps the state actually holds. -/
def EngState.panicsOn (s : EngState) (ev : Ev) : Bool :=
  ev.panics s.instruments.length s.assets.length

/-- `EngineState::update_from_account` with the panic explicit. -/
def EngState.stepChecked (f : Rat → Rat) (s : EngState) (ev : Ev) : Option EngState :=
  if s.panicsOn ev then none else some (s.step f ev)

def EngState.runChecked (f : Rat → Rat) : EngState → List Ev → Option EngState
  | s, [] => some s
  | s, ev :: evs =>
    match s.stepChecked f ev with
    | none => none
    | some s' => EngState.runChecked f s' evs

def SummaryGen.panicsOn (g : SummaryGen) (ev : Ev) : Bool :=
  ev.panics g.instruments.length g.assets.length

/-- `TradingSummaryGenerator::update_from_position` / `update_from_balance` with the panic explicit. -/
def SummaryGen.stepChecked (f : Rat → Rat) (g : SummaryGen) (ev : Ev) : Option SummaryGen :=
  if g.panicsOn ev then none else some (g.step f ev)

def SummaryGen.runChecked (f : Rat → Rat) : SummaryGen → List Ev → Option SummaryGen
  | g, [] => some g
  | g, ev :: evs =>
    match g.stepChecked f ev with
    | none => none
    | some g' => SummaryGen.runChecked f g' evs

/-- `engineSummary` with the panic explicit: `none` = the engine panicked on one of the events. -/
def engineSummaryChecked (f : Rat → Rat) (t0 : Int) (n m : Nat) (rf : Rat) (start now : Int)
    (iv : Interval) (evs : List Ev) : Option Summary :=
  ((EngState.init t0 n m).runChecked f evs).map fun s =>
    ((SummaryGen.init rf start now s).generate f iv).2

/-- `directSummary` with the panic explicit. -/
def directSummaryChecked (f : Rat → Rat) (t0 : Int) (n m : Nat) (rf : Rat) (iv : Interval)
    (evs : List Ev) : Option Summary :=
  ((SummaryGen.init rf t0 t0 (EngState.init t0 n m)).runChecked f evs).map fun g =>
    (g.generate f iv).2

/-- Interleaved requests, direct path, with the panic explicit (a `generate` never panics). -/
def SummaryGen.execChecked (f : Rat → Rat) : SummaryGen → List Op → Option (SummaryGen × List Summary)
  | g, [] => some (g, [])
  | g, .ev e :: ops =>
    match g.stepChecked f e with
    | none => none
    | some g' => SummaryGen.execChecked f g' ops
  | g, .gen iv :: ops =>
    let r := g.generate f iv
    (SummaryGen.execChecked f r.1 ops).map fun rest => (rest.1, r.2 :: rest.2)

/-- Interleaved requests, engine path, with the panic explicit. -/
def EngState.execChecked (f : Rat → Rat) (rf : Rat) (start now : Int) :
    EngState → List Op → Option (EngState × List Summary)
  | s, [] => some (s, [])
  | s, .ev e :: ops =>
    match s.stepChecked f e with
    | none => none
    | some s' => EngState.execChecked f rf start now s' ops
  | s, .gen iv :: ops =>
    (EngState.execChecked f rf start now s ops).map fun rest =>
      (rest.1, ((SummaryGen.init rf start now s).generate f iv).2 :: rest.2)

end BarterModel.KeyedSummary
