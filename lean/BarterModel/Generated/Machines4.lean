import BarterModel.Generated.Machines3
/-
GENERATED FILE -- DO NOT EDIT.  Fourth output file of tools/rust2lean_sm.py (same namespace as, and importing,
Generated/Machines3.lean): code that walks `Vec` / slice / `IndexMap` contents with ITERATOR chains, read through the
explicit iterator vocabulary of the prelude below (an iterator is the LIST of the items it will yield).  Rewritten
from the Rust source on every run of `./check` for the properties whose props/Cxx.py names a group of this file in
PREBUILD; the committed copy is the output for the pinned tree.  The agreement with the hand-written models is
proved in Lemmas/KernelsAgree/{AuditSeqSM,ExecMapSM,IndexerSM,FiltersActionsSM,SendRequestsSM}.lean (vocabulary lemmas: IterVocab.lean).

Source items (file :: item, line, hash of the item's source text):
  barter/src/lib.rs :: struct Sequence  (line 168)  sha256[:16]=09fbd23cd28020be
  barter/src/lib.rs :: impl Sequence :: fn value  (line 171)  sha256[:16]=ccb207a660572667
  barter/src/lib.rs :: impl Sequence :: fn fetch_add  (line 175)  sha256[:16]=0ac7938fdce54166
  barter/src/engine/audit/context.rs :: struct EngineContext  (line 10)  sha256[:16]=340b6a16121a8e21
  barter/src/engine/mod.rs :: struct EngineMeta  (line 117)  sha256[:16]=5a399fa491512f49
  barter/src/engine/audit/mod.rs :: struct AuditTick  (line 83)  sha256[:16]=23bd7aac02c858c8
  barter/src/engine/clock.rs :: trait EngineClock  (line 14)  sha256[:16]=d77801aef7bb8e8d
  barter/src/engine/mod.rs :: struct Engine  (line 106)  sha256[:16]=d5e4d69b18eea34e
  barter/src/engine/mod.rs :: impl Engine<Clock, State, ExecutionTxs, Strategy, Risk> :: fn new  (line 339)  sha256[:16]=49dba2e26af70266
  barter/src/engine/mod.rs :: impl Engine<Clock, State, ExecutionTxs, Strategy, Risk> :: fn time  (line 360)  sha256[:16]=c826c58125192419
  barter/src/engine/mod.rs :: impl Engine<Clock, State, ExecutionTxs, Strategy, Risk> :: fn reset_metadata  (line 365)  sha256[:16]=1ca93909299d6306
  barter/src/engine/audit/mod.rs :: impl Auditor<Audit> for Engine :: fn audit  (line 54)  sha256[:16]=9bff9fcd92a62b3c
  barter/src/engine/audit/mod.rs :: impl Auditor<Audit> for Engine :: fn audit_snapshot  (line 50)  sha256[:16]=1eba9a9c8e8d687a
  barter/src/engine/mod.rs :: trait Processor  (line 75)  sha256[:16]=3ecb4af9d0b2ebc8
  barter/src/engine/audit/mod.rs :: trait Auditor  (line 21)  sha256[:16]=21aab236760fb858
  barter/src/engine/mod.rs :: fn process_with_audit  (line 81)  sha256[:16]=9d280d8308d0b577
  barter/src/engine/state/mod.rs :: abstract EngineState  (line 60)  sha256[:16]=a6fc6fd2a3098195
  barter/src/engine/audit/state_replica.rs :: struct StateReplicaManager  (line 25)  sha256[:16]=cc219bac03536172
  barter/src/engine/audit/state_replica.rs :: impl StateReplicaManager<State, Updates> :: fn new  (line 33)  sha256[:16]=341dae2be174315e
  barter/src/engine/audit/state_replica.rs :: impl StateReplicaManager<EngineState<GlobalData, InstrumentData>, Updates> :: fn validate_and_update_context  (line 105)  sha256[:16]=0eb42a7638a27ea2
  barter-instrument/src/lib.rs :: struct Keyed  (line 48)  sha256[:16]=a884ed8e8f82c4aa
  barter-instrument/src/lib.rs :: derive_new Keyed  (line 48)  sha256[:16]=faf1d3e2a384ba61
  barter-instrument/src/asset/mod.rs :: struct AssetIndex  (line 22)  sha256[:16]=d088f1f26ee4c1cb
  barter-instrument/src/asset/mod.rs :: derive_new AssetIndex  (line 22)  sha256[:16]=bd59d62c381a8b72
  barter-instrument/src/asset/mod.rs :: impl AssetIndex :: fn index  (line 25)  sha256[:16]=b65d3121a6003b66
  barter-instrument/src/instrument/mod.rs :: struct InstrumentIndex  (line 50)  sha256[:16]=e0b082b2a1332cba
  barter-instrument/src/instrument/mod.rs :: derive_new InstrumentIndex  (line 50)  sha256[:16]=e0eae1e1f0f7d788
  barter-instrument/src/instrument/mod.rs :: impl InstrumentIndex :: fn index  (line 53)  sha256[:16]=b65d3121a6003b66
  barter-instrument/src/exchange.rs :: derive_new ExchangeIndex  (line 7)  sha256[:16]=aa7be8cec8d8caa4
  barter-instrument/src/asset/name.rs :: opaque AssetNameInternal  (line 13)  sha256[:16]=0682e38e61a100fc
  barter-instrument/src/instrument/name.rs :: opaque InstrumentNameInternal  (line 12)  sha256[:16]=ccf5c8ce141ce446
  barter-instrument/src/asset/mod.rs :: struct Asset  (line 67)  sha256[:16]=a3a9184044de0a6e
  barter-instrument/src/asset/mod.rs :: struct ExchangeAsset  (line 37)  sha256[:16]=054ac84300416317
  barter-instrument/src/instrument/quote.rs :: enum InstrumentQuoteAsset  (line 7)  sha256[:16]=7770fdb454b8c732
  barter-instrument/src/instrument/kind/perpetual.rs :: struct PerpetualContract  (line 14)  sha256[:16]=a12459df4abd3ba7
  barter-instrument/src/instrument/kind/future.rs :: struct FutureContract  (line 16)  sha256[:16]=f6ec5c950b8ef7be
  barter-instrument/src/instrument/kind/option.rs :: enum OptionKind  (line 34)  sha256[:16]=06ba91643b65511e
  barter-instrument/src/instrument/kind/option.rs :: enum OptionExercise  (line 57)  sha256[:16]=655fa68de0ff2d12
  barter-instrument/src/instrument/kind/option.rs :: struct OptionContract  (line 22)  sha256[:16]=23c9d0d4a7cb3d29
  barter-instrument/src/instrument/kind/mod.rs :: enum InstrumentKind  (line 22)  sha256[:16]=33f49dbd27e705d1
  barter-instrument/src/instrument/spec.rs :: struct InstrumentSpecPrice  (line 17)  sha256[:16]=75535f7c6574f2e0
  barter-instrument/src/instrument/spec.rs :: enum OrderQuantityUnits  (line 32)  sha256[:16]=c2c999598c147c95
  barter-instrument/src/instrument/spec.rs :: struct InstrumentSpecQuantity  (line 25)  sha256[:16]=10da2726c046ebbc
  barter-instrument/src/instrument/spec.rs :: struct InstrumentSpecNotional  (line 41)  sha256[:16]=ed708fa76c3d6b94
  barter-instrument/src/instrument/spec.rs :: struct InstrumentSpec  (line 8)  sha256[:16]=154650b68ba04faf
  barter-instrument/src/instrument/mod.rs :: struct Instrument  (line 67)  sha256[:16]=19811546cbe215af
  barter-instrument/src/index/error.rs :: enum IndexError  (line 7)  sha256[:16]=517e1ef7db3114c5
  barter-execution/src/error.rs :: enum KeyError  (line 120)  sha256[:16]=a03dc574d6a2ec19
  barter-instrument/src/index/mod.rs :: struct IndexedInstruments  (line 30)  sha256[:16]=647039fe6611f3ce
  barter-instrument/src/index/mod.rs :: impl IndexedInstruments :: fn exchanges  (line 67)  sha256[:16]=572a055e7f21db6a
  barter-instrument/src/index/mod.rs :: impl IndexedInstruments :: fn assets  (line 72)  sha256[:16]=f546d373fe79c9ea
  barter-instrument/src/index/mod.rs :: impl IndexedInstruments :: fn instruments  (line 77)  sha256[:16]=6ddff4a58b95d79e
  barter-execution/src/map.rs :: struct ExecutionInstrumentMap  (line 22)  sha256[:16]=0e55233f529d3380
  barter-execution/src/map.rs :: impl ExecutionInstrumentMap :: fn new  (line 32)  sha256[:16]=7d842c32be89fe11
  barter-execution/src/map.rs :: impl ExecutionInstrumentMap :: fn exchange_assets  (line 52)  sha256[:16]=c6141039c258c2a0
  barter-execution/src/map.rs :: impl ExecutionInstrumentMap :: fn exchange_instruments  (line 56)  sha256[:16]=38f5c4b4ea08f6fa
  barter-execution/src/map.rs :: impl ExecutionInstrumentMap :: fn find_exchange_id  (line 60)  sha256[:16]=378acb3f46bc1537
  barter-execution/src/map.rs :: impl ExecutionInstrumentMap :: fn find_exchange_index  (line 70)  sha256[:16]=a087876f84a8393d
  barter-execution/src/map.rs :: impl ExecutionInstrumentMap :: fn find_asset_name_exchange  (line 80)  sha256[:16]=908387e09abd9976
  barter-execution/src/map.rs :: impl ExecutionInstrumentMap :: fn find_asset_index  (line 89)  sha256[:16]=82d3c83104dce748
  barter-execution/src/map.rs :: impl ExecutionInstrumentMap :: fn find_instrument_name_exchange  (line 95)  sha256[:16]=2ac9848c41fc0ab3
  barter-execution/src/map.rs :: impl ExecutionInstrumentMap :: fn find_instrument_index  (line 106)  sha256[:16]=beb4cffd1d323b4f
  barter-execution/src/map.rs :: fn generate_execution_instrument_map  (line 121)  sha256[:16]=1f788b63a6c92831
  barter-execution/src/order/mod.rs :: alias UnindexedOrderKey  (line 36)  sha256[:16]=cbb934f0d470c046
  barter-execution/src/indexer.rs :: struct AccountEventIndexer  (line 33)  sha256[:16]=b946827b69478677
  barter-execution/src/indexer.rs :: impl AccountEventIndexer :: fn order_key  (line 188)  sha256[:16]=f672c8a19072a731
  barter-execution/src/indexer.rs :: impl AccountEventIndexer :: fn order_request  (line 222)  sha256[:16]=bf57a1209197f513
  barter-execution/src/indexer.rs :: impl AccountEventIndexer :: fn asset_balance  (line 111)  sha256[:16]=815a09a93f2110d9
  barter-execution/src/indexer.rs :: impl AccountEventIndexer :: fn trade  (line 270)  sha256[:16]=f0cff606ccf7cfa9
  barter-instrument/src/asset/mod.rs :: impl ExchangeAsset<Asset> :: fn new  (line 43)  sha256[:16]=24fa18b009c7ff6c
  barter-instrument/src/instrument/kind/mod.rs :: impl InstrumentKind<AssetKey> :: fn settlement_asset  (line 44)  sha256[:16]=e0a0326714d58e62
  barter-instrument/src/lib.rs :: impl Underlying<AssetKey> :: fn new  (line 79)  sha256[:16]=c7b6a6d470471a46
  barter-instrument/src/instrument/mod.rs :: impl Instrument<ExchangeKey, AssetKey> :: fn map_exchange_key  (line 134)  sha256[:16]=6e66293606631e60
  barter-instrument/src/instrument/mod.rs :: impl Instrument<ExchangeKey, AssetKey> :: fn map_asset_key_with_lookup  (line 160)  sha256[:16]=a50c107a9a5bd0b3
  barter-instrument/src/index/mod.rs :: fn find_exchange_by_exchange_id  (line 185)  sha256[:16]=8383b29189a6cafe
  barter-instrument/src/index/mod.rs :: fn find_asset_by_exchange_and_name_internal  (line 198)  sha256[:16]=6a3b3ede2e5b4a7a
  barter-instrument/src/index/builder.rs :: struct IndexedInstrumentsBuilder  (line 12)  sha256[:16]=881c65cc3a729ddd
  barter-instrument/src/index/builder.rs :: derive_default IndexedInstrumentsBuilder  (line 12)  sha256[:16]=db2638d2e5b91080
  barter-instrument/src/index/builder.rs :: impl IndexedInstrumentsBuilder :: fn new  (line 19)  sha256[:16]=7c4c5d09ed8053e5
  barter-instrument/src/index/builder.rs :: impl IndexedInstrumentsBuilder :: fn add_instrument  (line 23)  sha256[:16]=a8d1135163364ad1
  barter-instrument/src/index/builder.rs :: impl IndexedInstrumentsBuilder :: fn build  (line 62)  sha256[:16]=7d9ac634b7bf2944
  barter-instrument/src/index/mod.rs :: impl IndexedInstruments :: fn builder  (line 62)  sha256[:16]=0580562ef3773de4
  barter-instrument/src/index/mod.rs :: impl IndexedInstruments :: fn new  (line 47)  sha256[:16]=978fe6b06827d773
  barter-instrument/src/index/mod.rs :: impl IndexedInstruments :: fn find_exchange_index  (line 91)  sha256[:16]=2ff0d9baae4a8567
  barter-instrument/src/index/mod.rs :: impl IndexedInstruments :: fn find_exchange  (line 95)  sha256[:16]=18ebe548746f8c5b
  barter-instrument/src/index/mod.rs :: impl IndexedInstruments :: fn find_asset_index  (line 114)  sha256[:16]=ffa389aedcdb7b2a
  barter-instrument/src/index/mod.rs :: impl IndexedInstruments :: fn find_asset  (line 122)  sha256[:16]=a484caf19c924021
  barter-instrument/src/index/mod.rs :: impl IndexedInstruments :: fn find_instrument_index  (line 142)  sha256[:16]=c6ec355cf6ffeaeb
  barter-instrument/src/index/mod.rs :: impl IndexedInstruments :: fn find_instrument  (line 159)  sha256[:16]=8f3082c0021f2b8b
  barter/src/engine/state/instrument/filter.rs :: enum InstrumentFilter  (line 11)  sha256[:16]=aa105573ff5ce9c3
  barter/src/engine/state/instrument/filter.rs :: impl InstrumentFilter<ExchangeKey, AssetKey, InstrumentKey> :: fn exchanges  (line 23)  sha256[:16]=5725e4d730163c1c
  barter/src/engine/state/instrument/filter.rs :: impl InstrumentFilter<ExchangeKey, AssetKey, InstrumentKey> :: fn instruments  (line 27)  sha256[:16]=f28e87153f2df0e1
  barter/src/engine/state/instrument/filter.rs :: impl InstrumentFilter<ExchangeKey, AssetKey, InstrumentKey> :: fn underlyings  (line 31)  sha256[:16]=62c6fb9224b5d1ff
  barter/src/engine/state/instrument/data.rs :: trait InstrumentDataState  (line 29)  sha256[:16]=8c8c8f181ddd1fb7
  barter/src/engine/state/instrument/mod.rs :: struct InstrumentState  (line 246)  sha256[:16]=46968799ad50a2a6
  barter/src/engine/state/instrument/mod.rs :: struct InstrumentStates  (line 47)  sha256[:16]=0b80631e7aaddeb7
  barter/src/engine/state/instrument/mod.rs :: impl InstrumentStates<InstrumentData> :: fn filtered  (line 181)  sha256[:16]=25b354f7b99e37b4
  barter/src/engine/state/instrument/mod.rs :: impl InstrumentStates<InstrumentData> :: fn instruments  (line 107)  sha256[:16]=d0f18d0c20b3dd0b
  barter/src/engine/state/instrument/mod.rs :: impl InstrumentStates<InstrumentData> :: fn tear_sheets  (line 125)  sha256[:16]=aa1091a282f71124
  barter/src/engine/state/instrument/mod.rs :: impl InstrumentStates<InstrumentData> :: fn positions  (line 137)  sha256[:16]=d8a8f199a3693ae9
  barter/src/engine/state/instrument/mod.rs :: impl InstrumentStates<InstrumentData> :: fn orders  (line 149)  sha256[:16]=b684215e96b92640
  barter/src/engine/state/instrument/mod.rs :: impl InstrumentStates<InstrumentData> :: fn instrument_datas  (line 158)  sha256[:16]=04f77382c42e4eb8
  barter/src/engine/state/order/mod.rs :: impl OrderManager<ExchangeKey, InstrumentKey> for Orders<ExchangeKey, InstrumentKey> :: fn orders  (line 55)  sha256[:16]=b3a6c3217088b7c9
  barter-execution/src/order/mod.rs :: impl Order<ExchangeKey, InstrumentKey, ActiveOrderState> :: fn to_request_cancel  (line 137)  sha256[:16]=d2ed599679187f21
  barter/src/engine/state/mod.rs :: struct EngineState  (line 60)  sha256[:16]=a6fc6fd2a3098195
  barter/src/strategy/close_positions.rs :: fn build_ioc_market_order_to_close_position  (line 102)  sha256[:16]=3adcffc9a31a3a62
  barter/src/strategy/close_positions.rs :: fn close_open_positions_with_market_orders  (line 63)  sha256[:16]=acdf665a80c7015f
  barter/src/engine/error.rs :: enum RecoverableEngineError  (line 24)  sha256[:16]=67042dd0ce2c1b60
  barter/src/engine/error.rs :: enum UnrecoverableEngineError  (line 34)  sha256[:16]=c57ef6ebf92e56f0
  barter/src/engine/error.rs :: enum EngineError  (line 12)  sha256[:16]=672ae43586cfd7ce
  barter/src/execution/request.rs :: enum ExecutionRequest  (line 13)  sha256[:16]=3ab0cbecdcb31e1f
  barter-integration/src/lib.rs :: trait Unrecoverable  (line 85)  sha256[:16]=eabdf96fe386f874
  barter-integration/src/channel.rs :: trait Tx  (line 12)  sha256[:16]=323b0e33c4541fb9
  barter/src/engine/execution_tx.rs :: trait ExecutionTxMap  (line 17)  sha256[:16]=c3489b314ea79a1b
  barter/src/engine/action/send_requests.rs :: struct SendRequestsOutput  (line 160)  sha256[:16]=59bbbb3bd31a3bd6
  barter/src/engine/action/send_requests.rs :: derive_new SendRequestsOutput  (line 160)  sha256[:16]=a6b42936f8fe8653
  barter/src/engine/action/send_requests.rs :: impl SendRequestsOutput<Kind, ExchangeKey, InstrumentKey> :: fn is_empty  (line 167)  sha256[:16]=6d09d8013965ac8e
  barter/src/engine/action/send_requests.rs :: impl SendRequestsOutput<Kind, ExchangeKey, InstrumentKey> :: fn unrecoverable_errors  (line 172)  sha256[:16]=0cd00a05da44f7d5
  barter/src/engine/action/send_requests.rs :: struct SendCancelsAndOpensOutput  (line 126)  sha256[:16]=ff3f2e6a77220e8a
  barter/src/engine/action/send_requests.rs :: derive_new SendCancelsAndOpensOutput  (line 126)  sha256[:16]=439fa6ec383ff97f
  barter/src/engine/action/send_requests.rs :: impl SendCancelsAndOpensOutput<ExchangeKey, InstrumentKey> :: fn is_empty  (line 135)  sha256[:16]=77055367fad05ea6
  barter/src/engine/action/send_requests.rs :: impl SendCancelsAndOpensOutput<ExchangeKey, InstrumentKey> :: fn unrecoverable_errors  (line 140)  sha256[:16]=733645641bd88087
  barter/src/engine/action/send_requests.rs :: impl SendRequests<ExchangeKey, InstrumentKey> for Engine :: fn send_request  (line 75)  sha256[:16]=37ba7b58dcd4b2ca
  barter/src/engine/action/send_requests.rs :: impl SendRequests<ExchangeKey, InstrumentKey> for Engine :: fn send_requests  (line 53)  sha256[:16]=82cf6fd2ab91237d
-/
set_option linter.unusedVariables false   -- e.g. a binder that only a log macro reads
namespace BarterModel.Generated.Machines

/-! ## Prelude, continued: vocabulary added for the groups of this file (trusted like the preludes of Machines.lean ..
Machines3.lean)

* `a - b` on `u64` is `Rust.u64_sub a b`: the difference when `b <= a`, a PANIC (`Rust.unreachable`) otherwise -- the
  arithmetic-overflow panic of a build with overflow checks (debug); a release build wraps around instead, which is
  not modelled (like every other overflow).  An agreement theorem about a function that subtracts therefore only holds
  where the subtraction cannot underflow.
* ITERATORS ARE LISTS.  An iterator value is the LIST of the items it will yield, in order: `v.iter()` / `v.into_iter()` on a
  `Vec<T>` or slice `&[T]` is the list itself; on an `IndexMap<K, V>` (insertion order IS meaningful) `m.iter()` is the list of
  its pairs, `m.keys()` / `m.values()` the lists of their components; `o.iter()` / `o.into_iter()` on an `Option` is
  `Option.toList`.  `HashMap::iter()` / `keys()` / `values()` stay REJECTED (hash order is not modelled) except
  `values().all(p)` / `.any(p)` (Machines3.lean).  The adaptors are the list functions of core Lean, consumed at once:
  `map` `List.map`, `filter` `List.filter`, `filter_map` `List.filterMap`, `find` `List.find?`, `find_map` `List.findSome?`,
  `any` / `all` `List.any` / `List.all`, `flat_map(f)` `List.flatten (List.map f ..)` (`List.filterMap f` when `f` yields an
  `Option`), `flatten`, `chain` `++`, `zip` `List.zip`, `count` `List.length`, `cloned` / `copied` the identity,
  `enumerate` `Rust.Iter.enumerate` (pairs `(index, item)` from 0), `position(p)` `Rust.Iter.position` (index of the first
  item satisfying `p`).  On a `Vec` / slice: `len`, `is_empty`, `contains`, `first`, `last`, `get(i)`.
  LAZINESS IS NOT MODELLED, and need not be: a closure is accepted only as a PURE function value -- an expression (or a block
  with early exits: `let x = e?;`, `return None`) over its parameter and the variables in scope, which it can read but never
  assign, with no state-changing call inside -- so neither the number of times nor the moment it is evaluated can be observed,
  and for code the borrow checker accepts no variable it reads can change while the iterator is alive.  A path naming a
  one-argument function / method / variant (`Type::method`, `Enum::Variant`) is the same function value.
* `collect()`: into a `Vec` the list itself; into an `IndexMap` `Rust.IndexMap.collect` -- `insert` of every pair in order,
  where `Rust.IndexMap.insert` REPLACES THE VALUE IN PLACE when the key is present (the pair keeps the POSITION of its first
  occurrence, the LAST value wins) and appends a new key at the end: the documented semantics of indexmap's
  `FromIterator` / `Extend` ("equivalent to calling insert for each of them in order ... their value is updated but it keeps
  the existing order ... the last corresponding value prevails", indexmap-2.x src/map.rs); into a `HashMap` / `FnvHashMap`
  `Rust.Map.collect`, `Rust.Map.insert` of every pair in order (last value wins; position has no meaning).  The target
  collection is what the context says (a field / parameter type, a `let` annotation, `collect::<Vec<_>>()`).
  Lemmas/KernelsAgree/IterVocab.lean proves what these definitions amount to (`get` of a collected map is the LAST pair with
  that key, its keys are the distinct keys in order of first occurrence, `position` / `enumerate` index from 0, ...).
* `&[T]` is `List T` like `Vec<T>`; `_` in a type is left to the context.
* `v.sort()` on a `Vec<T>` is `List.mergeSort v Ord_T` where `Ord_T : T → T → Bool` is an EXPLICIT PARAMETER standing for
  `a <= b` of `T`'s `Ord` impl, which is NOT translated (`#[derive(Ord)]`: lexicographic in field / variant order): core's
  `mergeSort` is a stable sort, and for a total preorder the stable sorted permutation is unique, so this is what Rust's
  (stable) `slice::sort` returns whenever `Ord_T` is a total preorder; for any other `Ord_T` nothing is claimed (Rust leaves
  the order unspecified and may panic).  `v.dedup()` is `Rust.Vec.dedup`: of every run of consecutive EQUAL elements the
  first is kept (`PartialEq` of a fully translated type is `=`).  `iter.fold(init, |acc, x| e)` is `List.foldl`.
* A parameter of function type -- `f: impl Fn(&A) -> R`, or `f: F` with `F: Fn(&A) -> R` in the `where` clause -- is a PURE
  function value `A → R`; `f(a)` applies it; a closure passed for it is translated like the closures of the adaptors.
  `iter: impl IntoIterator<Item = X>` / `I: IntoIterator<Item = X>` is the list of the items.
* `let xs = it.collect();` whose target collection only a LATER use determines (`S { xs, .. }`) binds the item list; it is
  converted where it is used at a collection type (Rust infers the one target from that use as well).
* `res.expect(..)` / `res.unwrap()` on a `Result`: the `Err` arm is `Rust.unreachable`; `res.ok()` forgets the error.
* barter-integration's `OneOrMany<T>` / `NoneOneOrMany<T>` (another crate; modelled and tied to the code by the sub-check C03N)
  are part of the FIXED vocabulary: `Rust.OneOrMany` / `Rust.NoneOneOrMany` below with `contains`, `iter` / `as_ref` (`to_list`),
  `len`, `is_none` / `is_empty`, `from(Vec)` / `from_iter` / `collect()` (by the number of items), `from(Option)`, `default()`,
  the constructors and `extend` (arm by arm as in the source).  `itertools::Either::Left(it)` / `Right(it)` of two iterator
  types with the same item is the wrapped iterator; `std::iter::empty()` / `once(x)` are `[]` / `[x]`.
* An element-wise adaptor (`map`, `filter`, `filter_map`) of the UNORDERED `values()` of a `HashMap` stays a `Rust.Bag`, and so
  does `flat_map` with a closure that yields one: hash order still cannot be observed -- handing such a collection on where an
  ORDERED iterator is required (`impl IntoIterator`, `collect()` into a `Vec`, ..) is rejected.
* `for x in <ordered iterator> { body }` is a LEFT FOLD over the items, in order, whose state is the tuple of the mutable
  variables the body mentions: `List.foldl (fun state x => body; state') state items`.  The body may assign, `push`, call
  `&mut self` methods and branch; `return` / `?` inside it are rejected, `break` / `continue` / `while` / `loop` stay
  rejected, and so does a `for` over a `HashMap`.  `let mut v = Vec::new();` may get its element type from a later `push`.
* `format!`: an argument that has no coding as a `Rust.FmtArg` (a struct, a list, ..) is not recorded (the text of a message
  is not modelled).
* `a == b` / `a != b` on values of a FULLY translated struct whose `#[derive(..)]` lists `PartialEq` is field-wise equality:
  Lean's `=` (decidable by the derived `DecidableEq`).
* A struct that an earlier generated file has in a RESTRICTED form (`Instrument`, of which Machines3.lean keeps `underlying`)
  or as an opaque identifier (`Asset`) is translated again, in full, under another Lean name (item option `as`:
  `InstrumentFull`, `AssetFull`); in the groups of this file the Rust name means that full translation.
* A type parameter of a fn that is named like a translated type (`fn process_with_audit<Event, Engine>`) is renamed `<name>T`
  throughout the item.  An item of kind `abstract` (`EngineState`) is a type of the source that is NOT translated: it is a
  type parameter `{Name : Type}` of every definition that mentions it (its values are only stored and moved).
* TRAITS: a (generic) trait is the record of its methods, its type parameters being `Self`, the trait's own and its
  associated types; `fn m(&mut self, x) -> R` is the field `m : Self → X → Self × R`; a method with type parameters of its own
  and a bound `P: From<K>` is a polymorphic field taking the conversion `K → P` explicitly.  In a fn, `T: Trait<A, Name = Ty>`
  of its `where` clause makes `x.m(..)` on a value of the type parameter `T` the field `m` of the explicit parameter
  `T_Trait : Trait T A <associated types>`; `T::Name` is `Ty` if the bound binds it, else a further type parameter `T_Name`.
  `T::from(x)` with `T: From<U>` is the explicit parameter `T_from : U → T`, which every translated caller supplies (the
  identity where `U` is `T`).  Which `impl` a call resolves to is NOT modelled: agreement theorems quantify over the records
  or plug in the generated methods of the `impl` by hand (stated where they do).
* A state-changing call (`&mut self` method, `push`, ..) BELOW the top of an expression, in a position that is always
  evaluated, is taken out as `let call_n = <call>;` in evaluation order, provided nothing evaluated before it in that
  expression reads the variable it changes.
-/

/-- `a - b` on `u64` (see above). -/
def Rust.u64_sub (a b : Nat) : Nat := if b ≤ a then a - b else Rust.unreachable

/-- `m.keys()` on an `IndexMap`: the keys in insertion order. -/
def Rust.IndexMap.keys {K V : Type} (m : Rust.IndexMap K V) : List K := m.map (·.1)

/-- `m.insert(k, v)` on an `IndexMap` (the map afterwards): the value replaced IN PLACE if the key is present, else the pair
appended. -/
def Rust.IndexMap.insert {K V : Type} [DecidableEq K] (m : Rust.IndexMap K V) (k : K) (v : V) : Rust.IndexMap K V :=
  match m with
  | [] => [(k, v)]
  | (k', v') :: rest => if k' = k then (k', v) :: rest else (k', v') :: Rust.IndexMap.insert rest k v

/-- `iter.collect::<IndexMap<K, V>>()`: `insert` of every pair, in order. -/
def Rust.IndexMap.collect {K V : Type} [DecidableEq K] (l : List (K × V)) : Rust.IndexMap K V :=
  l.foldl (fun m kv => Rust.IndexMap.insert m kv.1 kv.2) []

/-- `iter.collect::<HashMap<K, V>>()`: `insert` of every pair, in order (the last value of a key wins). -/
def Rust.Map.collect {K V : Type} [DecidableEq K] (l : List (K × V)) : Rust.Map K V :=
  l.foldl (fun m kv => Rust.Map.insert m kv.1 kv.2) []

/-- `v.dedup()`: consecutive repeated elements removed (the first of a run is kept; `PartialEq` of a fully translated type
is `=`). -/
def Rust.Vec.dedup {T : Type} [DecidableEq T] : List T → List T
  | [] => []
  | [a] => [a]
  | a :: b :: t => if a = b then Rust.Vec.dedup (b :: t) else a :: Rust.Vec.dedup (b :: t)

/-- barter-integration `OneOrMany<T>` (collection/one_or_many.rs): part of the FIXED vocabulary (not regenerated; the sub-check
C03N models the two collection types and ties them to the code). -/
inductive Rust.OneOrMany (T : Type) where
  | One (x : T)
  | Many (xs : List T)
  deriving DecidableEq, Repr

/-- `as_ref()` / `iter()` / `into_iter()` / `into_vec()`: the items in order. -/
def Rust.OneOrMany.to_list {T : Type} : Rust.OneOrMany T → List T
  | .One x => [x]
  | .Many xs => xs

/-- `OneOrMany::contains`. -/
def Rust.OneOrMany.contains {T : Type} [DecidableEq T] (c : Rust.OneOrMany T) (x : T) : Bool :=
  match c with
  | .One v => decide (v = x)
  | .Many vs => List.elem x vs

/-- `OneOrMany::from_iter`: exactly one item is `One`, anything else -- the EMPTY iterator too -- is `Many`. -/
def Rust.OneOrMany.from_iter {T : Type} : List T → Rust.OneOrMany T
  | [x] => .One x
  | xs => .Many xs

/-- barter-integration `NoneOneOrMany<T>` (collection/none_one_or_many.rs): fixed vocabulary like `OneOrMany`. -/
inductive Rust.NoneOneOrMany (T : Type) where
  | None
  | One (x : T)
  | Many (xs : List T)
  deriving DecidableEq, Repr

instance {T : Type} : Inhabited (Rust.NoneOneOrMany T) := ⟨.None⟩

def Rust.NoneOneOrMany.to_list {T : Type} : Rust.NoneOneOrMany T → List T
  | .None => []
  | .One x => [x]
  | .Many xs => xs

def Rust.NoneOneOrMany.is_none {T : Type} : Rust.NoneOneOrMany T → Bool
  | .None => true
  | _ => false

def Rust.NoneOneOrMany.contains {T : Type} [DecidableEq T] (c : Rust.NoneOneOrMany T) (x : T) : Bool :=
  List.elem x c.to_list

/-- `NoneOneOrMany::from(Vec)` = `from_iter`: by the number of items 0 / 1 / more. -/
def Rust.NoneOneOrMany.from_vec {T : Type} : List T → Rust.NoneOneOrMany T
  | [] => .None
  | [x] => .One x
  | xs => .Many xs

def Rust.NoneOneOrMany.from_iter {T : Type} (l : List T) : Rust.NoneOneOrMany T := Rust.NoneOneOrMany.from_vec l

def Rust.NoneOneOrMany.from_option {T : Type} : Option T → Rust.NoneOneOrMany T
  | none => .None
  | some x => .One x

/-- `NoneOneOrMany::extend(self, other)` arm by arm as in the source: NOTE `(One(left), Many(right))` pushes `left` LAST. -/
def Rust.NoneOneOrMany.extend {T : Type} (self : Rust.NoneOneOrMany T) (other : List T) : Rust.NoneOneOrMany T :=
  match self, Rust.NoneOneOrMany.from_iter other with
  | .None, right => right
  | left, .None => left
  | .One l, .One r => .Many [l, r]
  | .One l, .Many r => .Many (r ++ [l])
  | .Many l, .One r => .Many (l ++ [r])
  | .Many l, .Many r => .Many (l ++ r)

/-- itertools `partition_result()`: the `Ok` payloads and the `Err` payloads, each in the order of the iterator. -/
def Rust.Iter.partition_result {T E : Type} : List (Except E T) → List T × List E
  | [] => ([], [])
  | Except.ok x :: rest => ((x :: (Rust.Iter.partition_result rest).1), (Rust.Iter.partition_result rest).2)
  | Except.error e :: rest => ((Rust.Iter.partition_result rest).1, (e :: (Rust.Iter.partition_result rest).2))

/-- `iter.enumerate()` counting from `i`. -/
def Rust.Iter.enumerate_from {T : Type} (i : Nat) : List T → List (Nat × T)
  | [] => []
  | x :: xs => (i, x) :: Rust.Iter.enumerate_from (i + 1) xs

/-- `iter.enumerate()`: `(0, x0), (1, x1), ..`. -/
def Rust.Iter.enumerate {T : Type} (l : List T) : List (Nat × T) := Rust.Iter.enumerate_from 0 l

/-- `iter.position(p)`: the index of the first item satisfying `p`. -/
def Rust.Iter.position {T : Type} (p : T → Bool) : List T → Option Nat
  | [] => none
  | x :: xs => if p x then some 0 else (Rust.Iter.position p xs).map (· + 1)

/-! ## barter/src/lib.rs -/

/-- generated from `struct Sequence` (barter/src/lib.rs:168) -/
structure Sequence where
  f0 : Nat
  deriving DecidableEq, Repr

/-- generated from `impl Sequence :: fn value` (barter/src/lib.rs:171) -/
@[gen_audit_seq] def Sequence.value (self : Sequence) : Nat :=
  self.f0

/-- generated from `impl Sequence :: fn fetch_add` (barter/src/lib.rs:175) -/
@[gen_audit_seq] def Sequence.fetch_add (self : Sequence) : Sequence × Sequence :=
  let sequence : Sequence := self
  let self : Sequence := { self with f0 := (self.f0 + 1) }
  (self, sequence)

/-! ## barter/src/engine/audit/context.rs -/

/-- generated from `struct EngineContext` (barter/src/engine/audit/context.rs:10) -/
structure EngineContext where
  sequence : Sequence
  time : Int
  deriving DecidableEq, Repr

/-! ## barter/src/engine/mod.rs -/

/-- generated from `struct EngineMeta` (barter/src/engine/mod.rs:117) -/
structure EngineMeta where
  time_start : Int
  sequence : Sequence
  deriving DecidableEq, Repr

/-! ## barter/src/engine/audit/mod.rs -/

/-- generated from `struct AuditTick` (barter/src/engine/audit/mod.rs:83) -/
structure AuditTick (Kind : Type) (Context : Type) where
  event : Kind
  context : Context
  deriving DecidableEq, Repr

/-! ## barter/src/engine/clock.rs -/

-- a trait as the record of its methods (type parameters: Self, the trait's own, its associated types): a call `x.m(..)` on a value of a type parameter `T` is `T_EngineClock.m x ..` of an explicit parameter `T_EngineClock : EngineClock T ..` (nothing is assumed about the implementation); `&mut self` methods return the new `Self` with their result
/-- generated from `trait EngineClock` (barter/src/engine/clock.rs:14) -/
structure EngineClock (Self : Type) where
  time : Self → Int

/-! ## barter/src/engine/mod.rs -/

/-- generated from `struct Engine` (barter/src/engine/mod.rs:106) -/
structure Engine (Clock : Type) (State : Type) (ExecutionTxs : Type) (Strategy : Type) (Risk : Type) where
  clock : Clock
  «meta» : EngineMeta
  state : State
  execution_txs : ExecutionTxs
  strategy : Strategy
  risk : Risk
  deriving DecidableEq, Repr

/-- generated from `impl Engine<Clock, State, ExecutionTxs, Strategy, Risk> :: fn new` (barter/src/engine/mod.rs:339) -/
@[gen_audit_seq] def Engine.new {Clock : Type} [DecidableEq Clock] {State : Type} [DecidableEq State] {ExecutionTxs : Type} [DecidableEq ExecutionTxs] {Strategy : Type} [DecidableEq Strategy] {Risk : Type} [DecidableEq Risk] (Clock_EngineClock : EngineClock Clock) (clock : Clock) (state : State) (execution_txs : ExecutionTxs) (strategy : Strategy) (risk : Risk) : Engine Clock State ExecutionTxs Strategy Risk :=
  { clock := clock, «meta» := { time_start := (Clock_EngineClock.time clock), sequence := (Sequence.mk 0) : EngineMeta }, state := state, execution_txs := execution_txs, strategy := strategy, risk := risk : Engine Clock State ExecutionTxs Strategy Risk }

/-- generated from `impl Engine<Clock, State, ExecutionTxs, Strategy, Risk> :: fn time` (barter/src/engine/mod.rs:360) -/
@[gen_audit_seq] def Engine.time {Clock : Type} [DecidableEq Clock] {State : Type} [DecidableEq State] {ExecutionTxs : Type} [DecidableEq ExecutionTxs] {Strategy : Type} [DecidableEq Strategy] {Risk : Type} [DecidableEq Risk] (Clock_EngineClock : EngineClock Clock) (self : Engine Clock State ExecutionTxs Strategy Risk) : Int :=
  (Clock_EngineClock.time self.clock)

/-- generated from `impl Engine<Clock, State, ExecutionTxs, Strategy, Risk> :: fn reset_metadata` (barter/src/engine/mod.rs:365) -/
@[gen_audit_seq] def Engine.reset_metadata {Clock : Type} [DecidableEq Clock] {State : Type} [DecidableEq State] {ExecutionTxs : Type} [DecidableEq ExecutionTxs] {Strategy : Type} [DecidableEq Strategy] {Risk : Type} [DecidableEq Risk] (Clock_EngineClock : EngineClock Clock) (self : Engine Clock State ExecutionTxs Strategy Risk) : Engine Clock State ExecutionTxs Strategy Risk :=
  let self : Engine Clock State ExecutionTxs Strategy Risk := { self with «meta» := { self.«meta» with time_start := (Clock_EngineClock.time self.clock) } }
  let self : Engine Clock State ExecutionTxs Strategy Risk := { self with «meta» := { self.«meta» with sequence := (Sequence.mk 0) } }
  self

/-! ## barter/src/engine/audit/mod.rs -/

/-- generated from `impl Auditor<Audit> for Engine :: fn audit` (barter/src/engine/audit/mod.rs:54) -/
@[gen_audit_seq] def Engine.audit {Audit : Type} [DecidableEq Audit] {Clock : Type} [DecidableEq Clock] {State : Type} [DecidableEq State] {ExecutionTxs : Type} [DecidableEq ExecutionTxs] {Strategy : Type} [DecidableEq Strategy] {Risk : Type} [DecidableEq Risk] {Kind : Type} [DecidableEq Kind] (Audit_from : Kind → Audit) (Clock_EngineClock : EngineClock Clock) (self : Engine Clock State ExecutionTxs Strategy Risk) (kind : Kind) : (Engine Clock State ExecutionTxs Strategy Risk) × AuditTick Audit EngineContext :=
  let call_2 := Sequence.fetch_add self.«meta».sequence
  let self : Engine Clock State ExecutionTxs Strategy Risk := { self with «meta» := { self.«meta» with sequence := call_2.1 } }
  let call_1 : Sequence := call_2.2
  (self, { event := (Audit_from kind), context := { sequence := call_1, time := (Clock_EngineClock.time self.clock) : EngineContext } : AuditTick Audit EngineContext })

/-- generated from `impl Auditor<Audit> for Engine :: fn audit_snapshot` (barter/src/engine/audit/mod.rs:50) -/
@[gen_audit_seq] def Engine.audit_snapshot {Clock : Type} [DecidableEq Clock] {State : Type} [DecidableEq State] {ExecutionTxs : Type} [DecidableEq ExecutionTxs] {Strategy : Type} [DecidableEq Strategy] {Risk : Type} [DecidableEq Risk] (Clock_EngineClock : EngineClock Clock) (self : Engine Clock State ExecutionTxs Strategy Risk) : (Engine Clock State ExecutionTxs Strategy Risk) × AuditTick State EngineContext :=
  let call_1 := Engine.audit (fun x_1 => x_1) Clock_EngineClock self self.state
  let self : Engine Clock State ExecutionTxs Strategy Risk := call_1.1
  (self, call_1.2)

/-! ## barter/src/engine/mod.rs -/

-- a trait as the record of its methods (type parameters: Self, the trait's own, its associated types): a call `x.m(..)` on a value of a type parameter `T` is `T_Processor.m x ..` of an explicit parameter `T_Processor : Processor T ..` (nothing is assumed about the implementation); `&mut self` methods return the new `Self` with their result
/-- generated from `trait Processor` (barter/src/engine/mod.rs:75) -/
structure Processor (Self : Type) (Event : Type) (Audit : Type) where
  process : Self → Event → Self × Audit

/-! ## barter/src/engine/audit/mod.rs -/

-- a trait as the record of its methods (type parameters: Self, the trait's own, its associated types): a call `x.m(..)` on a value of a type parameter `T` is `T_Auditor.m x ..` of an explicit parameter `T_Auditor : Auditor T ..` (nothing is assumed about the implementation); `&mut self` methods return the new `Self` with their result
/-- generated from `trait Auditor` (barter/src/engine/audit/mod.rs:21) -/
structure Auditor (Self : Type) (AuditKind : Type) (Snapshot : Type) (Context : Type) where
  audit_snapshot : Self → Self × AuditTick Snapshot Context
  audit : {Kind : Type} → [DecidableEq Kind] → (Kind → AuditKind) → Self → Kind → Self × AuditTick AuditKind Context

/-! ## barter/src/engine/mod.rs -/

/-- generated from `fn process_with_audit` (barter/src/engine/mod.rs:81) -/
@[gen_audit_seq] def process_with_audit {Event : Type} [DecidableEq Event] {EngineT : Type} [DecidableEq EngineT] {EngineT_Audit : Type} [DecidableEq EngineT_Audit] {EngineT_Snapshot : Type} [DecidableEq EngineT_Snapshot] (EngineT_Processor : Processor EngineT Event EngineT_Audit) (EngineT_Auditor : Auditor EngineT EngineT_Audit EngineT_Snapshot EngineContext) (engine : EngineT) (event : Event) : EngineT × AuditTick EngineT_Audit EngineContext :=
  let call_1 := EngineT_Processor.process engine event
  let engine : EngineT := call_1.1
  let output : EngineT_Audit := call_1.2
  let call_2 := EngineT_Auditor.audit (fun x_1 => x_1) engine output
  let engine : EngineT := call_2.1
  (engine, call_2.2)

/-! ## barter/src/engine/state/mod.rs -/

-- `abstract EngineState` (barter/src/engine/state/mod.rs:60) abstract: NOT translated; `EngineState` (its type arguments ignored) is a type PARAMETER `{EngineState : Type}` of every definition below that mentions it: its values are only stored and moved

/-! ## barter/src/engine/audit/state_replica.rs -/

/-- generated from `struct StateReplicaManager` (barter/src/engine/audit/state_replica.rs:25) -/
structure StateReplicaManager (State : Type) (Updates : Type) where
  meta_start : EngineMeta
  state_replica : AuditTick State EngineContext
  updates : Updates
  deriving DecidableEq, Repr

/-- generated from `impl StateReplicaManager<State, Updates> :: fn new` (barter/src/engine/audit/state_replica.rs:33) -/
@[gen_audit_seq] def StateReplicaManager.new {State : Type} [DecidableEq State] {Updates : Type} [DecidableEq Updates] (snapshot : AuditTick State EngineContext) (updates : Updates) : StateReplicaManager State Updates :=
  { meta_start := { time_start := snapshot.context.time, sequence := snapshot.context.sequence : EngineMeta }, state_replica := snapshot, updates := updates : StateReplicaManager State Updates }

/-- generated from `impl StateReplicaManager<EngineState<GlobalData, InstrumentData>, Updates> :: fn validate_and_update_context` (barter/src/engine/audit/state_replica.rs:105) -/
@[gen_audit_seq] def StateReplicaManager.validate_and_update_context {Updates : Type} [DecidableEq Updates] {EngineState : Type} [DecidableEq EngineState] (self : StateReplicaManager EngineState Updates) (next : EngineContext) : (StateReplicaManager EngineState Updates) × Except Rust.Str Unit :=
  (if ((Sequence.value self.state_replica.context.sequence) ≠ (Rust.u64_sub (Sequence.value next.sequence) 1)) then
    (self, (Except.error (Rust.Str.mk [Rust.FmtArg.nat next.sequence.f0, Rust.FmtArg.nat self.state_replica.context.sequence.f0])))
  else
    let self : StateReplicaManager EngineState Updates := { self with state_replica := { self.state_replica with context := next } }
    (self, (Except.ok ())))

/-! ## barter-instrument/src/lib.rs -/

/-- generated from `struct Keyed` (barter-instrument/src/lib.rs:48) -/
structure Keyed (Key : Type) (Value : Type) where
  key : Key
  value : Value
  deriving DecidableEq, Repr

/-- generated from `derive_new Keyed` (barter-instrument/src/lib.rs:48) -/
@[gen_exec_map, gen_indexer] def Keyed.new {Key : Type} [DecidableEq Key] {Value : Type} [DecidableEq Value] (key : Key) (value : Value) : Keyed Key Value :=
  { key := key, value := value }

/-! ## barter-instrument/src/asset/mod.rs -/

/-- generated from `struct AssetIndex` (barter-instrument/src/asset/mod.rs:22) -/
structure AssetIndex where
  f0 : Nat
  deriving DecidableEq, Repr

/-- generated from `derive_new AssetIndex` (barter-instrument/src/asset/mod.rs:22) -/
@[gen_exec_map, gen_indexer] def AssetIndex.new (f0 : Nat) : AssetIndex :=
  { f0 := f0 }

/-- generated from `impl AssetIndex :: fn index` (barter-instrument/src/asset/mod.rs:25) -/
@[gen_exec_map, gen_indexer] def AssetIndex.index (self : AssetIndex) : Nat :=
  self.f0

/-! ## barter-instrument/src/instrument/mod.rs -/

/-- generated from `struct InstrumentIndex` (barter-instrument/src/instrument/mod.rs:50) -/
structure InstrumentIndex where
  f0 : Nat
  deriving DecidableEq, Repr

/-- generated from `derive_new InstrumentIndex` (barter-instrument/src/instrument/mod.rs:50) -/
@[gen_exec_map, gen_indexer] def InstrumentIndex.new (f0 : Nat) : InstrumentIndex :=
  { f0 := f0 }

/-- generated from `impl InstrumentIndex :: fn index` (barter-instrument/src/instrument/mod.rs:53) -/
@[gen_exec_map, gen_indexer] def InstrumentIndex.index (self : InstrumentIndex) : Nat :=
  self.f0

/-! ## barter-instrument/src/exchange.rs -/

/-- generated from `derive_new ExchangeIndex` (barter-instrument/src/exchange.rs:7) -/
@[gen_exec_map, gen_indexer] def ExchangeIndex.new (f0 : Nat) : ExchangeIndex :=
  { f0 := f0 }

/-! ## barter-instrument/src/asset/name.rs -/

-- an identifier type: its values are only stored, cloned and compared; any injective coding would do
/-- generated from `opaque AssetNameInternal` (barter-instrument/src/asset/name.rs:13) -/
abbrev AssetNameInternal := Nat

/-! ## barter-instrument/src/instrument/name.rs -/

-- an identifier type: its values are only stored, cloned and compared; any injective coding would do
/-- generated from `opaque InstrumentNameInternal` (barter-instrument/src/instrument/name.rs:12) -/
abbrev InstrumentNameInternal := Nat

/-! ## barter-instrument/src/asset/mod.rs -/

/-- generated from `struct Asset` (barter-instrument/src/asset/mod.rs:67) -/
structure AssetFull where
  name_internal : AssetNameInternal
  name_exchange : AssetNameExchange
  deriving DecidableEq, Repr

/-- generated from `struct ExchangeAsset` (barter-instrument/src/asset/mod.rs:37) -/
structure ExchangeAsset (Asset : Type) where
  exchange : ExchangeId
  asset : AssetFull
  deriving DecidableEq, Repr

/-! ## barter-instrument/src/instrument/quote.rs -/

/-- generated from `enum InstrumentQuoteAsset` (barter-instrument/src/instrument/quote.rs:7) -/
inductive InstrumentQuoteAsset where
  | UnderlyingBase
  | UnderlyingQuote
  deriving DecidableEq, Repr

/-! ## barter-instrument/src/instrument/kind/perpetual.rs -/

/-- generated from `struct PerpetualContract` (barter-instrument/src/instrument/kind/perpetual.rs:14) -/
structure PerpetualContract (AssetKey : Type) where
  contract_size : Rat
  settlement_asset : AssetKey
  deriving DecidableEq, Repr

/-! ## barter-instrument/src/instrument/kind/future.rs -/

/-- generated from `struct FutureContract` (barter-instrument/src/instrument/kind/future.rs:16) -/
structure FutureContract (AssetKey : Type) where
  contract_size : Rat
  settlement_asset : AssetKey
  expiry : Int
  deriving DecidableEq, Repr

/-! ## barter-instrument/src/instrument/kind/option.rs -/

/-- generated from `enum OptionKind` (barter-instrument/src/instrument/kind/option.rs:34) -/
inductive OptionKind where
  | Call
  | Put
  deriving DecidableEq, Repr

/-- generated from `enum OptionExercise` (barter-instrument/src/instrument/kind/option.rs:57) -/
inductive OptionExercise where
  | American
  | Bermudan
  | European
  deriving DecidableEq, Repr

/-- generated from `struct OptionContract` (barter-instrument/src/instrument/kind/option.rs:22) -/
structure OptionContract (AssetKey : Type) where
  contract_size : Rat
  settlement_asset : AssetKey
  kind : OptionKind
  exercise : OptionExercise
  expiry : Int
  strike : Rat
  deriving DecidableEq, Repr

/-! ## barter-instrument/src/instrument/kind/mod.rs -/

/-- generated from `enum InstrumentKind` (barter-instrument/src/instrument/kind/mod.rs:22) -/
inductive InstrumentKind (AssetKey : Type) where
  | Spot
  | Perpetual (f0 : PerpetualContract AssetKey)
  | Future (f0 : FutureContract AssetKey)
  | Option (f0 : OptionContract AssetKey)
  deriving DecidableEq, Repr

/-! ## barter-instrument/src/instrument/spec.rs -/

/-- generated from `struct InstrumentSpecPrice` (barter-instrument/src/instrument/spec.rs:17) -/
structure InstrumentSpecPrice where
  min : Rat
  tick_size : Rat
  deriving DecidableEq, Repr

/-- generated from `enum OrderQuantityUnits` (barter-instrument/src/instrument/spec.rs:32) -/
inductive OrderQuantityUnits (AssetKey : Type) where
  | Asset (f0 : AssetKey)
  | Contract
  | Quote
  deriving DecidableEq, Repr

/-- generated from `struct InstrumentSpecQuantity` (barter-instrument/src/instrument/spec.rs:25) -/
structure InstrumentSpecQuantity (AssetKey : Type) where
  unit : OrderQuantityUnits AssetKey
  min : Rat
  increment : Rat
  deriving DecidableEq, Repr

/-- generated from `struct InstrumentSpecNotional` (barter-instrument/src/instrument/spec.rs:41) -/
structure InstrumentSpecNotional where
  min : Rat
  deriving DecidableEq, Repr

/-- generated from `struct InstrumentSpec` (barter-instrument/src/instrument/spec.rs:8) -/
structure InstrumentSpec (AssetKey : Type) where
  price : InstrumentSpecPrice
  quantity : InstrumentSpecQuantity AssetKey
  notional : InstrumentSpecNotional
  deriving DecidableEq, Repr

/-! ## barter-instrument/src/instrument/mod.rs -/

/-- generated from `struct Instrument` (barter-instrument/src/instrument/mod.rs:67) -/
structure InstrumentFull (ExchangeKey : Type) (AssetKey : Type) where
  exchange : ExchangeKey
  name_internal : InstrumentNameInternal
  name_exchange : InstrumentNameExchange
  underlying : Underlying AssetKey
  quote : InstrumentQuoteAsset
  kind : InstrumentKind AssetKey
  spec : _root_.Option (InstrumentSpec AssetKey)
  deriving DecidableEq, Repr

/-! ## barter-instrument/src/index/error.rs -/

/-- generated from `enum IndexError` (barter-instrument/src/index/error.rs:7) -/
inductive IndexError where
  | ExchangeIndex (f0 : Rust.Str)
  | AssetIndex (f0 : Rust.Str)
  | InstrumentIndex (f0 : Rust.Str)
  deriving DecidableEq, Repr

/-! ## barter-execution/src/error.rs -/

/-- generated from `enum KeyError` (barter-execution/src/error.rs:120) -/
inductive KeyError where
  | ExchangeId (f0 : Rust.Str)
  | AssetKey (f0 : Rust.Str)
  | InstrumentKey (f0 : Rust.Str)
  deriving DecidableEq, Repr

/-! ## barter-instrument/src/index/mod.rs -/

/-- generated from `struct IndexedInstruments` (barter-instrument/src/index/mod.rs:30) -/
structure IndexedInstruments where
  exchanges : List (Keyed _root_.BarterModel.Generated.Machines.ExchangeIndex _root_.BarterModel.Generated.Machines.ExchangeId)
  assets : List (Keyed _root_.BarterModel.Generated.Machines.AssetIndex (ExchangeAsset AssetFull))
  instruments : List (Keyed _root_.BarterModel.Generated.Machines.InstrumentIndex (InstrumentFull (Keyed _root_.BarterModel.Generated.Machines.ExchangeIndex _root_.BarterModel.Generated.Machines.ExchangeId) _root_.BarterModel.Generated.Machines.AssetIndex))
  deriving DecidableEq, Repr

/-- generated from `impl IndexedInstruments :: fn exchanges` (barter-instrument/src/index/mod.rs:67) -/
@[gen_exec_map, gen_indexer] def IndexedInstruments.exchanges_fn (self : IndexedInstruments) : List (Keyed _root_.BarterModel.Generated.Machines.ExchangeIndex _root_.BarterModel.Generated.Machines.ExchangeId) :=
  self.exchanges

/-- generated from `impl IndexedInstruments :: fn assets` (barter-instrument/src/index/mod.rs:72) -/
@[gen_exec_map, gen_indexer] def IndexedInstruments.assets_fn (self : IndexedInstruments) : List (Keyed _root_.BarterModel.Generated.Machines.AssetIndex (ExchangeAsset AssetFull)) :=
  self.assets

/-- generated from `impl IndexedInstruments :: fn instruments` (barter-instrument/src/index/mod.rs:77) -/
@[gen_exec_map, gen_indexer] def IndexedInstruments.instruments_fn (self : IndexedInstruments) : List (Keyed _root_.BarterModel.Generated.Machines.InstrumentIndex (InstrumentFull (Keyed _root_.BarterModel.Generated.Machines.ExchangeIndex _root_.BarterModel.Generated.Machines.ExchangeId) _root_.BarterModel.Generated.Machines.AssetIndex)) :=
  self.instruments

/-! ## barter-execution/src/map.rs -/

/-- generated from `struct ExecutionInstrumentMap` (barter-execution/src/map.rs:22) -/
structure ExecutionInstrumentMap where
  exchange : Keyed _root_.BarterModel.Generated.Machines.ExchangeIndex _root_.BarterModel.Generated.Machines.ExchangeId
  assets : Rust.IndexMap _root_.BarterModel.Generated.Machines.AssetIndex AssetNameExchange
  instruments : Rust.IndexMap _root_.BarterModel.Generated.Machines.InstrumentIndex InstrumentNameExchange
  asset_names : Rust.Map AssetNameExchange _root_.BarterModel.Generated.Machines.AssetIndex
  instrument_names : Rust.Map InstrumentNameExchange _root_.BarterModel.Generated.Machines.InstrumentIndex
  deriving DecidableEq, Repr

/-- generated from `impl ExecutionInstrumentMap :: fn new` (barter-execution/src/map.rs:32) -/
@[gen_exec_map] def ExecutionInstrumentMap.new (exchange : Keyed _root_.BarterModel.Generated.Machines.ExchangeIndex _root_.BarterModel.Generated.Machines.ExchangeId) (assets : Rust.IndexMap _root_.BarterModel.Generated.Machines.AssetIndex AssetNameExchange) (instruments : Rust.IndexMap _root_.BarterModel.Generated.Machines.InstrumentIndex InstrumentNameExchange) : ExecutionInstrumentMap :=
  { exchange := exchange, assets := assets, instruments := instruments, asset_names := (Rust.Map.collect (List.map (fun (key, value) => (value, key)) assets)), instrument_names := (Rust.Map.collect (List.map (fun (key, value) => (value, key)) instruments)) : ExecutionInstrumentMap }

/-- generated from `impl ExecutionInstrumentMap :: fn exchange_assets` (barter-execution/src/map.rs:52) -/
@[gen_exec_map] def ExecutionInstrumentMap.exchange_assets (self : ExecutionInstrumentMap) : List AssetNameExchange :=
  (Rust.IndexMap.values self.assets)

/-- generated from `impl ExecutionInstrumentMap :: fn exchange_instruments` (barter-execution/src/map.rs:56) -/
@[gen_exec_map] def ExecutionInstrumentMap.exchange_instruments (self : ExecutionInstrumentMap) : List InstrumentNameExchange :=
  (Rust.IndexMap.values self.instruments)

/-- generated from `impl ExecutionInstrumentMap :: fn find_exchange_id` (barter-execution/src/map.rs:60) -/
@[gen_exec_map] def ExecutionInstrumentMap.find_exchange_id (self : ExecutionInstrumentMap) (exchange : _root_.BarterModel.Generated.Machines.ExchangeIndex) : Except KeyError _root_.BarterModel.Generated.Machines.ExchangeId :=
  (if (self.exchange.key = exchange) then
    (Except.ok self.exchange.value)
  else
    (Except.error (KeyError.ExchangeId (Rust.Str.mk []))))

/-- generated from `impl ExecutionInstrumentMap :: fn find_exchange_index` (barter-execution/src/map.rs:70) -/
@[gen_exec_map] def ExecutionInstrumentMap.find_exchange_index (self : ExecutionInstrumentMap) (exchange : _root_.BarterModel.Generated.Machines.ExchangeId) : Except IndexError _root_.BarterModel.Generated.Machines.ExchangeIndex :=
  (if (self.exchange.value = exchange) then
    (Except.ok self.exchange.key)
  else
    (Except.error (IndexError.ExchangeIndex (Rust.Str.mk []))))

/-- generated from `impl ExecutionInstrumentMap :: fn find_asset_name_exchange` (barter-execution/src/map.rs:80) -/
@[gen_exec_map] def ExecutionInstrumentMap.find_asset_name_exchange (self : ExecutionInstrumentMap) (asset : _root_.BarterModel.Generated.Machines.AssetIndex) : Except KeyError AssetNameExchange :=
  (match (Rust.IndexMap.get self.assets asset) with | some some_1 => Except.ok some_1 | none => Except.error (KeyError.AssetKey (Rust.Str.mk [])))

/-- generated from `impl ExecutionInstrumentMap :: fn find_asset_index` (barter-execution/src/map.rs:89) -/
@[gen_exec_map] def ExecutionInstrumentMap.find_asset_index (self : ExecutionInstrumentMap) (asset : AssetNameExchange) : Except IndexError _root_.BarterModel.Generated.Machines.AssetIndex :=
  (match (Rust.Map.get self.asset_names asset) with | some some_1 => Except.ok some_1 | none => Except.error (IndexError.AssetIndex (Rust.Str.mk [])))

/-- generated from `impl ExecutionInstrumentMap :: fn find_instrument_name_exchange` (barter-execution/src/map.rs:95) -/
@[gen_exec_map] def ExecutionInstrumentMap.find_instrument_name_exchange (self : ExecutionInstrumentMap) (instrument : _root_.BarterModel.Generated.Machines.InstrumentIndex) : Except KeyError InstrumentNameExchange :=
  (match (Rust.IndexMap.get self.instruments instrument) with | some some_1 => Except.ok some_1 | none => Except.error (KeyError.InstrumentKey (Rust.Str.mk [])))

/-- generated from `impl ExecutionInstrumentMap :: fn find_instrument_index` (barter-execution/src/map.rs:106) -/
@[gen_exec_map] def ExecutionInstrumentMap.find_instrument_index (self : ExecutionInstrumentMap) (instrument : InstrumentNameExchange) : Except IndexError _root_.BarterModel.Generated.Machines.InstrumentIndex :=
  (match (Rust.Map.get self.instrument_names instrument) with | some some_1 => Except.ok some_1 | none => Except.error (IndexError.InstrumentIndex (Rust.Str.mk [])))

/-- generated from `fn generate_execution_instrument_map` (barter-execution/src/map.rs:121) -/
@[gen_exec_map] def generate_execution_instrument_map (instruments : IndexedInstruments) (exchange : _root_.BarterModel.Generated.Machines.ExchangeId) : Except IndexError ExecutionInstrumentMap :=
  (match (match (List.findSome? (fun keyed_exchange => (if (keyed_exchange.value = exchange) then some keyed_exchange.key else none)) (IndexedInstruments.exchanges_fn instruments)) with | some some_1 => Except.ok some_1 | none => Except.error (IndexError.ExchangeIndex (Rust.Str.mk []))) with
  | Except.error err_1 => (Except.error err_1)
  | Except.ok exchange_index =>
    (Except.ok (ExecutionInstrumentMap.new (Keyed.new exchange_index exchange) (Rust.IndexMap.collect (List.filterMap (fun asset => (if (asset.value.exchange = exchange) then some (asset.key, asset.value.asset.name_exchange) else none)) (IndexedInstruments.assets_fn instruments))) (Rust.IndexMap.collect (List.filterMap (fun instrument => (if (instrument.value.exchange.value = exchange) then some (instrument.key, instrument.value.name_exchange) else none)) (IndexedInstruments.instruments_fn instruments))))))

/-! ## barter-execution/src/order/mod.rs -/

-- `alias UnindexedOrderKey` (barter-execution/src/order/mod.rs:36) alias: `type UnindexedOrderKey = OrderKey < ExchangeId , InstrumentNameExchange >` is expanded at every use

/-! ## barter-execution/src/indexer.rs -/

/-- generated from `struct AccountEventIndexer` (barter-execution/src/indexer.rs:33) -/
structure AccountEventIndexer where
  map : ExecutionInstrumentMap
  deriving DecidableEq, Repr

/-- generated from `impl AccountEventIndexer :: fn order_key` (barter-execution/src/indexer.rs:188) -/
@[gen_exec_map] def AccountEventIndexer.order_key (self : AccountEventIndexer) (key : OrderKey _root_.BarterModel.Generated.Machines.ExchangeId InstrumentNameExchange) : Except IndexError (OrderKey _root_.BarterModel.Generated.Machines.ExchangeIndex _root_.BarterModel.Generated.Machines.InstrumentIndex) :=
  (match key with
  | ⟨exchange, instrument, strategy, cid⟩ =>
    (match (ExecutionInstrumentMap.find_exchange_index self.map exchange) with
    | Except.error err_1 => (Except.error err_1)
    | Except.ok try_1 =>
      (match (ExecutionInstrumentMap.find_instrument_index self.map instrument) with
      | Except.error err_2 => (Except.error err_2)
      | Except.ok try_2 =>
        (Except.ok ({ exchange := try_1, instrument := try_2, strategy := strategy, cid := cid : OrderKey _root_.BarterModel.Generated.Machines.ExchangeIndex _root_.BarterModel.Generated.Machines.InstrumentIndex })))))

/-- generated from `impl AccountEventIndexer :: fn order_request` (barter-execution/src/indexer.rs:222) -/
@[gen_exec_map] def AccountEventIndexer.order_request {Kind : Type} [DecidableEq Kind] (self : AccountEventIndexer) (order : OrderEvent Kind _root_.BarterModel.Generated.Machines.ExchangeIndex _root_.BarterModel.Generated.Machines.InstrumentIndex) : Except KeyError (OrderEvent Kind _root_.BarterModel.Generated.Machines.ExchangeId InstrumentNameExchange) :=
  (match order with
  | ⟨⟨exchange, instrument, strategy, cid⟩, state⟩ =>
    (match (ExecutionInstrumentMap.find_exchange_id self.map exchange) with
    | Except.error err_1 => (Except.error err_1)
    | Except.ok exchange_1 =>
      (match (ExecutionInstrumentMap.find_instrument_name_exchange self.map instrument) with
      | Except.error err_2 => (Except.error err_2)
      | Except.ok instrument_1 =>
        (Except.ok ({ key := { exchange := exchange_1, instrument := instrument_1, strategy := strategy, cid := cid : OrderKey _root_.BarterModel.Generated.Machines.ExchangeId InstrumentNameExchange }, state := state : OrderEvent Kind _root_.BarterModel.Generated.Machines.ExchangeId InstrumentNameExchange })))))

/-- generated from `impl AccountEventIndexer :: fn asset_balance` (barter-execution/src/indexer.rs:111) -/
@[gen_exec_map] def AccountEventIndexer.asset_balance (self : AccountEventIndexer) (balance : AssetBalance AssetNameExchange) : Except IndexError (AssetBalance _root_.BarterModel.Generated.Machines.AssetIndex) :=
  (match balance with
  | ⟨asset, balance_1, time_exchange⟩ =>
    (match (ExecutionInstrumentMap.find_asset_index self.map asset) with
    | Except.error err_1 => (Except.error err_1)
    | Except.ok asset_1 =>
      (Except.ok ({ asset := asset_1, balance := balance_1, time_exchange := time_exchange : AssetBalance _root_.BarterModel.Generated.Machines.AssetIndex }))))

/-- generated from `impl AccountEventIndexer :: fn trade` (barter-execution/src/indexer.rs:270) -/
@[gen_exec_map] def AccountEventIndexer.trade (self : AccountEventIndexer) (trade : Trade QuoteAsset InstrumentNameExchange) : Except IndexError (Trade QuoteAsset _root_.BarterModel.Generated.Machines.InstrumentIndex) :=
  (match trade with
  | ⟨id, order_id, instrument, strategy, time_exchange, side, price, quantity, fees⟩ =>
    (match (ExecutionInstrumentMap.find_instrument_index self.map instrument) with
    | Except.error err_1 => (Except.error err_1)
    | Except.ok instrument_index =>
      (Except.ok ({ id := id, order_id := order_id, instrument := instrument_index, strategy := strategy, time_exchange := time_exchange, side := side, price := price, quantity := quantity, fees := fees : Trade QuoteAsset _root_.BarterModel.Generated.Machines.InstrumentIndex }))))

/-! ## barter-instrument/src/asset/mod.rs -/

/-- generated from `impl ExchangeAsset<Asset> :: fn new` (barter-instrument/src/asset/mod.rs:43) -/
@[gen_indexer] def ExchangeAsset.new {A : Type} [DecidableEq A] (A_into : A → AssetFull) (exchange : _root_.BarterModel.Generated.Machines.ExchangeId) (asset : A) : ExchangeAsset AssetFull :=
  { exchange := exchange, asset := (A_into asset) : ExchangeAsset AssetFull }

/-! ## barter-instrument/src/instrument/kind/mod.rs -/

/-- generated from `impl InstrumentKind<AssetKey> :: fn settlement_asset` (barter-instrument/src/instrument/kind/mod.rs:44) -/
@[gen_indexer] def InstrumentKind.settlement_asset {AssetKey : Type} [DecidableEq AssetKey] (self : InstrumentKind AssetKey) : _root_.Option AssetKey :=
  (match self with
  | InstrumentKind.Spot =>
      none
  | InstrumentKind.Perpetual kind =>
      (some kind.settlement_asset)
  | InstrumentKind.Future kind =>
      (some kind.settlement_asset)
  | InstrumentKind.Option kind =>
      (some kind.settlement_asset))

/-! ## barter-instrument/src/lib.rs -/

/-- generated from `impl Underlying<AssetKey> :: fn new` (barter-instrument/src/lib.rs:79) -/
@[gen_indexer] def Underlying.new {AssetKey : Type} [DecidableEq AssetKey] {A : Type} [DecidableEq A] (A_into_AssetKey : A → AssetKey) (base : A) (quote : A) : Underlying AssetKey :=
  { base := (A_into_AssetKey base), quote := (A_into_AssetKey quote) : Underlying AssetKey }

/-! ## barter-instrument/src/instrument/mod.rs -/

/-- generated from `impl Instrument<ExchangeKey, AssetKey> :: fn map_exchange_key` (barter-instrument/src/instrument/mod.rs:134) -/
@[gen_indexer] def InstrumentFull.map_exchange_key {ExchangeKey : Type} [DecidableEq ExchangeKey] {AssetKey : Type} [DecidableEq AssetKey] {NewExchangeKey : Type} [DecidableEq NewExchangeKey] (self : InstrumentFull ExchangeKey AssetKey) (exchange : NewExchangeKey) : InstrumentFull NewExchangeKey AssetKey :=
  (match self with
  | ⟨_, name_internal, name_exchange, underlying, quote, kind, spec⟩ =>
    { exchange := exchange, name_internal := name_internal, name_exchange := name_exchange, underlying := underlying, quote := quote, kind := kind, spec := spec : InstrumentFull NewExchangeKey AssetKey })

/-- generated from `impl Instrument<ExchangeKey, AssetKey> :: fn map_asset_key_with_lookup` (barter-instrument/src/instrument/mod.rs:160) -/
@[gen_indexer] def InstrumentFull.map_asset_key_with_lookup {ExchangeKey : Type} [DecidableEq ExchangeKey] {AssetKey : Type} [DecidableEq AssetKey] {NewAssetKey : Type} [DecidableEq NewAssetKey] {Error : Type} [DecidableEq Error] (self : InstrumentFull ExchangeKey AssetKey) (find_asset : AssetKey → (Except Error NewAssetKey)) : Except Error (InstrumentFull ExchangeKey NewAssetKey) :=
  (match self with
  | ⟨exchange, name_internal, name_exchange, underlying, quote, kind, spec⟩ =>
    (match (find_asset underlying.base) with
    | Except.error err_1 => (Except.error err_1)
    | Except.ok base_new_key =>
      (match (find_asset underlying.quote) with
      | Except.error err_2 => (Except.error err_2)
      | Except.ok quote_new_key =>
        (match kind with
        | InstrumentKind.Spot =>
          let kind_1 : InstrumentKind NewAssetKey := InstrumentKind.Spot
          (match spec with
          | some spec_1 =>
            (match spec_1 with
            | ⟨price, ⟨unit, min, increment⟩, notional⟩ =>
              (match unit with
              | OrderQuantityUnits.Asset asset =>
                (match (find_asset asset) with
                | Except.error err_3 => (Except.error err_3)
                | Except.ok try_1 =>
                  let unit_1 : OrderQuantityUnits NewAssetKey := (OrderQuantityUnits.Asset try_1)
                  let spec_2 : _root_.Option (InstrumentSpec NewAssetKey) := (some ({ price := price, quantity := { unit := unit_1, min := min, increment := increment : InstrumentSpecQuantity NewAssetKey }, notional := notional : InstrumentSpec NewAssetKey }))
                  (Except.ok ({ exchange := exchange, name_internal := name_internal, name_exchange := name_exchange, underlying := (Underlying.new (fun x_1 => x_1) base_new_key quote_new_key), quote := quote, kind := kind_1, spec := spec_2 : InstrumentFull ExchangeKey NewAssetKey })))
              | OrderQuantityUnits.Contract =>
                let unit_2 : OrderQuantityUnits NewAssetKey := OrderQuantityUnits.Contract
                let spec_3 : _root_.Option (InstrumentSpec NewAssetKey) := (some ({ price := price, quantity := { unit := unit_2, min := min, increment := increment : InstrumentSpecQuantity NewAssetKey }, notional := notional : InstrumentSpec NewAssetKey }))
                (Except.ok ({ exchange := exchange, name_internal := name_internal, name_exchange := name_exchange, underlying := (Underlying.new (fun x_2 => x_2) base_new_key quote_new_key), quote := quote, kind := kind_1, spec := spec_3 : InstrumentFull ExchangeKey NewAssetKey }))
              | OrderQuantityUnits.Quote =>
                let unit_3 : OrderQuantityUnits NewAssetKey := OrderQuantityUnits.Quote
                let spec_4 : _root_.Option (InstrumentSpec NewAssetKey) := (some ({ price := price, quantity := { unit := unit_3, min := min, increment := increment : InstrumentSpecQuantity NewAssetKey }, notional := notional : InstrumentSpec NewAssetKey }))
                (Except.ok ({ exchange := exchange, name_internal := name_internal, name_exchange := name_exchange, underlying := (Underlying.new (fun x_3 => x_3) base_new_key quote_new_key), quote := quote, kind := kind_1, spec := spec_4 : InstrumentFull ExchangeKey NewAssetKey }))))
          | none =>
            let spec_5 : _root_.Option (InstrumentSpec NewAssetKey) := none
            (Except.ok ({ exchange := exchange, name_internal := name_internal, name_exchange := name_exchange, underlying := (Underlying.new (fun x_4 => x_4) base_new_key quote_new_key), quote := quote, kind := kind_1, spec := spec_5 : InstrumentFull ExchangeKey NewAssetKey })))
        | InstrumentKind.Perpetual contract =>
          (match (find_asset contract.settlement_asset) with
          | Except.error err_4 => (Except.error err_4)
          | Except.ok try_2 =>
            let kind_2 : InstrumentKind NewAssetKey := (InstrumentKind.Perpetual ({ contract_size := contract.contract_size, settlement_asset := try_2 : PerpetualContract NewAssetKey }))
            (match spec with
            | some spec_6 =>
              (match spec_6 with
              | ⟨price, ⟨unit, min, increment⟩, notional⟩ =>
                (match unit with
                | OrderQuantityUnits.Asset asset =>
                  (match (find_asset asset) with
                  | Except.error err_5 => (Except.error err_5)
                  | Except.ok try_3 =>
                    let unit_4 : OrderQuantityUnits NewAssetKey := (OrderQuantityUnits.Asset try_3)
                    let spec_7 : _root_.Option (InstrumentSpec NewAssetKey) := (some ({ price := price, quantity := { unit := unit_4, min := min, increment := increment : InstrumentSpecQuantity NewAssetKey }, notional := notional : InstrumentSpec NewAssetKey }))
                    (Except.ok ({ exchange := exchange, name_internal := name_internal, name_exchange := name_exchange, underlying := (Underlying.new (fun x_5 => x_5) base_new_key quote_new_key), quote := quote, kind := kind_2, spec := spec_7 : InstrumentFull ExchangeKey NewAssetKey })))
                | OrderQuantityUnits.Contract =>
                  let unit_5 : OrderQuantityUnits NewAssetKey := OrderQuantityUnits.Contract
                  let spec_8 : _root_.Option (InstrumentSpec NewAssetKey) := (some ({ price := price, quantity := { unit := unit_5, min := min, increment := increment : InstrumentSpecQuantity NewAssetKey }, notional := notional : InstrumentSpec NewAssetKey }))
                  (Except.ok ({ exchange := exchange, name_internal := name_internal, name_exchange := name_exchange, underlying := (Underlying.new (fun x_6 => x_6) base_new_key quote_new_key), quote := quote, kind := kind_2, spec := spec_8 : InstrumentFull ExchangeKey NewAssetKey }))
                | OrderQuantityUnits.Quote =>
                  let unit_6 : OrderQuantityUnits NewAssetKey := OrderQuantityUnits.Quote
                  let spec_9 : _root_.Option (InstrumentSpec NewAssetKey) := (some ({ price := price, quantity := { unit := unit_6, min := min, increment := increment : InstrumentSpecQuantity NewAssetKey }, notional := notional : InstrumentSpec NewAssetKey }))
                  (Except.ok ({ exchange := exchange, name_internal := name_internal, name_exchange := name_exchange, underlying := (Underlying.new (fun x_7 => x_7) base_new_key quote_new_key), quote := quote, kind := kind_2, spec := spec_9 : InstrumentFull ExchangeKey NewAssetKey }))))
            | none =>
              let spec_10 : _root_.Option (InstrumentSpec NewAssetKey) := none
              (Except.ok ({ exchange := exchange, name_internal := name_internal, name_exchange := name_exchange, underlying := (Underlying.new (fun x_8 => x_8) base_new_key quote_new_key), quote := quote, kind := kind_2, spec := spec_10 : InstrumentFull ExchangeKey NewAssetKey }))))
        | InstrumentKind.Future contract =>
          (match (find_asset contract.settlement_asset) with
          | Except.error err_6 => (Except.error err_6)
          | Except.ok try_4 =>
            let kind_3 : InstrumentKind NewAssetKey := (InstrumentKind.Future ({ contract_size := contract.contract_size, settlement_asset := try_4, expiry := contract.expiry : FutureContract NewAssetKey }))
            (match spec with
            | some spec_11 =>
              (match spec_11 with
              | ⟨price, ⟨unit, min, increment⟩, notional⟩ =>
                (match unit with
                | OrderQuantityUnits.Asset asset =>
                  (match (find_asset asset) with
                  | Except.error err_7 => (Except.error err_7)
                  | Except.ok try_5 =>
                    let unit_7 : OrderQuantityUnits NewAssetKey := (OrderQuantityUnits.Asset try_5)
                    let spec_12 : _root_.Option (InstrumentSpec NewAssetKey) := (some ({ price := price, quantity := { unit := unit_7, min := min, increment := increment : InstrumentSpecQuantity NewAssetKey }, notional := notional : InstrumentSpec NewAssetKey }))
                    (Except.ok ({ exchange := exchange, name_internal := name_internal, name_exchange := name_exchange, underlying := (Underlying.new (fun x_9 => x_9) base_new_key quote_new_key), quote := quote, kind := kind_3, spec := spec_12 : InstrumentFull ExchangeKey NewAssetKey })))
                | OrderQuantityUnits.Contract =>
                  let unit_8 : OrderQuantityUnits NewAssetKey := OrderQuantityUnits.Contract
                  let spec_13 : _root_.Option (InstrumentSpec NewAssetKey) := (some ({ price := price, quantity := { unit := unit_8, min := min, increment := increment : InstrumentSpecQuantity NewAssetKey }, notional := notional : InstrumentSpec NewAssetKey }))
                  (Except.ok ({ exchange := exchange, name_internal := name_internal, name_exchange := name_exchange, underlying := (Underlying.new (fun x_10 => x_10) base_new_key quote_new_key), quote := quote, kind := kind_3, spec := spec_13 : InstrumentFull ExchangeKey NewAssetKey }))
                | OrderQuantityUnits.Quote =>
                  let unit_9 : OrderQuantityUnits NewAssetKey := OrderQuantityUnits.Quote
                  let spec_14 : _root_.Option (InstrumentSpec NewAssetKey) := (some ({ price := price, quantity := { unit := unit_9, min := min, increment := increment : InstrumentSpecQuantity NewAssetKey }, notional := notional : InstrumentSpec NewAssetKey }))
                  (Except.ok ({ exchange := exchange, name_internal := name_internal, name_exchange := name_exchange, underlying := (Underlying.new (fun x_11 => x_11) base_new_key quote_new_key), quote := quote, kind := kind_3, spec := spec_14 : InstrumentFull ExchangeKey NewAssetKey }))))
            | none =>
              let spec_15 : _root_.Option (InstrumentSpec NewAssetKey) := none
              (Except.ok ({ exchange := exchange, name_internal := name_internal, name_exchange := name_exchange, underlying := (Underlying.new (fun x_12 => x_12) base_new_key quote_new_key), quote := quote, kind := kind_3, spec := spec_15 : InstrumentFull ExchangeKey NewAssetKey }))))
        | InstrumentKind.Option contract =>
          (match (find_asset contract.settlement_asset) with
          | Except.error err_8 => (Except.error err_8)
          | Except.ok try_6 =>
            let kind_4 : InstrumentKind NewAssetKey := (InstrumentKind.Option ({ contract_size := contract.contract_size, settlement_asset := try_6, kind := contract.kind, exercise := contract.exercise, expiry := contract.expiry, strike := contract.strike : OptionContract NewAssetKey }))
            (match spec with
            | some spec_16 =>
              (match spec_16 with
              | ⟨price, ⟨unit, min, increment⟩, notional⟩ =>
                (match unit with
                | OrderQuantityUnits.Asset asset =>
                  (match (find_asset asset) with
                  | Except.error err_9 => (Except.error err_9)
                  | Except.ok try_7 =>
                    let unit_10 : OrderQuantityUnits NewAssetKey := (OrderQuantityUnits.Asset try_7)
                    let spec_17 : _root_.Option (InstrumentSpec NewAssetKey) := (some ({ price := price, quantity := { unit := unit_10, min := min, increment := increment : InstrumentSpecQuantity NewAssetKey }, notional := notional : InstrumentSpec NewAssetKey }))
                    (Except.ok ({ exchange := exchange, name_internal := name_internal, name_exchange := name_exchange, underlying := (Underlying.new (fun x_13 => x_13) base_new_key quote_new_key), quote := quote, kind := kind_4, spec := spec_17 : InstrumentFull ExchangeKey NewAssetKey })))
                | OrderQuantityUnits.Contract =>
                  let unit_11 : OrderQuantityUnits NewAssetKey := OrderQuantityUnits.Contract
                  let spec_18 : _root_.Option (InstrumentSpec NewAssetKey) := (some ({ price := price, quantity := { unit := unit_11, min := min, increment := increment : InstrumentSpecQuantity NewAssetKey }, notional := notional : InstrumentSpec NewAssetKey }))
                  (Except.ok ({ exchange := exchange, name_internal := name_internal, name_exchange := name_exchange, underlying := (Underlying.new (fun x_14 => x_14) base_new_key quote_new_key), quote := quote, kind := kind_4, spec := spec_18 : InstrumentFull ExchangeKey NewAssetKey }))
                | OrderQuantityUnits.Quote =>
                  let unit_12 : OrderQuantityUnits NewAssetKey := OrderQuantityUnits.Quote
                  let spec_19 : _root_.Option (InstrumentSpec NewAssetKey) := (some ({ price := price, quantity := { unit := unit_12, min := min, increment := increment : InstrumentSpecQuantity NewAssetKey }, notional := notional : InstrumentSpec NewAssetKey }))
                  (Except.ok ({ exchange := exchange, name_internal := name_internal, name_exchange := name_exchange, underlying := (Underlying.new (fun x_15 => x_15) base_new_key quote_new_key), quote := quote, kind := kind_4, spec := spec_19 : InstrumentFull ExchangeKey NewAssetKey }))))
            | none =>
              let spec_20 : _root_.Option (InstrumentSpec NewAssetKey) := none
              (Except.ok ({ exchange := exchange, name_internal := name_internal, name_exchange := name_exchange, underlying := (Underlying.new (fun x_16 => x_16) base_new_key quote_new_key), quote := quote, kind := kind_4, spec := spec_20 : InstrumentFull ExchangeKey NewAssetKey }))))))))

/-! ## barter-instrument/src/index/mod.rs -/

/-- generated from `fn find_exchange_by_exchange_id` (barter-instrument/src/index/mod.rs:185) -/
@[gen_indexer] def find_exchange_by_exchange_id (haystack : List (Keyed _root_.BarterModel.Generated.Machines.ExchangeIndex _root_.BarterModel.Generated.Machines.ExchangeId)) (needle : _root_.BarterModel.Generated.Machines.ExchangeId) : Except IndexError _root_.BarterModel.Generated.Machines.ExchangeIndex :=
  (match (List.findSome? (fun indexed => (if (indexed.value = needle) then some indexed.key else none)) haystack) with | some some_1 => Except.ok some_1 | none => Except.error (IndexError.ExchangeIndex (Rust.Str.mk [Rust.FmtArg.id needle])))

/-- generated from `fn find_asset_by_exchange_and_name_internal` (barter-instrument/src/index/mod.rs:198) -/
@[gen_indexer] def find_asset_by_exchange_and_name_internal (haystack : List (Keyed _root_.BarterModel.Generated.Machines.AssetIndex (ExchangeAsset AssetFull))) (needle_exchange : _root_.BarterModel.Generated.Machines.ExchangeId) (needle_name : AssetNameInternal) : Except IndexError _root_.BarterModel.Generated.Machines.AssetIndex :=
  (match (List.findSome? (fun indexed => (if ((indexed.value.exchange = needle_exchange) ∧ (indexed.value.asset.name_internal = needle_name)) then some indexed.key else none)) haystack) with | some some_1 => Except.ok some_1 | none => Except.error (IndexError.AssetIndex (Rust.Str.mk [Rust.FmtArg.id needle_exchange, Rust.FmtArg.id needle_name])))

/-! ## barter-instrument/src/index/builder.rs -/

/-- generated from `struct IndexedInstrumentsBuilder` (barter-instrument/src/index/builder.rs:12) -/
structure IndexedInstrumentsBuilder where
  exchanges : List _root_.BarterModel.Generated.Machines.ExchangeId
  instruments : List (InstrumentFull _root_.BarterModel.Generated.Machines.ExchangeId AssetFull)
  assets : List (ExchangeAsset AssetFull)
  deriving DecidableEq, Repr

/-- generated from `derive_default IndexedInstrumentsBuilder` (barter-instrument/src/index/builder.rs:12) -/
@[gen_indexer] def IndexedInstrumentsBuilder.default : IndexedInstrumentsBuilder :=
  { exchanges := [], instruments := [], assets := [] }

/-- generated from `impl IndexedInstrumentsBuilder :: fn new` (barter-instrument/src/index/builder.rs:19) -/
@[gen_indexer] def IndexedInstrumentsBuilder.new  : IndexedInstrumentsBuilder :=
  (IndexedInstrumentsBuilder.default)

/-- generated from `impl IndexedInstrumentsBuilder :: fn add_instrument` (barter-instrument/src/index/builder.rs:23) -/
@[gen_indexer] def IndexedInstrumentsBuilder.add_instrument (self : IndexedInstrumentsBuilder) (instrument : InstrumentFull _root_.BarterModel.Generated.Machines.ExchangeId AssetFull) : IndexedInstrumentsBuilder :=
  let self : IndexedInstrumentsBuilder := { self with exchanges := (self.exchanges ++ [instrument.exchange]) }
  let self : IndexedInstrumentsBuilder := { self with assets := (self.assets ++ [(ExchangeAsset.new (fun x_1 => x_1) instrument.exchange instrument.underlying.base)]) }
  let self : IndexedInstrumentsBuilder := { self with assets := (self.assets ++ [(ExchangeAsset.new (fun x_2 => x_2) instrument.exchange instrument.underlying.quote)]) }
  (match (InstrumentKind.settlement_asset instrument.kind) with
  | some settlement_asset =>
    let self : IndexedInstrumentsBuilder := { self with assets := (self.assets ++ [(ExchangeAsset.new (fun x_3 => x_3) instrument.exchange settlement_asset)]) }
    (match instrument.spec with
    | some spec =>
      (match spec.quantity.unit with
      | OrderQuantityUnits.Asset asset =>
        let self : IndexedInstrumentsBuilder := { self with assets := (self.assets ++ [(ExchangeAsset.new (fun x_4 => x_4) instrument.exchange asset)]) }
        let self : IndexedInstrumentsBuilder := { self with instruments := (self.instruments ++ [instrument]) }
        self
      | _ =>
        let self : IndexedInstrumentsBuilder := { self with instruments := (self.instruments ++ [instrument]) }
        self)
    | none =>
      let self : IndexedInstrumentsBuilder := { self with instruments := (self.instruments ++ [instrument]) }
      self)
  | none =>
    (match instrument.spec with
    | some spec =>
      (match spec.quantity.unit with
      | OrderQuantityUnits.Asset asset =>
        let self : IndexedInstrumentsBuilder := { self with assets := (self.assets ++ [(ExchangeAsset.new (fun x_5 => x_5) instrument.exchange asset)]) }
        let self : IndexedInstrumentsBuilder := { self with instruments := (self.instruments ++ [instrument]) }
        self
      | _ =>
        let self : IndexedInstrumentsBuilder := { self with instruments := (self.instruments ++ [instrument]) }
        self)
    | none =>
      let self : IndexedInstrumentsBuilder := { self with instruments := (self.instruments ++ [instrument]) }
      self))

deriving instance Inhabited for _root_.BarterModel.Generated.Machines.ExchangeIndex

deriving instance Inhabited for Keyed

deriving instance Inhabited for _root_.BarterModel.Generated.Machines.AssetIndex

deriving instance Inhabited for Underlying

deriving instance Inhabited for InstrumentQuoteAsset

deriving instance Inhabited for InstrumentKind

deriving instance Inhabited for InstrumentFull

/-- generated from `impl IndexedInstrumentsBuilder :: fn build` (barter-instrument/src/index/builder.rs:62) -/
@[gen_indexer] def IndexedInstrumentsBuilder.build (Ord_ExchangeId : _root_.BarterModel.Generated.Machines.ExchangeId → _root_.BarterModel.Generated.Machines.ExchangeId → Bool) (Ord_InstrumentFull_ExchangeId_AssetFull : (InstrumentFull _root_.BarterModel.Generated.Machines.ExchangeId AssetFull) → (InstrumentFull _root_.BarterModel.Generated.Machines.ExchangeId AssetFull) → Bool) (Ord_ExchangeAsset_AssetFull : (ExchangeAsset AssetFull) → (ExchangeAsset AssetFull) → Bool) (self : IndexedInstrumentsBuilder) : IndexedInstruments :=
  let self : IndexedInstrumentsBuilder := { self with exchanges := (List.mergeSort self.exchanges Ord_ExchangeId) }
  let self : IndexedInstrumentsBuilder := { self with exchanges := (Rust.Vec.dedup self.exchanges) }
  let self : IndexedInstrumentsBuilder := { self with instruments := (List.mergeSort self.instruments Ord_InstrumentFull_ExchangeId_AssetFull) }
  let self : IndexedInstrumentsBuilder := { self with instruments := (Rust.Vec.dedup self.instruments) }
  let self : IndexedInstrumentsBuilder := { self with assets := (List.mergeSort self.assets Ord_ExchangeAsset_AssetFull) }
  let self : IndexedInstrumentsBuilder := { self with assets := (Rust.Vec.dedup self.assets) }
  let exchanges : List (Keyed _root_.BarterModel.Generated.Machines.ExchangeIndex _root_.BarterModel.Generated.Machines.ExchangeId) := (List.map (fun (index, exchange) => (Keyed.new (ExchangeIndex.new index) exchange)) (Rust.Iter.enumerate self.exchanges))
  let assets : List (Keyed _root_.BarterModel.Generated.Machines.AssetIndex (ExchangeAsset AssetFull)) := (List.map (fun (index, exchange_asset) => (Keyed.new (AssetIndex.new index) exchange_asset)) (Rust.Iter.enumerate self.assets))
  let instruments : List (Keyed _root_.BarterModel.Generated.Machines.InstrumentIndex (InstrumentFull (Keyed _root_.BarterModel.Generated.Machines.ExchangeIndex _root_.BarterModel.Generated.Machines.ExchangeId) _root_.BarterModel.Generated.Machines.AssetIndex)) := (List.map (fun (index, instrument) => (let exchange_id : _root_.BarterModel.Generated.Machines.ExchangeId := instrument.exchange;
     let exchange_key : _root_.BarterModel.Generated.Machines.ExchangeIndex := (match (find_exchange_by_exchange_id exchanges exchange_id) with | Except.ok ok_1 => ok_1 | Except.error _ => Rust.unreachable);
     let instrument_1 : InstrumentFull (Keyed _root_.BarterModel.Generated.Machines.ExchangeIndex _root_.BarterModel.Generated.Machines.ExchangeId) AssetFull := (InstrumentFull.map_exchange_key instrument (Keyed.new exchange_key exchange_id));
     let instrument_2 : InstrumentFull (Keyed _root_.BarterModel.Generated.Machines.ExchangeIndex _root_.BarterModel.Generated.Machines.ExchangeId) _root_.BarterModel.Generated.Machines.AssetIndex := (match (InstrumentFull.map_asset_key_with_lookup instrument_1 (fun asset => (find_asset_by_exchange_and_name_internal assets exchange_id asset.name_internal))) with | Except.ok ok_2 => ok_2 | Except.error _ => Rust.unreachable);
     (Keyed.new (InstrumentIndex.new index) instrument_2))) (Rust.Iter.enumerate self.instruments))
  { exchanges := exchanges, assets := assets, instruments := instruments : IndexedInstruments }

/-! ## barter-instrument/src/index/mod.rs -/

/-- generated from `impl IndexedInstruments :: fn builder` (barter-instrument/src/index/mod.rs:62) -/
@[gen_indexer] def IndexedInstruments.builder  : IndexedInstrumentsBuilder :=
  (IndexedInstrumentsBuilder.default)

/-- generated from `impl IndexedInstruments :: fn new` (barter-instrument/src/index/mod.rs:47) -/
@[gen_indexer] def IndexedInstruments.new {I : Type} [DecidableEq I] (I_into : I → InstrumentFull _root_.BarterModel.Generated.Machines.ExchangeId AssetFull) (Ord_ExchangeId : _root_.BarterModel.Generated.Machines.ExchangeId → _root_.BarterModel.Generated.Machines.ExchangeId → Bool) (Ord_InstrumentFull_ExchangeId_AssetFull : (InstrumentFull _root_.BarterModel.Generated.Machines.ExchangeId AssetFull) → (InstrumentFull _root_.BarterModel.Generated.Machines.ExchangeId AssetFull) → Bool) (Ord_ExchangeAsset_AssetFull : (ExchangeAsset AssetFull) → (ExchangeAsset AssetFull) → Bool) (instruments : List I) : IndexedInstruments :=
  (IndexedInstrumentsBuilder.build Ord_ExchangeId Ord_InstrumentFull_ExchangeId_AssetFull Ord_ExchangeAsset_AssetFull (List.foldl (fun builder instrument => (IndexedInstrumentsBuilder.add_instrument builder (I_into instrument))) (IndexedInstruments.builder) instruments))

/-- generated from `impl IndexedInstruments :: fn find_exchange_index` (barter-instrument/src/index/mod.rs:91) -/
@[gen_indexer] def IndexedInstruments.find_exchange_index (self : IndexedInstruments) (exchange : _root_.BarterModel.Generated.Machines.ExchangeId) : Except IndexError _root_.BarterModel.Generated.Machines.ExchangeIndex :=
  (find_exchange_by_exchange_id self.exchanges exchange)

/-- generated from `impl IndexedInstruments :: fn find_exchange` (barter-instrument/src/index/mod.rs:95) -/
@[gen_indexer] def IndexedInstruments.find_exchange (self : IndexedInstruments) (index : _root_.BarterModel.Generated.Machines.ExchangeIndex) : Except IndexError _root_.BarterModel.Generated.Machines.ExchangeId :=
  (match (Option.map (fun keyed => keyed.value) (List.find? (fun keyed => (decide (keyed.key = index))) self.exchanges)) with | some some_1 => Except.ok some_1 | none => Except.error (IndexError.ExchangeIndex (Rust.Str.mk [])))

/-- generated from `impl IndexedInstruments :: fn find_asset_index` (barter-instrument/src/index/mod.rs:114) -/
@[gen_indexer] def IndexedInstruments.find_asset_index (self : IndexedInstruments) (exchange : _root_.BarterModel.Generated.Machines.ExchangeId) (name : AssetNameInternal) : Except IndexError _root_.BarterModel.Generated.Machines.AssetIndex :=
  (find_asset_by_exchange_and_name_internal self.assets exchange name)

/-- generated from `impl IndexedInstruments :: fn find_asset` (barter-instrument/src/index/mod.rs:122) -/
@[gen_indexer] def IndexedInstruments.find_asset (self : IndexedInstruments) (index : _root_.BarterModel.Generated.Machines.AssetIndex) : Except IndexError (ExchangeAsset AssetFull) :=
  (match (Option.map (fun keyed => keyed.value) (List.find? (fun keyed => (decide (keyed.key = index))) self.assets)) with | some some_1 => Except.ok some_1 | none => Except.error (IndexError.AssetIndex (Rust.Str.mk [])))

/-- generated from `impl IndexedInstruments :: fn find_instrument_index` (barter-instrument/src/index/mod.rs:142) -/
@[gen_indexer] def IndexedInstruments.find_instrument_index (self : IndexedInstruments) (exchange : _root_.BarterModel.Generated.Machines.ExchangeId) (name : InstrumentNameInternal) : Except IndexError _root_.BarterModel.Generated.Machines.InstrumentIndex :=
  (match (List.findSome? (fun indexed => (if ((indexed.value.exchange.value = exchange) ∧ (indexed.value.name_internal = name)) then some indexed.key else none)) self.instruments) with | some some_1 => Except.ok some_1 | none => Except.error (IndexError.AssetIndex (Rust.Str.mk [Rust.FmtArg.id exchange, Rust.FmtArg.id name])))

/-- generated from `impl IndexedInstruments :: fn find_instrument` (barter-instrument/src/index/mod.rs:159) -/
@[gen_indexer] def IndexedInstruments.find_instrument (self : IndexedInstruments) (index : _root_.BarterModel.Generated.Machines.InstrumentIndex) : Except IndexError (InstrumentFull (Keyed _root_.BarterModel.Generated.Machines.ExchangeIndex _root_.BarterModel.Generated.Machines.ExchangeId) _root_.BarterModel.Generated.Machines.AssetIndex) :=
  (match (Option.map (fun keyed => keyed.value) (List.find? (fun keyed => (decide (keyed.key = index))) self.instruments)) with | some some_1 => Except.ok some_1 | none => Except.error (IndexError.InstrumentIndex (Rust.Str.mk [])))

/-! ## barter/src/engine/state/instrument/filter.rs -/

/-- generated from `enum InstrumentFilter` (barter/src/engine/state/instrument/filter.rs:11) -/
inductive InstrumentFilter (ExchangeKey : Type) (AssetKey : Type) (InstrumentKey : Type) where
  | None
  | Exchanges (f0 : Rust.OneOrMany ExchangeKey)
  | Instruments (f0 : Rust.OneOrMany InstrumentKey)
  | Underlyings (f0 : Rust.OneOrMany (Underlying AssetKey))
  deriving DecidableEq, Repr

/-- generated from `impl InstrumentFilter<ExchangeKey, AssetKey, InstrumentKey> :: fn exchanges` (barter/src/engine/state/instrument/filter.rs:23) -/
@[gen_filters_actions] def InstrumentFilter.exchanges {ExchangeKey : Type} [DecidableEq ExchangeKey] {AssetKey : Type} [DecidableEq AssetKey] {InstrumentKey : Type} [DecidableEq InstrumentKey] (exchanges : List ExchangeKey) : InstrumentFilter ExchangeKey AssetKey InstrumentKey :=
  (InstrumentFilter.Exchanges (Rust.OneOrMany.from_iter exchanges))

/-- generated from `impl InstrumentFilter<ExchangeKey, AssetKey, InstrumentKey> :: fn instruments` (barter/src/engine/state/instrument/filter.rs:27) -/
@[gen_filters_actions] def InstrumentFilter.instruments {ExchangeKey : Type} [DecidableEq ExchangeKey] {AssetKey : Type} [DecidableEq AssetKey] {InstrumentKey : Type} [DecidableEq InstrumentKey] (instruments : List InstrumentKey) : InstrumentFilter ExchangeKey AssetKey InstrumentKey :=
  (InstrumentFilter.Instruments (Rust.OneOrMany.from_iter instruments))

/-- generated from `impl InstrumentFilter<ExchangeKey, AssetKey, InstrumentKey> :: fn underlyings` (barter/src/engine/state/instrument/filter.rs:31) -/
@[gen_filters_actions] def InstrumentFilter.underlyings {ExchangeKey : Type} [DecidableEq ExchangeKey] {AssetKey : Type} [DecidableEq AssetKey] {InstrumentKey : Type} [DecidableEq InstrumentKey] (exchanges : List (Underlying AssetKey)) : InstrumentFilter ExchangeKey AssetKey InstrumentKey :=
  (InstrumentFilter.Underlyings (Rust.OneOrMany.from_iter exchanges))

/-! ## barter/src/engine/state/instrument/data.rs -/

-- a trait as the record of its methods (type parameters: Self, the trait's own, its associated types): a call `x.m(..)` on a value of a type parameter `T` is `T_InstrumentDataState.m x ..` of an explicit parameter `T_InstrumentDataState : InstrumentDataState T ..` (nothing is assumed about the implementation); `&mut self` methods return the new `Self` with their result
/-- generated from `trait InstrumentDataState` (barter/src/engine/state/instrument/data.rs:29) -/
structure InstrumentDataState (Self : Type) (ExchangeKey : Type) (AssetKey : Type) (InstrumentKey : Type) (MarketEventKind : Type) where
  price : Self → _root_.Option Rat

/-! ## barter/src/engine/state/instrument/mod.rs -/

/-- generated from `struct InstrumentState` (barter/src/engine/state/instrument/mod.rs:246) -/
structure InstrumentState (InstrumentData : Type) (ExchangeKey : Type) (AssetKey : Type) (InstrumentKey : Type) where
  key : InstrumentKey
  instrument : InstrumentFull ExchangeKey AssetKey
  tear_sheet : TearSheetGenerator
  position : PositionManager InstrumentKey
  orders : Orders ExchangeKey InstrumentKey
  data : InstrumentData
  deriving DecidableEq, Repr

/-- generated from `struct InstrumentStates` (barter/src/engine/state/instrument/mod.rs:47) -/
structure InstrumentStates (InstrumentData : Type) (ExchangeKey : Type) (AssetKey : Type) (InstrumentKey : Type) where
  f0 : Rust.IndexMap InstrumentNameInternal (InstrumentState InstrumentData ExchangeKey AssetKey InstrumentKey)
  deriving DecidableEq, Repr

/-- generated from `impl InstrumentStates<InstrumentData> :: fn filtered` (barter/src/engine/state/instrument/mod.rs:181) -/
@[gen_filters_actions] def InstrumentStates.filtered {InstrumentData : Type} [DecidableEq InstrumentData] (self : InstrumentStates InstrumentData _root_.BarterModel.Generated.Machines.ExchangeIndex _root_.BarterModel.Generated.Machines.AssetIndex _root_.BarterModel.Generated.Machines.InstrumentIndex) (filter : InstrumentFilter _root_.BarterModel.Generated.Machines.ExchangeIndex _root_.BarterModel.Generated.Machines.AssetIndex _root_.BarterModel.Generated.Machines.InstrumentIndex) : List (InstrumentState InstrumentData _root_.BarterModel.Generated.Machines.ExchangeIndex _root_.BarterModel.Generated.Machines.AssetIndex _root_.BarterModel.Generated.Machines.InstrumentIndex) :=
  (match filter with
  | InstrumentFilter.None =>
      (Rust.IndexMap.values self.f0)
  | InstrumentFilter.Exchanges exchanges =>
      (List.filter (fun state => (Rust.OneOrMany.contains exchanges state.instrument.exchange)) (Rust.IndexMap.values self.f0))
  | InstrumentFilter.Instruments instruments =>
      (List.filter (fun state => (Rust.OneOrMany.contains instruments state.key)) (Rust.IndexMap.values self.f0))
  | InstrumentFilter.Underlyings underlying =>
      (List.filter (fun state => (Rust.OneOrMany.contains underlying state.instrument.underlying)) (Rust.IndexMap.values self.f0)))

/-- generated from `impl InstrumentStates<InstrumentData> :: fn instruments` (barter/src/engine/state/instrument/mod.rs:107) -/
@[gen_filters_actions] def InstrumentStates.instruments {InstrumentData : Type} [DecidableEq InstrumentData] (self : InstrumentStates InstrumentData _root_.BarterModel.Generated.Machines.ExchangeIndex _root_.BarterModel.Generated.Machines.AssetIndex _root_.BarterModel.Generated.Machines.InstrumentIndex) (filter : InstrumentFilter _root_.BarterModel.Generated.Machines.ExchangeIndex _root_.BarterModel.Generated.Machines.AssetIndex _root_.BarterModel.Generated.Machines.InstrumentIndex) : List (InstrumentState InstrumentData _root_.BarterModel.Generated.Machines.ExchangeIndex _root_.BarterModel.Generated.Machines.AssetIndex _root_.BarterModel.Generated.Machines.InstrumentIndex) :=
  (InstrumentStates.filtered self filter)

/-- generated from `impl InstrumentStates<InstrumentData> :: fn tear_sheets` (barter/src/engine/state/instrument/mod.rs:125) -/
@[gen_filters_actions] def InstrumentStates.tear_sheets {InstrumentData : Type} [DecidableEq InstrumentData] (self : InstrumentStates InstrumentData _root_.BarterModel.Generated.Machines.ExchangeIndex _root_.BarterModel.Generated.Machines.AssetIndex _root_.BarterModel.Generated.Machines.InstrumentIndex) (filter : InstrumentFilter _root_.BarterModel.Generated.Machines.ExchangeIndex _root_.BarterModel.Generated.Machines.AssetIndex _root_.BarterModel.Generated.Machines.InstrumentIndex) : List TearSheetGenerator :=
  (List.map (fun state => state.tear_sheet) (InstrumentStates.filtered self filter))

/-- generated from `impl InstrumentStates<InstrumentData> :: fn positions` (barter/src/engine/state/instrument/mod.rs:137) -/
@[gen_filters_actions] def InstrumentStates.positions {InstrumentData : Type} [DecidableEq InstrumentData] (self : InstrumentStates InstrumentData _root_.BarterModel.Generated.Machines.ExchangeIndex _root_.BarterModel.Generated.Machines.AssetIndex _root_.BarterModel.Generated.Machines.InstrumentIndex) (filter : InstrumentFilter _root_.BarterModel.Generated.Machines.ExchangeIndex _root_.BarterModel.Generated.Machines.AssetIndex _root_.BarterModel.Generated.Machines.InstrumentIndex) : List (PositionManager _root_.BarterModel.Generated.Machines.InstrumentIndex) :=
  (List.map (fun state => state.position) (InstrumentStates.filtered self filter))

/-- generated from `impl InstrumentStates<InstrumentData> :: fn orders` (barter/src/engine/state/instrument/mod.rs:149) -/
@[gen_filters_actions] def InstrumentStates.orders {InstrumentData : Type} [DecidableEq InstrumentData] (self : InstrumentStates InstrumentData _root_.BarterModel.Generated.Machines.ExchangeIndex _root_.BarterModel.Generated.Machines.AssetIndex _root_.BarterModel.Generated.Machines.InstrumentIndex) (filter : InstrumentFilter _root_.BarterModel.Generated.Machines.ExchangeIndex _root_.BarterModel.Generated.Machines.AssetIndex _root_.BarterModel.Generated.Machines.InstrumentIndex) : List (Orders _root_.BarterModel.Generated.Machines.ExchangeIndex _root_.BarterModel.Generated.Machines.InstrumentIndex) :=
  (List.map (fun state => state.orders) (InstrumentStates.filtered self filter))

/-- generated from `impl InstrumentStates<InstrumentData> :: fn instrument_datas` (barter/src/engine/state/instrument/mod.rs:158) -/
@[gen_filters_actions] def InstrumentStates.instrument_datas {InstrumentData : Type} [DecidableEq InstrumentData] (self : InstrumentStates InstrumentData _root_.BarterModel.Generated.Machines.ExchangeIndex _root_.BarterModel.Generated.Machines.AssetIndex _root_.BarterModel.Generated.Machines.InstrumentIndex) (filter : InstrumentFilter _root_.BarterModel.Generated.Machines.ExchangeIndex _root_.BarterModel.Generated.Machines.AssetIndex _root_.BarterModel.Generated.Machines.InstrumentIndex) : List InstrumentData :=
  (List.map (fun state => state.data) (InstrumentStates.filtered self filter))

/-! ## barter/src/engine/state/order/mod.rs -/

/-- generated from `impl OrderManager<ExchangeKey, InstrumentKey> for Orders<ExchangeKey, InstrumentKey> :: fn orders` (barter/src/engine/state/order/mod.rs:55) -/
@[gen_filters_actions] def Orders.orders {ExchangeKey : Type} [DecidableEq ExchangeKey] {InstrumentKey : Type} [DecidableEq InstrumentKey] (self : Orders ExchangeKey InstrumentKey) : Rust.Bag (Order ExchangeKey InstrumentKey ActiveOrderState) :=
  (Rust.Map.values self.f0)

/-! ## barter-execution/src/order/mod.rs -/

/-- generated from `impl Order<ExchangeKey, InstrumentKey, ActiveOrderState> :: fn to_request_cancel` (barter-execution/src/order/mod.rs:137) -/
@[gen_filters_actions] def Order.to_request_cancel {ExchangeKey : Type} [DecidableEq ExchangeKey] {InstrumentKey : Type} [DecidableEq InstrumentKey] (self : Order ExchangeKey InstrumentKey ActiveOrderState) : _root_.Option (OrderEvent RequestCancel ExchangeKey InstrumentKey) :=
  (match self with
  | ⟨key, _, _, _, _, _, state⟩ =>
    (match state with
    | ActiveOrderState.OpenInFlight _ =>
      let request_cancel : RequestCancel := { id := none : RequestCancel }
      (some ({ key := key, state := request_cancel : OrderEvent RequestCancel ExchangeKey InstrumentKey }))
    | ActiveOrderState.Open «open» =>
      let request_cancel : RequestCancel := { id := (some «open».id) : RequestCancel }
      (some ({ key := key, state := request_cancel : OrderEvent RequestCancel ExchangeKey InstrumentKey }))
    | _ =>
      none))

/-! ## barter/src/engine/state/mod.rs -/

-- restricted to the fields instruments; not translated (no translated function may read them; translated code cannot construct the struct): trading : TradingState, global : GlobalData, connectivity : ConnectivityStates, assets : AssetStates
/-- generated from `struct EngineState` (barter/src/engine/state/mod.rs:60) -/
structure EngineStateI (GlobalData : Type) (InstrumentData : Type) where
  instruments : InstrumentStates InstrumentData _root_.BarterModel.Generated.Machines.ExchangeIndex _root_.BarterModel.Generated.Machines.AssetIndex _root_.BarterModel.Generated.Machines.InstrumentIndex
  deriving DecidableEq, Repr

/-! ## barter/src/strategy/close_positions.rs -/

/-- generated from `fn build_ioc_market_order_to_close_position` (barter/src/strategy/close_positions.rs:102) -/
@[gen_filters_actions] def build_ioc_market_order_to_close_position {ExchangeKey : Type} [DecidableEq ExchangeKey] {AssetKey : Type} [DecidableEq AssetKey] {InstrumentKey : Type} [DecidableEq InstrumentKey] (exchange : ExchangeKey) (position : Position AssetKey InstrumentKey) (strategy_id : StrategyId) (price : Rat) (gen_cid : Unit → ClientOrderId) : OrderEvent RequestOpen ExchangeKey InstrumentKey :=
  (OrderEvent.mk ({ exchange := exchange, instrument := position.instrument, strategy := strategy_id, cid := (gen_cid ()) : OrderKey ExchangeKey InstrumentKey }) ((RequestOpen.mk ((match position.side with
  | Side.Buy =>
      Side.Sell
  | Side.Sell =>
      Side.Buy)) price position.quantity_abs OrderKind.Market TimeInForce.ImmediateOrCancel : RequestOpen)) : OrderEvent RequestOpen ExchangeKey InstrumentKey)

/-- generated from `fn close_open_positions_with_market_orders` (barter/src/strategy/close_positions.rs:63) -/
@[gen_filters_actions] def close_open_positions_with_market_orders {GlobalData : Type} [DecidableEq GlobalData] {InstrumentData : Type} [DecidableEq InstrumentData] {InstrumentData_MarketEventKind : Type} [DecidableEq InstrumentData_MarketEventKind] (InstrumentData_InstrumentDataState : InstrumentDataState InstrumentData _root_.BarterModel.Generated.Machines.ExchangeIndex _root_.BarterModel.Generated.Machines.AssetIndex _root_.BarterModel.Generated.Machines.InstrumentIndex InstrumentData_MarketEventKind) (strategy_id : StrategyId) (state : EngineStateI GlobalData InstrumentData) (filter : InstrumentFilter _root_.BarterModel.Generated.Machines.ExchangeIndex _root_.BarterModel.Generated.Machines.AssetIndex _root_.BarterModel.Generated.Machines.InstrumentIndex) (gen_cid : (InstrumentState InstrumentData _root_.BarterModel.Generated.Machines.ExchangeIndex _root_.BarterModel.Generated.Machines.AssetIndex _root_.BarterModel.Generated.Machines.InstrumentIndex) → ClientOrderId) : (List (OrderEvent RequestCancel _root_.BarterModel.Generated.Machines.ExchangeIndex _root_.BarterModel.Generated.Machines.InstrumentIndex)) × (List (OrderEvent RequestOpen _root_.BarterModel.Generated.Machines.ExchangeIndex _root_.BarterModel.Generated.Machines.InstrumentIndex)) :=
  let open_requests : List (OrderEvent RequestOpen _root_.BarterModel.Generated.Machines.ExchangeIndex _root_.BarterModel.Generated.Machines.InstrumentIndex) := (List.filterMap (fun state_1 => (
      (match state_1.position.current with
      | none => none
      | some position =>
        (match (InstrumentData_InstrumentDataState.price state_1.data) with
        | none => none
        | some price =>
          (some (build_ioc_market_order_to_close_position state_1.instrument.exchange position strategy_id price (fun (_ : Unit) => (gen_cid state_1)))))))) (InstrumentStates.instruments state.instruments filter))
  ([], open_requests)

/-! ## barter/src/engine/error.rs -/

/-- generated from `enum RecoverableEngineError` (barter/src/engine/error.rs:24) -/
inductive RecoverableEngineError where
  | ExecutionChannelUnhealthy (f0 : Rust.Str)
  deriving DecidableEq, Repr

/-- generated from `enum UnrecoverableEngineError` (barter/src/engine/error.rs:34) -/
inductive UnrecoverableEngineError where
  | IndexError (f0 : _root_.BarterModel.Generated.Machines.IndexError)
  | ExecutionChannelTerminated (f0 : Rust.Str)
  | Custom (f0 : Rust.Str)
  deriving DecidableEq, Repr

/-- generated from `enum EngineError` (barter/src/engine/error.rs:12) -/
inductive EngineError where
  | Recoverable (f0 : RecoverableEngineError)
  | Unrecoverable (f0 : UnrecoverableEngineError)
  deriving DecidableEq, Repr

/-! ## barter/src/execution/request.rs -/

/-- generated from `enum ExecutionRequest` (barter/src/execution/request.rs:13) -/
inductive ExecutionRequest (ExchangeKey : Type) (InstrumentKey : Type) where
  | Shutdown
  | Cancel (f0 : OrderEvent RequestCancel ExchangeKey InstrumentKey)
  | Open (f0 : OrderEvent RequestOpen ExchangeKey InstrumentKey)
  deriving DecidableEq, Repr

/-! ## barter-integration/src/lib.rs -/

-- a trait as the record of its methods (type parameters: Self, the trait's own, its associated types): a call `x.m(..)` on a value of a type parameter `T` is `T_Unrecoverable.m x ..` of an explicit parameter `T_Unrecoverable : Unrecoverable T ..` (nothing is assumed about the implementation); `&mut self` methods return the new `Self` with their result
/-- generated from `trait Unrecoverable` (barter-integration/src/lib.rs:85) -/
structure Unrecoverable (Self : Type) where
  is_unrecoverable : Self → Bool

/-! ## barter-integration/src/channel.rs -/

-- a trait as the record of its methods (type parameters: Self, the trait's own, its associated types): a call `x.m(..)` on a value of a type parameter `T` is `T_Tx.m x ..` of an explicit parameter `T_Tx : Tx T ..` (nothing is assumed about the implementation); `&mut self` methods return the new `Self` with their result
/-- generated from `trait Tx` (barter-integration/src/channel.rs:12) -/
structure Tx (Self : Type) (Item : Type) (Error : Type) where
  send : {ItemT : Type} → [DecidableEq ItemT] → (ItemT → Item) → Self → ItemT → Except Error Unit

/-! ## barter/src/engine/execution_tx.rs -/

-- a trait as the record of its methods (type parameters: Self, the trait's own, its associated types): a call `x.m(..)` on a value of a type parameter `T` is `T_ExecutionTxMap.m x ..` of an explicit parameter `T_ExecutionTxMap : ExecutionTxMap T ..` (nothing is assumed about the implementation); `&mut self` methods return the new `Self` with their result
/-- generated from `trait ExecutionTxMap` (barter/src/engine/execution_tx.rs:17) -/
structure ExecutionTxMap (Self : Type) (ExchangeKey : Type) (InstrumentKey : Type) (ExecutionTx : Type) where
  find : Self → ExchangeKey → Except UnrecoverableEngineError ExecutionTx
  iter : Self → List ExecutionTx

/-! ## barter/src/engine/action/send_requests.rs -/

/-- generated from `struct SendRequestsOutput` (barter/src/engine/action/send_requests.rs:160) -/
structure SendRequestsOutput (Kind : Type) (ExchangeKey : Type) (InstrumentKey : Type) where
  sent : Rust.NoneOneOrMany (OrderEvent Kind ExchangeKey InstrumentKey)
  errors : Rust.NoneOneOrMany ((OrderEvent Kind ExchangeKey InstrumentKey) × EngineError)
  deriving DecidableEq, Repr

/-- generated from `derive_new SendRequestsOutput` (barter/src/engine/action/send_requests.rs:160) -/
@[gen_send_requests] def SendRequestsOutput.new {Kind : Type} [DecidableEq Kind] {ExchangeKey : Type} [DecidableEq ExchangeKey] {InstrumentKey : Type} [DecidableEq InstrumentKey] (sent : Rust.NoneOneOrMany (OrderEvent Kind ExchangeKey InstrumentKey)) (errors : Rust.NoneOneOrMany ((OrderEvent Kind ExchangeKey InstrumentKey) × EngineError)) : SendRequestsOutput Kind ExchangeKey InstrumentKey :=
  { sent := sent, errors := errors }

/-- generated from `impl SendRequestsOutput<Kind, ExchangeKey, InstrumentKey> :: fn is_empty` (barter/src/engine/action/send_requests.rs:167) -/
@[gen_send_requests] def SendRequestsOutput.is_empty {Kind : Type} [DecidableEq Kind] {ExchangeKey : Type} [DecidableEq ExchangeKey] {InstrumentKey : Type} [DecidableEq InstrumentKey] (self : SendRequestsOutput Kind ExchangeKey InstrumentKey) : Bool :=
  (decide (((Rust.NoneOneOrMany.is_none self.sent) = true) ∧ ((Rust.NoneOneOrMany.is_none self.errors) = true)))

/-- generated from `impl SendRequestsOutput<Kind, ExchangeKey, InstrumentKey> :: fn unrecoverable_errors` (barter/src/engine/action/send_requests.rs:172) -/
@[gen_send_requests] def SendRequestsOutput.unrecoverable_errors {Kind : Type} [DecidableEq Kind] {ExchangeKey : Type} [DecidableEq ExchangeKey] {InstrumentKey : Type} [DecidableEq InstrumentKey] (self : SendRequestsOutput Kind ExchangeKey InstrumentKey) : Rust.NoneOneOrMany UnrecoverableEngineError :=
  (Rust.NoneOneOrMany.from_iter ((List.filterMap (fun (_order, error) => (match error with
    | EngineError.Unrecoverable error_1 =>
        (some error_1)
    | _ =>
        none)) (Rust.NoneOneOrMany.to_list self.errors))))

/-- generated from `struct SendCancelsAndOpensOutput` (barter/src/engine/action/send_requests.rs:126) -/
structure SendCancelsAndOpensOutput (ExchangeKey : Type) (InstrumentKey : Type) where
  cancels : SendRequestsOutput RequestCancel ExchangeKey InstrumentKey
  opens : SendRequestsOutput RequestOpen ExchangeKey InstrumentKey
  deriving DecidableEq, Repr

/-- generated from `derive_new SendCancelsAndOpensOutput` (barter/src/engine/action/send_requests.rs:126) -/
@[gen_send_requests] def SendCancelsAndOpensOutput.new {ExchangeKey : Type} [DecidableEq ExchangeKey] {InstrumentKey : Type} [DecidableEq InstrumentKey] (cancels : SendRequestsOutput RequestCancel ExchangeKey InstrumentKey) (opens : SendRequestsOutput RequestOpen ExchangeKey InstrumentKey) : SendCancelsAndOpensOutput ExchangeKey InstrumentKey :=
  { cancels := cancels, opens := opens }

/-- generated from `impl SendCancelsAndOpensOutput<ExchangeKey, InstrumentKey> :: fn is_empty` (barter/src/engine/action/send_requests.rs:135) -/
@[gen_send_requests] def SendCancelsAndOpensOutput.is_empty {ExchangeKey : Type} [DecidableEq ExchangeKey] {InstrumentKey : Type} [DecidableEq InstrumentKey] (self : SendCancelsAndOpensOutput ExchangeKey InstrumentKey) : Bool :=
  (decide (((SendRequestsOutput.is_empty self.cancels) = true) ∧ ((SendRequestsOutput.is_empty self.opens) = true)))

/-- generated from `impl SendCancelsAndOpensOutput<ExchangeKey, InstrumentKey> :: fn unrecoverable_errors` (barter/src/engine/action/send_requests.rs:140) -/
@[gen_send_requests] def SendCancelsAndOpensOutput.unrecoverable_errors {ExchangeKey : Type} [DecidableEq ExchangeKey] {InstrumentKey : Type} [DecidableEq InstrumentKey] (self : SendCancelsAndOpensOutput ExchangeKey InstrumentKey) : Rust.NoneOneOrMany UnrecoverableEngineError :=
  (Rust.NoneOneOrMany.extend (SendRequestsOutput.unrecoverable_errors self.cancels) (Rust.NoneOneOrMany.to_list (SendRequestsOutput.unrecoverable_errors self.opens)))

/-- generated from `impl SendRequests<ExchangeKey, InstrumentKey> for Engine :: fn send_request` (barter/src/engine/action/send_requests.rs:75) -/
@[gen_send_requests] def Engine.send_request {Clock : Type} [DecidableEq Clock] {State : Type} [DecidableEq State] {ExecutionTxs : Type} [DecidableEq ExecutionTxs] {Strategy : Type} [DecidableEq Strategy] {Risk : Type} [DecidableEq Risk] {ExchangeKey : Type} [DecidableEq ExchangeKey] {InstrumentKey : Type} [DecidableEq InstrumentKey] {Kind : Type} [DecidableEq Kind] {ExecutionTxs_ExecutionTx : Type} [DecidableEq ExecutionTxs_ExecutionTx] {ExecutionTxs_ExecutionTx_Error : Type} [DecidableEq ExecutionTxs_ExecutionTx_Error] (ExecutionTxs_ExecutionTxMap : ExecutionTxMap ExecutionTxs ExchangeKey InstrumentKey ExecutionTxs_ExecutionTx) (ExecutionTxs_ExecutionTx_Tx : Tx ExecutionTxs_ExecutionTx (ExecutionRequest ExchangeKey InstrumentKey) ExecutionTxs_ExecutionTx_Error) (ExecutionRequest_from : (OrderEvent Kind ExchangeKey InstrumentKey) → ExecutionRequest ExchangeKey InstrumentKey) (ExecutionTxs_ExecutionTx_Error_Unrecoverable : Unrecoverable ExecutionTxs_ExecutionTx_Error) (self : Engine Clock State ExecutionTxs Strategy Risk) (request : OrderEvent Kind ExchangeKey InstrumentKey) : Except EngineError Unit :=
  (match (ExecutionTxs_ExecutionTxMap.find self.execution_txs request.key.exchange) with
  | Except.error err_1 => (Except.error (EngineError.Unrecoverable err_1))
  | Except.ok try_1 =>
    (let scrut_1 : Except ExecutionTxs_ExecutionTx_Error Unit := (ExecutionTxs_ExecutionTx_Tx.send (fun x_1 => x_1) try_1 (ExecutionRequest_from request))
    (match scrut_1 with
    | Except.ok () =>
        (Except.ok ())
    | Except.error error =>
      (if ((ExecutionTxs_ExecutionTx_Error_Unrecoverable.is_unrecoverable error) = true) then
          (Except.error (EngineError.Unrecoverable (UnrecoverableEngineError.ExecutionChannelTerminated (Rust.Str.mk []))))
      else
          (match scrut_1 with
          | Except.error error =>
              (Except.error (EngineError.Recoverable (RecoverableEngineError.ExecutionChannelUnhealthy (Rust.Str.mk []))))
          | _ => Rust.unreachable)))))

/-- generated from `impl SendRequests<ExchangeKey, InstrumentKey> for Engine :: fn send_requests` (barter/src/engine/action/send_requests.rs:53) -/
@[gen_send_requests] def Engine.send_requests {Clock : Type} [DecidableEq Clock] {State : Type} [DecidableEq State] {ExecutionTxs : Type} [DecidableEq ExecutionTxs] {Strategy : Type} [DecidableEq Strategy] {Risk : Type} [DecidableEq Risk] {ExchangeKey : Type} [DecidableEq ExchangeKey] {InstrumentKey : Type} [DecidableEq InstrumentKey] {Kind : Type} [DecidableEq Kind] {ExecutionTxs_ExecutionTx : Type} [DecidableEq ExecutionTxs_ExecutionTx] {ExecutionTxs_ExecutionTx_Error : Type} [DecidableEq ExecutionTxs_ExecutionTx_Error] (ExecutionRequest_from : (OrderEvent Kind ExchangeKey InstrumentKey) → ExecutionRequest ExchangeKey InstrumentKey) (ExecutionTxs_ExecutionTxMap : ExecutionTxMap ExecutionTxs ExchangeKey InstrumentKey ExecutionTxs_ExecutionTx) (ExecutionTxs_ExecutionTx_Tx : Tx ExecutionTxs_ExecutionTx (ExecutionRequest ExchangeKey InstrumentKey) ExecutionTxs_ExecutionTx_Error) (ExecutionTxs_ExecutionTx_Error_Unrecoverable : Unrecoverable ExecutionTxs_ExecutionTx_Error) (self : Engine Clock State ExecutionTxs Strategy Risk) (requests : List (OrderEvent Kind ExchangeKey InstrumentKey)) : SendRequestsOutput Kind ExchangeKey InstrumentKey :=
  (match (Rust.Iter.partition_result (List.map (fun request => (match (match (Engine.send_request ExecutionTxs_ExecutionTxMap ExecutionTxs_ExecutionTx_Tx ExecutionRequest_from ExecutionTxs_ExecutionTx_Error_Unrecoverable self request) with | Except.ok ok_1 => Except.ok ok_1 | Except.error err_1 => Except.error ((fun error => (request, error)) err_1)) with | Except.ok ok_2 => Except.ok ((fun _ => request) ok_2) | Except.error err_2 => Except.error err_2)) requests)) with
  | (sent, errors) =>
    (SendRequestsOutput.new (Rust.NoneOneOrMany.from_vec sent) (Rust.NoneOneOrMany.from_vec errors)))

end BarterModel.Generated.Machines
