import BarterModel.Generated.Machines
/-
GENERATED FILE -- DO NOT EDIT.  Second output file of tools/rust2lean_sm.py (same namespace as, and importing,
Generated/Machines.lean, whose prelude and items it uses), rewritten from the Rust source on every run of
`./check` for the properties whose props/Cxx.py names a group of this file in PREBUILD; the committed copy is
the output for the pinned tree.  The agreement with the hand-written models is proved in
Lemmas/KernelsAgree/{DataSetSM,PnLReturnsSM,RegistersSM,RiskSM,MetricsSM,ClockSM}.lean.

Source items (file :: item, line, hash of the item's source text):
  barter/src/statistic/algorithm.rs :: extern sqrt  (line 53)  sha256[:16]=fb89e8ceda349ac7
  barter/src/statistic/algorithm.rs :: mod welford_online :: fn calculate_recurrence_relation_m  (line 16)  sha256[:16]=d9133dbc02edb40e
  barter/src/statistic/algorithm.rs :: mod welford_online :: fn calculate_population_variance  (line 35)  sha256[:16]=3212279d6fe66b01
  barter/src/statistic/summary/dataset/dispersion.rs :: struct Range  (line 47)  sha256[:16]=15fbfff4ee04440d
  barter/src/statistic/summary/dataset/dispersion.rs :: derive_default Range  (line 47)  sha256[:16]=871ba9dfd4ee13c9
  barter/src/statistic/summary/dataset/dispersion.rs :: impl Range :: fn init  (line 55)  sha256[:16]=5874b5da2e53772c
  barter/src/statistic/summary/dataset/dispersion.rs :: impl Range :: fn update  (line 64)  sha256[:16]=dfd2d1cec1b53bc4
  barter/src/statistic/summary/dataset/dispersion.rs :: impl Range :: fn range  (line 81)  sha256[:16]=b53ae48e84147020
  barter/src/statistic/summary/dataset/dispersion.rs :: struct Dispersion  (line 7)  sha256[:16]=f4dcfd155f92b85b
  barter/src/statistic/summary/dataset/dispersion.rs :: derive_default Dispersion  (line 7)  sha256[:16]=e7295628bac85ce5
  barter/src/statistic/summary/dataset/dispersion.rs :: impl Dispersion :: fn update  (line 17)  sha256[:16]=75170c9c05843fb4
  barter/src/statistic/summary/dataset/mod.rs :: struct DataSetSummary  (line 46)  sha256[:16]=9104660592cf5150
  barter/src/statistic/summary/dataset/mod.rs :: derive_default DataSetSummary  (line 46)  sha256[:16]=83442baff3df25ad
  barter/src/statistic/summary/dataset/mod.rs :: impl DataSetSummary :: fn update  (line 61)  sha256[:16]=cb9866a77bfd8164
  barter/src/engine/state/position.rs :: fn calculate_pnl_return  (line 549)  sha256[:16]=bf485ec848f27501
  barter/src/statistic/summary/pnl.rs :: struct PnLReturns  (line 23)  sha256[:16]=4c9d1bbbd6b3c79d
  barter/src/statistic/summary/pnl.rs :: derive_default PnLReturns  (line 23)  sha256[:16]=8d52e7ba759eb894
  barter/src/statistic/summary/pnl.rs :: impl PnLReturns :: fn update  (line 43)  sha256[:16]=fd8b19af50367f92
  barter/src/lib.rs :: derive_new Timed  (line 108)  sha256[:16]=d3752d444bf8b46b
  barter/src/statistic/metric/drawdown/mod.rs :: derive_default DrawdownGenerator  (line 38)  sha256[:16]=3fe9497759b1887d
  barter/src/statistic/metric/drawdown/mean.rs :: derive_default MeanDrawdownGenerator  (line 16)  sha256[:16]=b028a947c9c97989
  barter/src/statistic/metric/drawdown/max.rs :: derive_default MaxDrawdownGenerator  (line 17)  sha256[:16]=254863665c374977
  barter/src/statistic/summary/instrument.rs :: struct TearSheetGenerator  (line 43)  sha256[:16]=ffb250740447cd25
  barter/src/statistic/summary/instrument.rs :: impl TearSheetGenerator :: fn init  (line 58)  sha256[:16]=aed034a30f2979ee
  barter/src/statistic/summary/instrument.rs :: impl TearSheetGenerator :: fn update_from_position  (line 70)  sha256[:16]=0494333b3b6808db
  barter-execution/src/balance.rs :: struct Balance  (line 29)  sha256[:16]=d5398f294ea0c06b
  barter-execution/src/balance.rs :: struct AssetBalance  (line 9)  sha256[:16]=9770040044c5a5ef
  barter-integration/src/snapshot.rs :: struct Snapshot  (line 18)  sha256[:16]=15f008c1ed1cebf1
  barter-integration/src/snapshot.rs :: impl Snapshot :: fn value  (line 21)  sha256[:16]=09737996ea33135c
  barter/src/statistic/summary/asset.rs :: struct TearSheetAssetGenerator  (line 24)  sha256[:16]=e805975c3f0f6dc1
  barter/src/statistic/summary/asset.rs :: derive_default TearSheetAssetGenerator  (line 24)  sha256[:16]=a4c91ce1da2cd38c
  barter/src/statistic/summary/asset.rs :: impl TearSheetAssetGenerator :: fn update_from_balance  (line 43)  sha256[:16]=e59ce766057823eb
  barter-instrument/src/asset/mod.rs :: opaque Asset  (line 67)  sha256[:16]=a3a9184044de0a6e
  barter/src/engine/state/asset/mod.rs :: struct AssetState  (line 99)  sha256[:16]=0eecc04c049f6a42
  barter/src/engine/state/asset/mod.rs :: impl AssetState :: fn update_from_balance  (line 115)  sha256[:16]=22cdb5786d86d202
  barter-data/src/books/mod.rs :: struct Level  (line 270)  sha256[:16]=eb3c0af9ebe407a3
  barter-data/src/books/mod.rs :: fn volume_weighted_mid_price  (line 309)  sha256[:16]=8ba7d7b5c92d46ea
  barter-data/src/subscription/book.rs :: struct OrderBookL1  (line 36)  sha256[:16]=52f149f38f522027
  barter-data/src/subscription/book.rs :: derive_default OrderBookL1  (line 36)  sha256[:16]=8e418cddc3ce4089
  barter-data/src/subscription/book.rs :: impl OrderBookL1 :: fn volume_weighed_mid_price  (line 57)  sha256[:16]=bef747cfbf62f065
  barter-data/src/subscription/trade.rs :: struct PublicTrade  (line 29)  sha256[:16]=2cd0a958327581c2
  barter-data/src/event.rs :: enum DataKind  (line 124)  sha256[:16]=2744b284b9690773
  barter-instrument/src/exchange.rs :: opaque ExchangeId  (line 33)  sha256[:16]=aa8a0005e9ba306c
  barter-data/src/event.rs :: struct MarketEvent  (line 42)  sha256[:16]=dd7c1736321cd75a
  barter/src/engine/state/instrument/data.rs :: struct DefaultInstrumentMarketData  (line 63)  sha256[:16]=02b69e9e6c862d05
  barter/src/engine/state/instrument/data.rs :: derive_default DefaultInstrumentMarketData  (line 63)  sha256[:16]=c0739d65c3bfebeb
  barter/src/engine/state/instrument/data.rs :: impl InstrumentDataState for DefaultInstrumentMarketData :: fn price  (line 71)  sha256[:16]=75618054ec9fd07a
  barter/src/engine/state/instrument/data.rs :: impl Processor<&MarketEvent<InstrumentKey, DataKind>> for DefaultInstrumentMarketData :: fn process  (line 83)  sha256[:16]=d35f59424ad30d57
  barter/src/risk/mod.rs :: struct RiskApproved  (line 55)  sha256[:16]=6dce8b24ea4befb7
  barter/src/risk/mod.rs :: derive_new RiskApproved  (line 55)  sha256[:16]=a02f59cb6d5f742d
  barter/src/risk/mod.rs :: impl RiskApproved :: fn into_item  (line 58)  sha256[:16]=875ccd7dc743d119
  barter/src/risk/mod.rs :: struct RiskRefused  (line 66)  sha256[:16]=1d5637f761eecabc
  barter/src/risk/mod.rs :: impl RiskRefused<T, Reason> :: fn into_item  (line 81)  sha256[:16]=7d1ed6249b0adbc8
  barter/src/risk/check/mod.rs :: struct CheckHigherThan  (line 30)  sha256[:16]=9bf6e3ebc0fb7ef4
  barter/src/risk/check/mod.rs :: derive_new CheckHigherThan  (line 30)  sha256[:16]=387c80837d5d3562
  barter/src/risk/check/mod.rs :: struct CheckFailHigherThan  (line 63)  sha256[:16]=d3e9d053fbd89169
  barter/src/risk/check/mod.rs :: impl RiskCheck for CheckHigherThan :: fn check  (line 46)  sha256[:16]=c79e5ddf4a72aabf
  barter/src/risk/check/util.rs :: fn calculate_quote_notional  (line 16)  sha256[:16]=e36510cd9e0a91b2
  barter/src/risk/check/util.rs :: fn calculate_abs_percent_difference  (line 28)  sha256[:16]=c121fa1b9f385898
  barter/src/risk/check/util.rs :: fn calculate_delta  (line 50)  sha256[:16]=de376cf5883a30b1
  barter/src/statistic/time.rs :: trait TimeInterval  (line 30)  sha256[:16]=2f924a70d52b0978
  barter/src/statistic/time.rs :: struct Annual365  (line 36)  sha256[:16]=955f3234857f3a58
  barter/src/statistic/time.rs :: impl TimeInterval for Annual365 :: fn interval  (line 43)  sha256[:16]=0ff78f5e075bd01d
  barter/src/statistic/time.rs :: struct Annual252  (line 49)  sha256[:16]=a318e6eb38d3664f
  barter/src/statistic/time.rs :: impl TimeInterval for Annual252 :: fn interval  (line 56)  sha256[:16]=72cd7a96a6719fba
  barter/src/statistic/time.rs :: struct Daily  (line 62)  sha256[:16]=89c7312965e7d3f3
  barter/src/statistic/time.rs :: impl TimeInterval for Daily :: fn interval  (line 69)  sha256[:16]=c84ce6984eaf4ba9
  barter/src/statistic/metric/sharpe.rs :: struct SharpeRatio  (line 12)  sha256[:16]=e84f26cc4cf4f59c
  barter/src/statistic/metric/sharpe.rs :: impl SharpeRatio :: fn calculate  (line 22)  sha256[:16]=4135f10abab2a440
  barter/src/statistic/metric/sharpe.rs :: impl SharpeRatio :: fn scale  (line 46)  sha256[:16]=5a0dfc88e32783e8
  barter/src/statistic/metric/sortino.rs :: struct SortinoRatio  (line 12)  sha256[:16]=11ab9f92162b8c5a
  barter/src/statistic/metric/sortino.rs :: impl SortinoRatio :: fn calculate  (line 22)  sha256[:16]=d53195e20beefc15
  barter/src/statistic/metric/sortino.rs :: impl SortinoRatio :: fn scale  (line 54)  sha256[:16]=cecb87e676b0c618
  barter/src/statistic/metric/calmar.rs :: struct CalmarRatio  (line 14)  sha256[:16]=8abf6d70af75a213
  barter/src/statistic/metric/calmar.rs :: impl CalmarRatio :: fn calculate  (line 24)  sha256[:16]=2b9665af745f21b3
  barter/src/statistic/metric/calmar.rs :: impl CalmarRatio :: fn scale  (line 57)  sha256[:16]=1524d33affd59075
  barter/src/statistic/metric/rate_of_return.rs :: struct RateOfReturn  (line 12)  sha256[:16]=9078dbdad0dac911
  barter/src/statistic/metric/rate_of_return.rs :: impl RateOfReturn :: fn calculate  (line 22)  sha256[:16]=37808ff9470ae7bc
  barter/src/statistic/metric/rate_of_return.rs :: impl RateOfReturn :: fn scale  (line 38)  sha256[:16]=568a7f2437363435
  barter/src/engine/clock.rs :: trait TimeExchange  (line 21)  sha256[:16]=cec150fb8acb85f6
  barter/src/engine/clock.rs :: struct LiveClock  (line 27)  sha256[:16]=d8c4254ac2c95001
  barter/src/engine/clock.rs :: impl EngineClock for LiveClock :: fn time  (line 30)  sha256[:16]=7b72340680fd9153
  barter/src/engine/clock.rs :: impl Processor<&Event> for LiveClock :: fn process  (line 38)  sha256[:16]=2027938ad2d3487b
  barter/src/engine/clock.rs :: struct HistoricalClockInner  (line 50)  sha256[:16]=382233a9561221f9
  barter/src/engine/clock.rs :: struct HistoricalClock  (line 45)  sha256[:16]=a97aaa4cf6affa6e
  barter/src/engine/clock.rs :: impl HistoricalClock :: fn new  (line 57)  sha256[:16]=b6458225440b00f7
  barter/src/engine/clock.rs :: impl EngineClock for HistoricalClock :: fn time  (line 68)  sha256[:16]=99d1cab1487d55c3
  barter/src/engine/clock.rs :: impl Processor<&Event> for HistoricalClock :: fn process  (line 91)  sha256[:16]=a388ea6562c90b43
-/
set_option linter.unusedVariables false   -- e.g. `&self` of a method of a unit struct
namespace BarterModel.Generated.Machines

/-! ## Prelude, continued: vocabulary added for the groups of this file (trusted like the prelude of Machines.lean)

* `x.is_sign_negative()` on a `Decimal` is `x < 0` (rust_decimal's negative zero is not modelled: a `Rat` has none).
* `opt.expect("..")` / `opt.unwrap()` on an `Option` is `match opt with | some v => v | none => Rust.unreachable`:
  the panic is the opaque value of Machines.lean, so an agreement theorem only holds if the `None` case is dead.
* `#[derive(Default)]` on a struct (kind `derive_default`; the attribute is read from the source and must list
  `Default`) is the value with every field at the default of its type: `Decimal` / `u64` / `i64` 0, `bool` false,
  `Option` `None`, `Vec` empty, `DateTime<Utc>` the Unix epoch (0 ms), `TimeDelta` zero, a translated struct its
  own translated `default`.
* `#[derive(Constructor)]` (derive_more; kind `derive_new`) is `new(f1, .., fn)` taking the fields in declaration
  order.
* An `extern` item is a function of the source that is NOT translated (e.g. `statistic::algorithm::sqrt`, a Newton
  iteration): only its signature is read; every generated definition that calls it, directly or through a
  translated callee, takes it as an explicit first parameter of that function type, so agreement theorems
  quantify over it (or over the functions satisfying its documented contract).
* `f64` is the uninterpreted type `F64` below: its values are only stored, copied and handed to extern functions
  (arithmetic and comparisons on it are rejected). `Decimal::from_f64(x)` (rust_decimal) is a built-in extern: the
  explicit parameter `from_f64 : F64 → Option Rat`, about which nothing is assumed.
* Option combinators: `o.as_ref()` is `o` (references are values); `o.map(|x| e)`, `o.is_none_or(|x| c)`,
  `o.is_some_and(|x| c)`, `o.or(p)`, `o.unwrap_or(d)` are the evident `match`es on `o` (arguments are pure, so eager
  and lazy evaluation agree); `place.replace(v)` writes `some v` and returns the old value.
* `let Some(x) = &mut <place> else { .. };` binds `x` to the payload as a mutable local, and every later change of
  `x` is written back to the place at once. For code the borrow checker accepts this is the meaning of the borrow:
  while `x` is alive nothing else reads or writes the place, afterwards `x` is never read again.
* A `match` without guards whose patterns bind variables is a Lean `match` with the alternatives in source order
  (first match wins in both languages). An enum translated with option `rest` has the extra constructor `Other_`
  standing for all its untranslated variants without their payloads (reachable only through `_` arms).
* `Self::Name` in a trait impl is the `type Name = ..;` of that impl.
* `Decimal::checked_mul` / `checked_add` / `checked_sub` (below) never return `None`: their only documented `None`
  is overflow, and **overflow is not modelled** (as for every other `Decimal` operation); `checked_div` (Machines.lean)
  is `None` exactly on a zero divisor.
* `a <= b` (`<`, `>`, `>=`) on values of a type PARAMETER `T` is `T_ord.le a b` (`.lt`, `.gt`, `.ge`) of the explicit
  parameter `T_ord : Rust.PartialOrd T` (below): the `PartialOrd` methods of whatever type is plugged in, about
  which nothing is assumed — not even that the four are related (an impl may override each).
* `f(a, b?)`: a `?` below the top of an expression, in a position that is always evaluated, is taken out in
  evaluation order (`let t = b?; f(a, t)`); panics are values (`Rust.unreachable`), not effects, so a panic that Rust
  would raise before the early return is not distinguished from the early return.
-/

/-! * A `trait` item is the record of its methods (`structure Name (Self : Type)`); a method call on a value of a
  type parameter `T` is a field of the explicit parameter `T_Name : Name T`.
* `d.num_seconds()` on a `TimeDelta` is `Int.tdiv d 1000` (whole seconds, truncated toward zero, as chrono does);
  `TimeDelta::days(n)` / `hours` / `minutes` / `seconds` / `milliseconds` are `n * 86400000` / `3600000` / `60000` /
  `1000` / `1` ms; `a.max(b)` on `TimeDelta` is the greater; `Decimal::from(<i64>)` is the inclusion `Int → Rat`.
* `x.sqrt()` on a `Decimal` (rust_decimal's `MathematicalOps::sqrt`, NOT `statistic::algorithm::sqrt`) is a built-in
  extern: the explicit parameter `decimal_sqrt : Rat → Option Rat`, about which nothing is assumed.
* `a.cmp(&b)` on `Decimal` is `Decimal.cmp` into `std::cmp::Ordering` (prelude of Machines.lean).
* `Utc::now()` is an INPUT: the explicit parameter `utc_now : Int` (ms, like every `DateTime`) of the function that
  reads it; a function may read it once only (two readings would be two different inputs: rejected), and functions
  that take it cannot be called from translated code. `t.add(d)` on a `DateTime` is `t + d`; `x.abs()` on `i64` is
  the absolute value (overflow at `i64::MIN` not modelled).
* `Arc<T>` is `T` and `RwLock<T>` is `T`: **locks and shared ownership are transparent**, a single owner and a
  single thread are modelled (clones of an `Arc` aliasing one cell, blocking and poisoning are not). `x.read()` is
  the content; `let mut g = <place>.write();` binds `g` to the content as a mutable local whose every change is
  written back to the place at once (as for `&mut`, see above); `drop(g);` has no effect.
* In a `match` with guards an arm `x if c => ..` names the (pure) scrutinee `x`. -/

/-- The four comparison methods of `PartialOrd` for a type parameter (see above). -/
structure Rust.PartialOrd (T : Type) where
  lt : T → T → Bool
  le : T → T → Bool
  gt : T → T → Bool
  ge : T → T → Bool

/-- `Decimal::checked_mul`: never `None` (its only `None` is overflow, which is not modelled). -/
def Decimal.checked_mul (x y : Rat) : Option Rat := some (x * y)

/-- `Decimal::checked_add`: never `None` (its only `None` is overflow, which is not modelled). -/
def Decimal.checked_add (x y : Rat) : Option Rat := some (x + y)

/-- `Decimal::checked_sub`: never `None` (its only `None` is overflow, which is not modelled). -/
def Decimal.checked_sub (x y : Rat) : Option Rat := some (x - y)

/-- `f64`, uninterpreted (see above); any injective coding of the bit patterns would do. -/
abbrev F64 := Nat

/-! ## barter/src/statistic/algorithm.rs -/

-- `extern sqrt` (barter/src/statistic/algorithm.rs:53) extern: NOT translated (only its signature `sqrt : Rat → Option Rat` is read); the definitions below that call it take it as an explicit parameter `(sqrt : Rat → Option Rat)`

/-- generated from `mod welford_online :: fn calculate_recurrence_relation_m` (barter/src/statistic/algorithm.rs:16) -/
@[gen_dataset] def welford_online.calculate_recurrence_relation_m (prev_m : Rat) (prev_mean : Rat) (new_value : Rat) (new_mean : Rat) : Rat :=
  (prev_m + ((new_value - prev_mean) * (new_value - new_mean)))

/-- generated from `mod welford_online :: fn calculate_population_variance` (barter/src/statistic/algorithm.rs:35) -/
@[gen_dataset] def welford_online.calculate_population_variance (recurrence_relation_m : Rat) (count : Rat) : Rat :=
  (if (count < 1) then
    0
  else
    (recurrence_relation_m / count))

/-! ## barter/src/statistic/summary/dataset/dispersion.rs -/

/-- generated from `struct Range` (barter/src/statistic/summary/dataset/dispersion.rs:47) -/
structure Range where
  activated : Bool
  high : Rat
  low : Rat
  deriving DecidableEq, Repr

/-- generated from `derive_default Range` (barter/src/statistic/summary/dataset/dispersion.rs:47) -/
@[gen_dataset] def Range.default : Range :=
  { activated := false, high := 0, low := 0 }

/-- generated from `impl Range :: fn init` (barter/src/statistic/summary/dataset/dispersion.rs:55) -/
@[gen_dataset] def Range.init (first_value : Rat) : Range :=
  { activated := true, high := first_value, low := first_value : Range }

/-- generated from `impl Range :: fn update` (barter/src/statistic/summary/dataset/dispersion.rs:64) -/
@[gen_dataset] def Range.update (self : Range) (new_value : Rat) : Range :=
  (if (self.activated = true) then
    (if (new_value > self.high) then
      let self : Range := { self with high := new_value }
      (if (new_value < self.low) then
        let self : Range := { self with low := new_value }
        self
      else
        self)
    else
      (if (new_value < self.low) then
        let self : Range := { self with low := new_value }
        self
      else
        self))
  else
    let self : Range := { self with activated := true }
    let self : Range := { self with high := new_value }
    let self : Range := { self with low := new_value }
    self)

/-- generated from `impl Range :: fn range` (barter/src/statistic/summary/dataset/dispersion.rs:81) -/
@[gen_dataset] def Range.range (self : Range) : Rat :=
  (self.high - self.low)

/-- generated from `struct Dispersion` (barter/src/statistic/summary/dataset/dispersion.rs:7) -/
structure Dispersion where
  range : Range
  recurrence_relation_m : Rat
  variance : Rat
  std_dev : Rat
  deriving DecidableEq, Repr

/-- generated from `derive_default Dispersion` (barter/src/statistic/summary/dataset/dispersion.rs:7) -/
@[gen_dataset] def Dispersion.default : Dispersion :=
  { range := Range.default, recurrence_relation_m := 0, variance := 0, std_dev := 0 }

/-- generated from `impl Dispersion :: fn update` (barter/src/statistic/summary/dataset/dispersion.rs:17) -/
@[gen_dataset] def Dispersion.update (sqrt : Rat → Option Rat) (self : Dispersion) (prev_mean : Rat) (new_mean : Rat) (new_value : Rat) (value_count : Rat) : Dispersion :=
  let self : Dispersion := { self with range := (Range.update self.range new_value) }
  let self : Dispersion := { self with recurrence_relation_m := (welford_online.calculate_recurrence_relation_m self.recurrence_relation_m prev_mean new_value new_mean) }
  let self : Dispersion := { self with variance := (welford_online.calculate_population_variance self.recurrence_relation_m value_count) }
  let self : Dispersion := { self with std_dev := (match (sqrt (Decimal.abs self.variance)) with | some some_1 => some_1 | none => Rust.unreachable) }
  self

/-! ## barter/src/statistic/summary/dataset/mod.rs -/

/-- generated from `struct DataSetSummary` (barter/src/statistic/summary/dataset/mod.rs:46) -/
structure DataSetSummary where
  count : Rat
  sum : Rat
  mean : Rat
  dispersion : Dispersion
  deriving DecidableEq, Repr

/-- generated from `derive_default DataSetSummary` (barter/src/statistic/summary/dataset/mod.rs:46) -/
@[gen_dataset] def DataSetSummary.default : DataSetSummary :=
  { count := 0, sum := 0, mean := 0, dispersion := Dispersion.default }

attribute [gen_dataset] welford_online.calculate_mean_Decimal

/-- generated from `impl DataSetSummary :: fn update` (barter/src/statistic/summary/dataset/mod.rs:61) -/
@[gen_dataset] def DataSetSummary.update (sqrt : Rat → Option Rat) (self : DataSetSummary) (next_value : Rat) : DataSetSummary :=
  let self : DataSetSummary := { self with count := (self.count + 1) }
  let self : DataSetSummary := { self with sum := (self.sum + next_value) }
  let prev_mean : Rat := self.mean
  let self : DataSetSummary := { self with mean := (welford_online.calculate_mean_Decimal self.mean next_value self.count) }
  let self : DataSetSummary := { self with dispersion := (Dispersion.update sqrt self.dispersion prev_mean self.mean next_value self.count) }
  self

/-! ## barter/src/engine/state/position.rs -/

/-- generated from `fn calculate_pnl_return` (barter/src/engine/state/position.rs:549) -/
@[gen_pnl_returns] def calculate_pnl_return (pnl_realised : Rat) (price_entry_average : Rat) (quantity_abs_max : Rat) : Rat :=
  (pnl_realised / (price_entry_average * quantity_abs_max))

/-! ## barter/src/statistic/summary/pnl.rs -/

/-- generated from `struct PnLReturns` (barter/src/statistic/summary/pnl.rs:23) -/
structure PnLReturns where
  pnl_raw : Rat
  total : DataSetSummary
  losses : DataSetSummary
  deriving DecidableEq, Repr

/-- generated from `derive_default PnLReturns` (barter/src/statistic/summary/pnl.rs:23) -/
@[gen_pnl_returns] def PnLReturns.default : PnLReturns :=
  { pnl_raw := 0, total := DataSetSummary.default, losses := DataSetSummary.default }

/-- generated from `impl PnLReturns :: fn update` (barter/src/statistic/summary/pnl.rs:43) -/
@[gen_pnl_returns] def PnLReturns.update {AssetKey : Type} [DecidableEq AssetKey] {InstrumentKey : Type} [DecidableEq InstrumentKey] (sqrt : Rat → Option Rat) (self : PnLReturns) (position : PositionExited AssetKey InstrumentKey) : PnLReturns :=
  let self : PnLReturns := { self with pnl_raw := (self.pnl_raw + position.pnl_realised) }
  let pnl_return : Rat := (calculate_pnl_return position.pnl_realised position.price_entry_average position.quantity_abs_max)
  let self : PnLReturns := { self with total := (DataSetSummary.update sqrt self.total pnl_return) }
  (if (pnl_return < 0) then
    let self : PnLReturns := { self with losses := (DataSetSummary.update sqrt self.losses pnl_return) }
    self
  else
    self)

/-! ## barter/src/lib.rs -/

/-- generated from `derive_new Timed` (barter/src/lib.rs:108) -/
@[gen_pnl_returns] def Timed.new {T : Type} [DecidableEq T] (value : T) (time : Int) : Timed T :=
  { value := value, time := time }

/-! ## barter/src/statistic/metric/drawdown/mod.rs -/

/-- generated from `derive_default DrawdownGenerator` (barter/src/statistic/metric/drawdown/mod.rs:38) -/
@[gen_pnl_returns] def DrawdownGenerator.default : DrawdownGenerator :=
  { peak := none, drawdown_max := 0, time_peak := none, time_now := 0 }

/-! ## barter/src/statistic/metric/drawdown/mean.rs -/

/-- generated from `derive_default MeanDrawdownGenerator` (barter/src/statistic/metric/drawdown/mean.rs:16) -/
@[gen_pnl_returns] def MeanDrawdownGenerator.default : MeanDrawdownGenerator :=
  { count := 0, mean_drawdown := none }

/-! ## barter/src/statistic/metric/drawdown/max.rs -/

/-- generated from `derive_default MaxDrawdownGenerator` (barter/src/statistic/metric/drawdown/max.rs:17) -/
@[gen_pnl_returns] def MaxDrawdownGenerator.default : MaxDrawdownGenerator :=
  { max := none }

/-! ## barter/src/statistic/summary/instrument.rs -/

/-- generated from `struct TearSheetGenerator` (barter/src/statistic/summary/instrument.rs:43) -/
structure TearSheetGenerator where
  time_engine_start : Int
  time_engine_now : Int
  pnl_returns : PnLReturns
  pnl_drawdown : DrawdownGenerator
  pnl_drawdown_mean : MeanDrawdownGenerator
  pnl_drawdown_max : MaxDrawdownGenerator
  deriving DecidableEq, Repr

/-- generated from `impl TearSheetGenerator :: fn init` (barter/src/statistic/summary/instrument.rs:58) -/
@[gen_pnl_returns] def TearSheetGenerator.init (time_engine_start : Int) : TearSheetGenerator :=
  { time_engine_start := time_engine_start, time_engine_now := time_engine_start, pnl_returns := (PnLReturns.default), pnl_drawdown := (DrawdownGenerator.default), pnl_drawdown_mean := (MeanDrawdownGenerator.default), pnl_drawdown_max := (MaxDrawdownGenerator.default) : TearSheetGenerator }

/-- generated from `impl TearSheetGenerator :: fn update_from_position` (barter/src/statistic/summary/instrument.rs:70) -/
@[gen_pnl_returns] def TearSheetGenerator.update_from_position {AssetKey : Type} [DecidableEq AssetKey] {InstrumentKey : Type} [DecidableEq InstrumentKey] (sqrt : Rat → Option Rat) (self : TearSheetGenerator) (position : PositionExited AssetKey InstrumentKey) : TearSheetGenerator :=
  let self : TearSheetGenerator := { self with time_engine_now := position.time_exit }
  let self : TearSheetGenerator := { self with pnl_returns := (PnLReturns.update sqrt self.pnl_returns position) }
  let call_1 := DrawdownGenerator.update self.pnl_drawdown (Timed.new self.pnl_returns.pnl_raw self.time_engine_now)
  let self : TearSheetGenerator := { self with pnl_drawdown := call_1.1 }
  (match call_1.2 with
  | some next_drawdown =>
    let self : TearSheetGenerator := { self with pnl_drawdown_mean := (MeanDrawdownGenerator.update self.pnl_drawdown_mean next_drawdown) }
    let self : TearSheetGenerator := { self with pnl_drawdown_max := (MaxDrawdownGenerator.update self.pnl_drawdown_max next_drawdown) }
    self
  | none =>
    self)

/-! ## barter-execution/src/balance.rs -/

/-- generated from `struct Balance` (barter-execution/src/balance.rs:29) -/
structure Balance where
  total : Rat
  free : Rat
  deriving DecidableEq, Repr

/-- generated from `struct AssetBalance` (barter-execution/src/balance.rs:9) -/
structure AssetBalance (AssetKey : Type) where
  asset : AssetKey
  balance : Balance
  time_exchange : Int
  deriving DecidableEq, Repr

/-! ## barter-integration/src/snapshot.rs -/

/-- generated from `struct Snapshot` (barter-integration/src/snapshot.rs:18) -/
structure Snapshot (T : Type) where
  f0 : T
  deriving DecidableEq, Repr

/-- generated from `impl Snapshot :: fn value` (barter-integration/src/snapshot.rs:21) -/
@[gen_registers] def Snapshot.value {T : Type} [DecidableEq T] (self : Snapshot T) : T :=
  self.f0

/-! ## barter/src/statistic/summary/asset.rs -/

/-- generated from `struct TearSheetAssetGenerator` (barter/src/statistic/summary/asset.rs:24) -/
structure TearSheetAssetGenerator where
  balance_now : Option Balance
  drawdown : DrawdownGenerator
  drawdown_mean : MeanDrawdownGenerator
  drawdown_max : MaxDrawdownGenerator
  deriving DecidableEq, Repr

/-- generated from `derive_default TearSheetAssetGenerator` (barter/src/statistic/summary/asset.rs:24) -/
@[gen_registers] def TearSheetAssetGenerator.default : TearSheetAssetGenerator :=
  { balance_now := none, drawdown := DrawdownGenerator.default, drawdown_mean := MeanDrawdownGenerator.default, drawdown_max := MaxDrawdownGenerator.default }

/-- generated from `impl TearSheetAssetGenerator :: fn update_from_balance` (barter/src/statistic/summary/asset.rs:43) -/
@[gen_registers] def TearSheetAssetGenerator.update_from_balance {AssetKey : Type} [DecidableEq AssetKey] (self : TearSheetAssetGenerator) (balance : Snapshot (AssetBalance AssetKey)) : TearSheetAssetGenerator :=
  let self : TearSheetAssetGenerator := { self with balance_now := (some ((Snapshot.value balance).balance)) }
  let call_1 := DrawdownGenerator.update self.drawdown (Timed.new (((Snapshot.value balance).balance).total) ((Snapshot.value balance).time_exchange))
  let self : TearSheetAssetGenerator := { self with drawdown := call_1.1 }
  (match call_1.2 with
  | some next_drawdown =>
    let self : TearSheetAssetGenerator := { self with drawdown_mean := (MeanDrawdownGenerator.update self.drawdown_mean next_drawdown) }
    let self : TearSheetAssetGenerator := { self with drawdown_max := (MaxDrawdownGenerator.update self.drawdown_max next_drawdown) }
    self
  | none =>
    self)

/-! ## barter-instrument/src/asset/mod.rs -/

-- an identifier type: its values are only stored, cloned and compared; any injective coding would do
/-- generated from `opaque Asset` (barter-instrument/src/asset/mod.rs:67) -/
abbrev Asset := Nat

/-! ## barter/src/engine/state/asset/mod.rs -/

/-- generated from `struct AssetState` (barter/src/engine/state/asset/mod.rs:99) -/
structure AssetState where
  asset : Asset
  statistics : TearSheetAssetGenerator
  balance : Option (Timed Balance)
  deriving DecidableEq, Repr

/-- generated from `impl AssetState :: fn update_from_balance` (barter/src/engine/state/asset/mod.rs:115) -/
@[gen_registers] def AssetState.update_from_balance {AssetKey : Type} [DecidableEq AssetKey] (self : AssetState) (snapshot : Snapshot (AssetBalance AssetKey)) : AssetState :=
  (match self.balance with
  | none =>
    let self : AssetState := { self with balance := (some (Timed.new snapshot.f0.balance snapshot.f0.time_exchange)) }
    let self : AssetState := { self with statistics := (TearSheetAssetGenerator.update_from_balance self.statistics snapshot) }
    self
  | some balance =>
    (if (balance.time ≤ (Snapshot.value snapshot).time_exchange) then
      let balance : Timed Balance := { balance with time := (Snapshot.value snapshot).time_exchange }
      let self : AssetState := { self with balance := (some balance) }
      let balance : Timed Balance := { balance with value := (Snapshot.value snapshot).balance }
      let self : AssetState := { self with balance := (some balance) }
      let self : AssetState := { self with statistics := (TearSheetAssetGenerator.update_from_balance self.statistics snapshot) }
      self
    else
      self))

/-! ## barter-data/src/books/mod.rs -/

/-- generated from `struct Level` (barter-data/src/books/mod.rs:270) -/
structure Level where
  price : Rat
  amount : Rat
  deriving DecidableEq, Repr

/-- generated from `fn volume_weighted_mid_price` (barter-data/src/books/mod.rs:309) -/
@[gen_registers] def volume_weighted_mid_price (best_bid : Level) (best_ask : Level) : Rat :=
  (((best_bid.price * best_ask.amount) + (best_ask.price * best_bid.amount)) / (best_bid.amount + best_ask.amount))

/-! ## barter-data/src/subscription/book.rs -/

/-- generated from `struct OrderBookL1` (barter-data/src/subscription/book.rs:36) -/
structure OrderBookL1 where
  last_update_time : Int
  best_bid : Option Level
  best_ask : Option Level
  deriving DecidableEq, Repr

/-- generated from `derive_default OrderBookL1` (barter-data/src/subscription/book.rs:36) -/
@[gen_registers] def OrderBookL1.default : OrderBookL1 :=
  { last_update_time := 0, best_bid := none, best_ask := none }

/-- generated from `impl OrderBookL1 :: fn volume_weighed_mid_price` (barter-data/src/subscription/book.rs:57) -/
@[gen_registers] def OrderBookL1.volume_weighed_mid_price (self : OrderBookL1) : Option Rat :=
  (match (self.best_ask, self.best_bid) with
  | (some best_ask, some best_bid) =>
      (some (volume_weighted_mid_price best_bid best_ask))
  | _ =>
      none)

/-! ## barter-data/src/subscription/trade.rs -/

-- restricted to the fields of type `f64`; not translated (no translated function may read them): id : String, side : Side
/-- generated from `struct PublicTrade` (barter-data/src/subscription/trade.rs:29) -/
structure PublicTrade where
  price : F64
  amount : F64
  deriving DecidableEq, Repr

/-! ## barter-data/src/event.rs -/

-- restricted to the variant(s) Trade, OrderBookL1; the other variants (OrderBook, Candle, Liquidation) are represented, without their payload, by the single constructor `Other_` (naming them in the source is rejected; only a `_` arm can reach them)
/-- generated from `enum DataKind` (barter-data/src/event.rs:124) -/
inductive DataKind where
  | Trade (f0 : PublicTrade)
  | OrderBookL1 (f0 : OrderBookL1)
  | Other_
  deriving DecidableEq, Repr

/-! ## barter-instrument/src/exchange.rs -/

-- an identifier type: its values are only stored, cloned and compared; any injective coding would do
/-- generated from `opaque ExchangeId` (barter-instrument/src/exchange.rs:33) -/
abbrev ExchangeId := Nat

/-! ## barter-data/src/event.rs -/

/-- generated from `struct MarketEvent` (barter-data/src/event.rs:42) -/
structure MarketEvent (InstrumentKey : Type) (T : Type) where
  time_exchange : Int
  time_received : Int
  exchange : ExchangeId
  instrument : InstrumentKey
  kind : T
  deriving DecidableEq, Repr

/-! ## barter/src/engine/state/instrument/data.rs -/

/-- generated from `struct DefaultInstrumentMarketData` (barter/src/engine/state/instrument/data.rs:63) -/
structure DefaultInstrumentMarketData where
  l1 : OrderBookL1
  last_traded_price : Option (Timed Rat)
  deriving DecidableEq, Repr

/-- generated from `derive_default DefaultInstrumentMarketData` (barter/src/engine/state/instrument/data.rs:63) -/
@[gen_registers] def DefaultInstrumentMarketData.default : DefaultInstrumentMarketData :=
  { l1 := OrderBookL1.default, last_traded_price := none }

/-- generated from `impl InstrumentDataState for DefaultInstrumentMarketData :: fn price` (barter/src/engine/state/instrument/data.rs:71) -/
@[gen_registers] def DefaultInstrumentMarketData.price (self : DefaultInstrumentMarketData) : Option Rat :=
  (match (OrderBookL1.volume_weighed_mid_price self.l1) with | some some_1 => some some_1 | none => (match self.last_traded_price with | none => none | some timed => some timed.value))

/-- generated from `impl Processor<&MarketEvent<InstrumentKey, DataKind>> for DefaultInstrumentMarketData :: fn process` (barter/src/engine/state/instrument/data.rs:83) -/
@[gen_registers] def DefaultInstrumentMarketData.process {InstrumentKey : Type} [DecidableEq InstrumentKey] (from_f64 : F64 → Option Rat) (self : DefaultInstrumentMarketData) (event : MarketEvent InstrumentKey DataKind) : DefaultInstrumentMarketData :=
  (match event.kind with
  | DataKind.Trade trade =>
    (if ((match self.last_traded_price with | none => true | some price => (decide (price.time < event.time_exchange))) = true) then
      (match (from_f64 trade.price) with
      | some price =>
        let _replaced_1 : Option (Timed Rat) := self.last_traded_price
        let self : DefaultInstrumentMarketData := { self with last_traded_price := (some (Timed.new price event.time_exchange)) }
        self
      | none =>
        self)
    else
      self)
  | DataKind.OrderBookL1 l1 =>
    (if (self.l1.last_update_time < event.time_exchange) then
      let self : DefaultInstrumentMarketData := { self with l1 := l1 }
      self
    else
      self)
  | _ =>
    self)

/-! ## barter/src/risk/mod.rs -/

/-- generated from `struct RiskApproved` (barter/src/risk/mod.rs:55) -/
structure RiskApproved (T : Type) where
  f0 : T
  deriving DecidableEq, Repr

/-- generated from `derive_new RiskApproved` (barter/src/risk/mod.rs:55) -/
@[gen_risk] def RiskApproved.new {T : Type} [DecidableEq T] (f0 : T) : RiskApproved T :=
  { f0 := f0 }

/-- generated from `impl RiskApproved :: fn into_item` (barter/src/risk/mod.rs:58) -/
@[gen_risk] def RiskApproved.into_item {T : Type} [DecidableEq T] (self : RiskApproved T) : T :=
  self.f0

/-- generated from `struct RiskRefused` (barter/src/risk/mod.rs:66) -/
structure RiskRefused (T : Type) (Reason : Type) where
  item : T
  reason : Reason
  deriving DecidableEq, Repr

/-- generated from `impl RiskRefused<T, Reason> :: fn into_item` (barter/src/risk/mod.rs:81) -/
@[gen_risk] def RiskRefused.into_item {T : Type} [DecidableEq T] {Reason : Type} [DecidableEq Reason] (self : RiskRefused T Reason) : T :=
  self.item

/-! ## barter/src/risk/check/mod.rs -/

/-- generated from `struct CheckHigherThan` (barter/src/risk/check/mod.rs:30) -/
structure CheckHigherThan (T : Type) where
  limit : T
  deriving DecidableEq, Repr

/-- generated from `derive_new CheckHigherThan` (barter/src/risk/check/mod.rs:30) -/
@[gen_risk] def CheckHigherThan.new {T : Type} [DecidableEq T] (limit : T) : CheckHigherThan T :=
  { limit := limit }

/-- generated from `struct CheckFailHigherThan` (barter/src/risk/check/mod.rs:63) -/
structure CheckFailHigherThan (T : Type) where
  limit : T
  input : T
  deriving DecidableEq, Repr

/-- generated from `impl RiskCheck for CheckHigherThan :: fn check` (barter/src/risk/check/mod.rs:46) -/
@[gen_risk] def CheckHigherThan.check {T : Type} [DecidableEq T] (T_ord : Rust.PartialOrd T) (self : CheckHigherThan T) (input : T) : Except (CheckFailHigherThan T) Unit :=
  (if ((T_ord.le input self.limit) = true) then
    (Except.ok ())
  else
    (Except.error ({ limit := self.limit, input := input : CheckFailHigherThan T })))

/-! ## barter/src/risk/check/util.rs -/

/-- generated from `fn calculate_quote_notional` (barter/src/risk/check/util.rs:16) -/
@[gen_risk] def calculate_quote_notional (quantity : Rat) (price : Rat) (contract_size : Rat) : Option Rat :=
  (match (Decimal.checked_mul quantity price) with
  | none => none
  | some try_1 =>
    (Decimal.checked_mul try_1 contract_size))

/-- generated from `fn calculate_abs_percent_difference` (barter/src/risk/check/util.rs:28) -/
@[gen_risk] def calculate_abs_percent_difference (current : Rat) (other : Rat) : Option Rat :=
  (match (Decimal.checked_sub current other) with
  | none => none
  | some try_1 =>
    let price_diff : Rat := (Decimal.abs try_1)
    (Decimal.checked_div price_diff other))

/-- generated from `fn calculate_delta` (barter/src/risk/check/util.rs:50) -/
@[gen_risk] def calculate_delta (instrument_delta : Rat) (contract_size : Rat) (side : Side) (quantity_in_kind : Rat) : Rat :=
  let delta : Rat := (instrument_delta * (quantity_in_kind * contract_size))
  (match side with
  | Side.Buy =>
      delta
  | Side.Sell =>
      (-delta))

/-! ## barter/src/statistic/time.rs -/

-- a trait as the record of its methods: a call `x.m(..)` on a value of a type parameter `T` is `T_TimeInterval.m x ..` of an explicit parameter `T_TimeInterval : TimeInterval T` (nothing is assumed about the implementation); not translated: name (type `SmolStr` (not a translated type))
/-- generated from `trait TimeInterval` (barter/src/statistic/time.rs:30) -/
structure TimeInterval (Self : Type) where
  interval : Self → Int

/-- generated from `struct Annual365` (barter/src/statistic/time.rs:36) -/
inductive Annual365 where
  | mk
  deriving DecidableEq, Repr

/-- generated from `impl TimeInterval for Annual365 :: fn interval` (barter/src/statistic/time.rs:43) -/
@[gen_metrics] def Annual365.interval (self : Annual365) : Int :=
  (365 * 86400000)

/-- generated from `struct Annual252` (barter/src/statistic/time.rs:49) -/
inductive Annual252 where
  | mk
  deriving DecidableEq, Repr

/-- generated from `impl TimeInterval for Annual252 :: fn interval` (barter/src/statistic/time.rs:56) -/
@[gen_metrics] def Annual252.interval (self : Annual252) : Int :=
  (252 * 86400000)

/-- generated from `struct Daily` (barter/src/statistic/time.rs:62) -/
inductive Daily where
  | mk
  deriving DecidableEq, Repr

/-- generated from `impl TimeInterval for Daily :: fn interval` (barter/src/statistic/time.rs:69) -/
@[gen_metrics] def Daily.interval (self : Daily) : Int :=
  (1 * 86400000)

/-! ## barter/src/statistic/metric/sharpe.rs -/

/-- generated from `struct SharpeRatio` (barter/src/statistic/metric/sharpe.rs:12) -/
structure SharpeRatio (Interval : Type) where
  value : Rat
  interval : Interval
  deriving DecidableEq, Repr

/-- generated from `impl SharpeRatio :: fn calculate` (barter/src/statistic/metric/sharpe.rs:22) -/
@[gen_metrics] def SharpeRatio.calculate {Interval : Type} [DecidableEq Interval] (risk_free_return : Rat) (mean_return : Rat) (std_dev_returns : Rat) (returns_period : Interval) : SharpeRatio Interval :=
  (if (std_dev_returns = 0) then
    { value := Decimal.MAX, interval := returns_period : SharpeRatio Interval }
  else
    (let excess_returns : Rat := (mean_return - risk_free_return);
     let ratio : Rat := (match (Decimal.checked_div excess_returns std_dev_returns) with | some some_1 => some_1 | none => Rust.unreachable);
     { value := ratio, interval := returns_period : SharpeRatio Interval }))

/-- generated from `impl SharpeRatio :: fn scale` (barter/src/statistic/metric/sharpe.rs:46) -/
@[gen_metrics] def SharpeRatio.scale {Interval : Type} [DecidableEq Interval] {TargetInterval : Type} [DecidableEq TargetInterval] (TargetInterval_TimeInterval : TimeInterval TargetInterval) (Interval_TimeInterval : TimeInterval Interval) (decimal_sqrt : Rat → Option Rat) (self : SharpeRatio Interval) (target : TargetInterval) : SharpeRatio TargetInterval :=
  let target_secs : Rat := (((Int.tdiv (TargetInterval_TimeInterval.interval target) 1000) : Int) : Rat)
  let current_secs : Rat := (((Int.tdiv (Interval_TimeInterval.interval self.interval) 1000) : Int) : Rat)
  let scale : Rat := (match (decimal_sqrt (match (Decimal.checked_div (Decimal.abs target_secs) (Decimal.abs current_secs)) with | some some_1 => some_1 | none => Decimal.MAX)) with | some some_2 => some_2 | none => Rust.unreachable)
  { value := (match (Decimal.checked_mul self.value scale) with | some some_3 => some_3 | none => Decimal.MAX), interval := target : SharpeRatio TargetInterval }

/-! ## barter/src/statistic/metric/sortino.rs -/

/-- generated from `struct SortinoRatio` (barter/src/statistic/metric/sortino.rs:12) -/
structure SortinoRatio (Interval : Type) where
  value : Rat
  interval : Interval
  deriving DecidableEq, Repr

/-- generated from `impl SortinoRatio :: fn calculate` (barter/src/statistic/metric/sortino.rs:22) -/
@[gen_metrics] def SortinoRatio.calculate {Interval : Type} [DecidableEq Interval] (risk_free_return : Rat) (mean_return : Rat) (std_dev_loss_returns : Rat) (returns_period : Interval) : SortinoRatio Interval :=
  (if (std_dev_loss_returns = 0) then
    { value := (match (Decimal.cmp mean_return risk_free_return) with
    | Ordering.Greater =>
        Decimal.MAX
    | Ordering.Less =>
        Decimal.MIN
    | Ordering.Equal =>
        0), interval := returns_period : SortinoRatio Interval }
  else
    (let excess_returns : Rat := (mean_return - risk_free_return);
     let ratio : Rat := (match (Decimal.checked_div excess_returns std_dev_loss_returns) with | some some_1 => some_1 | none => Rust.unreachable);
     { value := ratio, interval := returns_period : SortinoRatio Interval }))

/-- generated from `impl SortinoRatio :: fn scale` (barter/src/statistic/metric/sortino.rs:54) -/
@[gen_metrics] def SortinoRatio.scale {Interval : Type} [DecidableEq Interval] {TargetInterval : Type} [DecidableEq TargetInterval] (TargetInterval_TimeInterval : TimeInterval TargetInterval) (Interval_TimeInterval : TimeInterval Interval) (decimal_sqrt : Rat → Option Rat) (self : SortinoRatio Interval) (target : TargetInterval) : SortinoRatio TargetInterval :=
  let target_secs : Rat := (((Int.tdiv (TargetInterval_TimeInterval.interval target) 1000) : Int) : Rat)
  let current_secs : Rat := (((Int.tdiv (Interval_TimeInterval.interval self.interval) 1000) : Int) : Rat)
  let scale : Rat := (match (decimal_sqrt (match (Decimal.checked_div (Decimal.abs target_secs) (Decimal.abs current_secs)) with | some some_1 => some_1 | none => Decimal.MAX)) with | some some_2 => some_2 | none => Rust.unreachable)
  { value := (match (Decimal.checked_mul self.value scale) with | some some_3 => some_3 | none => Decimal.MAX), interval := target : SortinoRatio TargetInterval }

/-! ## barter/src/statistic/metric/calmar.rs -/

/-- generated from `struct CalmarRatio` (barter/src/statistic/metric/calmar.rs:14) -/
structure CalmarRatio (Interval : Type) where
  value : Rat
  interval : Interval
  deriving DecidableEq, Repr

/-- generated from `impl CalmarRatio :: fn calculate` (barter/src/statistic/metric/calmar.rs:24) -/
@[gen_metrics] def CalmarRatio.calculate {Interval : Type} [DecidableEq Interval] (risk_free_return : Rat) (mean_return : Rat) (max_drawdown : Rat) (returns_period : Interval) : CalmarRatio Interval :=
  (if (max_drawdown = 0) then
    { value := (match (Decimal.cmp mean_return risk_free_return) with
    | Ordering.Greater =>
        Decimal.MAX
    | Ordering.Less =>
        Decimal.MIN
    | Ordering.Equal =>
        0), interval := returns_period : CalmarRatio Interval }
  else
    (let excess_returns : Rat := (mean_return - risk_free_return);
     let ratio : Rat := (match (Decimal.checked_div excess_returns (Decimal.abs max_drawdown)) with | some some_1 => some_1 | none => Rust.unreachable);
     { value := ratio, interval := returns_period : CalmarRatio Interval }))

/-- generated from `impl CalmarRatio :: fn scale` (barter/src/statistic/metric/calmar.rs:57) -/
@[gen_metrics] def CalmarRatio.scale {Interval : Type} [DecidableEq Interval] {TargetInterval : Type} [DecidableEq TargetInterval] (TargetInterval_TimeInterval : TimeInterval TargetInterval) (Interval_TimeInterval : TimeInterval Interval) (decimal_sqrt : Rat → Option Rat) (self : CalmarRatio Interval) (target : TargetInterval) : CalmarRatio TargetInterval :=
  let target_secs : Rat := (((Int.tdiv (TargetInterval_TimeInterval.interval target) 1000) : Int) : Rat)
  let current_secs : Rat := (((Int.tdiv (Interval_TimeInterval.interval self.interval) 1000) : Int) : Rat)
  let scale : Rat := (match (decimal_sqrt (match (Decimal.checked_div (Decimal.abs target_secs) (Decimal.abs current_secs)) with | some some_1 => some_1 | none => Decimal.MAX)) with | some some_2 => some_2 | none => Rust.unreachable)
  { value := (match (Decimal.checked_mul self.value scale) with | some some_3 => some_3 | none => Decimal.MAX), interval := target : CalmarRatio TargetInterval }

/-! ## barter/src/statistic/metric/rate_of_return.rs -/

/-- generated from `struct RateOfReturn` (barter/src/statistic/metric/rate_of_return.rs:12) -/
structure RateOfReturn (Interval : Type) where
  value : Rat
  interval : Interval
  deriving DecidableEq, Repr

/-- generated from `impl RateOfReturn :: fn calculate` (barter/src/statistic/metric/rate_of_return.rs:22) -/
@[gen_metrics] def RateOfReturn.calculate {Interval : Type} [DecidableEq Interval] (mean_return : Rat) (returns_period : Interval) : RateOfReturn Interval :=
  { value := mean_return, interval := returns_period : RateOfReturn Interval }

/-- generated from `impl RateOfReturn :: fn scale` (barter/src/statistic/metric/rate_of_return.rs:38) -/
@[gen_metrics] def RateOfReturn.scale {Interval : Type} [DecidableEq Interval] {TargetInterval : Type} [DecidableEq TargetInterval] (TargetInterval_TimeInterval : TimeInterval TargetInterval) (Interval_TimeInterval : TimeInterval Interval) (self : RateOfReturn Interval) (target : TargetInterval) : RateOfReturn TargetInterval :=
  let target_secs : Rat := (((Int.tdiv (TargetInterval_TimeInterval.interval target) 1000) : Int) : Rat)
  let current_secs : Rat := (((Int.tdiv (Interval_TimeInterval.interval self.interval) 1000) : Int) : Rat)
  let scale : Rat := (match (Decimal.checked_div (Decimal.abs target_secs) (Decimal.abs current_secs)) with | some some_1 => some_1 | none => Decimal.MAX)
  { value := (match (Decimal.checked_mul self.value scale) with | some some_2 => some_2 | none => Decimal.MAX), interval := target : RateOfReturn TargetInterval }

/-! ## barter/src/engine/clock.rs -/

-- a trait as the record of its methods: a call `x.m(..)` on a value of a type parameter `T` is `T_TimeExchange.m x ..` of an explicit parameter `T_TimeExchange : TimeExchange T` (nothing is assumed about the implementation)
/-- generated from `trait TimeExchange` (barter/src/engine/clock.rs:21) -/
structure TimeExchange (Self : Type) where
  time_exchange : Self → Option Int

/-- generated from `struct LiveClock` (barter/src/engine/clock.rs:27) -/
inductive LiveClock where
  | mk
  deriving DecidableEq, Repr

/-- generated from `impl EngineClock for LiveClock :: fn time` (barter/src/engine/clock.rs:30) -/
@[gen_clock] def LiveClock.time (utc_now : Int) (self : LiveClock) : Int :=
  utc_now

/-- generated from `impl Processor<&Event> for LiveClock :: fn process` (barter/src/engine/clock.rs:38) -/
@[gen_clock] def LiveClock.process {Event : Type} [DecidableEq Event] (self : LiveClock) (_ : Event) : LiveClock :=
  self

/-- generated from `struct HistoricalClockInner` (barter/src/engine/clock.rs:50) -/
structure HistoricalClockInner where
  time_exchange_last : Int
  time_live_last_event : Int
  deriving DecidableEq, Repr

/-- generated from `struct HistoricalClock` (barter/src/engine/clock.rs:45) -/
structure HistoricalClock where
  inner : HistoricalClockInner
  deriving DecidableEq, Repr

/-- generated from `impl HistoricalClock :: fn new` (barter/src/engine/clock.rs:57) -/
@[gen_clock] def HistoricalClock.new (utc_now : Int) (last_exchange_time : Int) : HistoricalClock :=
  { inner := { time_exchange_last := last_exchange_time, time_live_last_event := utc_now : HistoricalClockInner } : HistoricalClock }

/-- generated from `impl EngineClock for HistoricalClock :: fn time` (barter/src/engine/clock.rs:68) -/
@[gen_clock] def HistoricalClock.time (utc_now : Int) (self : HistoricalClock) : Int :=
  let lock : HistoricalClockInner := self.inner
  let time_live_last_event : Int := lock.time_live_last_event
  let time_exchange_last : Int := lock.time_exchange_last
  let delta_since_last_event_live_time : Int := (utc_now - time_live_last_event)
  (if (delta_since_last_event_live_time ≥ 0) then
    (time_exchange_last + delta_since_last_event_live_time)
  else
    time_exchange_last)

/-- generated from `impl Processor<&Event> for HistoricalClock :: fn process` (barter/src/engine/clock.rs:91) -/
@[gen_clock] def HistoricalClock.process {Event : Type} [DecidableEq Event] (Event_TimeExchange : TimeExchange Event) (utc_now : Int) (self : HistoricalClock) (event : Event) : HistoricalClock :=
  (match (Event_TimeExchange.time_exchange event) with
  | none =>
    self
  | some time_event_exchange =>
    let lock : HistoricalClockInner := self.inner
    (if (time_event_exchange ≥ lock.time_exchange_last) then
      let lock : HistoricalClockInner := { lock with time_exchange_last := time_event_exchange }
      let self : HistoricalClock := { self with inner := lock }
      let lock : HistoricalClockInner := { lock with time_live_last_event := utc_now }
      let self : HistoricalClock := { self with inner := lock }
      self
    else
      let time_diff_secs : Int := (if (Int.tdiv (time_event_exchange - lock.time_exchange_last) 1000) < 0 then -(Int.tdiv (time_event_exchange - lock.time_exchange_last) 1000) else (Int.tdiv (time_event_exchange - lock.time_exchange_last) 1000))
      (if (time_diff_secs < 1) then
        self
      else
        (if (time_diff_secs < 30) then
          self
        else
          self))))

end BarterModel.Generated.Machines
