/-
GENERATED FILE -- DO NOT EDIT.  Written by tools/rust2lean_sm.py from the Rust source on every run of
`./check` for the properties whose props/Cxx.py names it in PREBUILD; the committed copy is the output for
the pinned tree.  State machines: a `&mut self` method is a pure function returning the new state and the
result; the meaning of the scalar vocabulary is fixed in the prelude below.  The agreement with the
hand-written models is proved in Lemmas/KernelsAgree/{Sequencer,Drawdown,PositionSM,Connectivity}.lean.
Every definition carries the simp attribute `gen_<group>` of the group(s) it was generated for (registered in
Generated/Attr.lean), auxiliary items found by lookup included, so that `simp only [gen_<group>]` unfolds
everything generated for a group whatever the helper functions of the source are called.

Source items (file :: item, line, hash of the item's source text):
  barter-data/src/error.rs :: enum DataError  (line 9)  sha256[:16]=beea71dc43c7ca86
  barter-data/src/exchange/binance/spot/l2.rs :: struct BinanceSpotOrderBookL2Update  (line 297)  sha256[:16]=cd06d4b9cd4a1146
  barter-data/src/exchange/binance/spot/l2.rs :: struct BinanceSpotOrderBookL2Sequencer  (line 186)  sha256[:16]=51144c6949b1b343
  barter-data/src/exchange/binance/spot/l2.rs :: impl BinanceSpotOrderBookL2Sequencer :: fn new  (line 194)  sha256[:16]=07744eecdb6b0257
  barter-data/src/exchange/binance/spot/l2.rs :: impl BinanceSpotOrderBookL2Sequencer :: fn is_first_update  (line 234)  sha256[:16]=42f368f3da17d1b0
  barter-data/src/exchange/binance/spot/l2.rs :: impl BinanceSpotOrderBookL2Sequencer :: fn validate_first_update  (line 242)  sha256[:16]=c285a6ddf261ba6d
  barter-data/src/exchange/binance/spot/l2.rs :: impl BinanceSpotOrderBookL2Sequencer :: fn validate_next_update  (line 262)  sha256[:16]=9c3df90886b06af5
  barter-data/src/exchange/binance/spot/l2.rs :: impl BinanceSpotOrderBookL2Sequencer :: fn validate_sequence  (line 205)  sha256[:16]=330f05e84671ced8
  barter-data/src/exchange/binance/futures/l2.rs :: struct BinanceFuturesOrderBookL2Update  (line 306)  sha256[:16]=ee23d620becc062d
  barter-data/src/exchange/binance/futures/l2.rs :: struct BinanceFuturesUsdOrderBookL2Sequencer  (line 195)  sha256[:16]=4655935a4dfc68dc
  barter-data/src/exchange/binance/futures/l2.rs :: impl BinanceFuturesUsdOrderBookL2Sequencer :: fn new  (line 202)  sha256[:16]=1a004e0ba3065488
  barter-data/src/exchange/binance/futures/l2.rs :: impl BinanceFuturesUsdOrderBookL2Sequencer :: fn is_first_update  (line 240)  sha256[:16]=42f368f3da17d1b0
  barter-data/src/exchange/binance/futures/l2.rs :: impl BinanceFuturesUsdOrderBookL2Sequencer :: fn validate_first_update  (line 248)  sha256[:16]=74dfcfdc7926614c
  barter-data/src/exchange/binance/futures/l2.rs :: impl BinanceFuturesUsdOrderBookL2Sequencer :: fn validate_next_update  (line 269)  sha256[:16]=f114ac500d7d2ebd
  barter-data/src/exchange/binance/futures/l2.rs :: impl BinanceFuturesUsdOrderBookL2Sequencer :: fn validate_sequence  (line 212)  sha256[:16]=e78ccdeb6c559e93
  barter/src/lib.rs :: struct Timed  (line 108)  sha256[:16]=fcc396cc092c2055
  barter/src/statistic/metric/drawdown/mod.rs :: struct Drawdown  (line 21)  sha256[:16]=524fd92759fcaed3
  barter/src/statistic/metric/drawdown/mod.rs :: impl Drawdown :: fn duration  (line 29)  sha256[:16]=01ca46554f0b043f
  barter/src/statistic/metric/drawdown/mod.rs :: struct DrawdownGenerator  (line 38)  sha256[:16]=ce8bc603da829ac8
  barter/src/statistic/metric/drawdown/mod.rs :: impl DrawdownGenerator :: fn init  (line 47)  sha256[:16]=7109021175c55a4f
  barter/src/statistic/metric/drawdown/mod.rs :: impl DrawdownGenerator :: fn generate  (line 97)  sha256[:16]=8cd14e8f7bc7bdcf
  barter/src/statistic/metric/drawdown/mod.rs :: impl DrawdownGenerator :: fn update  (line 60)  sha256[:16]=c01621f8488cb701
  barter/src/statistic/metric/drawdown/max.rs :: struct MaxDrawdown  (line 13)  sha256[:16]=a3808fb298dc1be1
  barter/src/statistic/metric/drawdown/max.rs :: struct MaxDrawdownGenerator  (line 17)  sha256[:16]=30fa4d1b1395d1f7
  barter/src/statistic/metric/drawdown/max.rs :: impl MaxDrawdownGenerator :: fn init  (line 23)  sha256[:16]=0d7599f0ffb16857
  barter/src/statistic/metric/drawdown/max.rs :: impl MaxDrawdownGenerator :: fn update  (line 31)  sha256[:16]=728058ccf0b184b5
  barter/src/statistic/metric/drawdown/max.rs :: impl MaxDrawdownGenerator :: fn generate  (line 47)  sha256[:16]=d7700da3a9311ff2
  barter/src/statistic/algorithm.rs :: mod welford_online :: fn calculate_mean  (line 7)  sha256[:16]=9535e0935ef9240c
  barter/src/statistic/metric/drawdown/mean.rs :: struct MeanDrawdown  (line 9)  sha256[:16]=df8da8c384de88b1
  barter/src/statistic/metric/drawdown/mean.rs :: struct MeanDrawdownGenerator  (line 16)  sha256[:16]=a34b303fb861220d
  barter/src/statistic/metric/drawdown/mean.rs :: impl MeanDrawdownGenerator :: fn init  (line 23)  sha256[:16]=98e1a5aff9039763
  barter/src/statistic/metric/drawdown/mean.rs :: impl MeanDrawdownGenerator :: fn update  (line 34)  sha256[:16]=1905809bca2b9adc
  barter/src/statistic/metric/drawdown/mean.rs :: impl MeanDrawdownGenerator :: fn generate  (line 63)  sha256[:16]=bdfc0e297d10b320
  barter-instrument/src/lib.rs :: enum Side  (line 92)  sha256[:16]=2619c9517f1f65fe
  barter-instrument/src/asset/mod.rs :: struct QuoteAsset  (line 132)  sha256[:16]=67544ada735367bd
  barter-execution/src/trade.rs :: opaque TradeId  (line 11)  sha256[:16]=549ed99d4dc4fda7
  barter-execution/src/order/id.rs :: opaque OrderId  (line 57)  sha256[:16]=0994791edb069349
  barter-execution/src/order/id.rs :: opaque StrategyId  (line 68)  sha256[:16]=64e12e76c21c866d
  barter-execution/src/trade.rs :: struct AssetFees  (line 57)  sha256[:16]=2db6c6402abbd85a
  barter-execution/src/trade.rs :: impl Default for AssetFees<QuoteAsset> :: fn default  (line 72)  sha256[:16]=a7e4779178717563
  barter-execution/src/trade.rs :: struct Trade  (line 22)  sha256[:16]=1bd02bfa901a458a
  barter/src/engine/state/position.rs :: fn calculate_price_entry_average  (line 474)  sha256[:16]=7bab5edeef0573ce
  barter/src/engine/state/position.rs :: fn approximate_remaining_exit_fees  (line 517)  sha256[:16]=65ee8716d0cd0119
  barter/src/engine/state/position.rs :: fn calculate_pnl_unrealised  (line 492)  sha256[:16]=498565041f1b3025
  barter/src/engine/state/position.rs :: fn calculate_pnl_realised  (line 527)  sha256[:16]=0b805a56d73c60b5
  barter/src/engine/state/position.rs :: struct Position  (line 166)  sha256[:16]=0e7e1d0d46ad5769
  barter/src/engine/state/position.rs :: struct PositionExited  (line 410)  sha256[:16]=576d7bce5e44bab2
  barter/src/engine/state/position.rs :: impl From for Position :: fn from  (line 380)  sha256[:16]=16588da86602a97c
  barter/src/engine/state/position.rs :: impl From for PositionExited :: fn from  (line 447)  sha256[:16]=7a7f356abb51d31f
  barter/src/engine/state/position.rs :: impl Position :: fn update_price_entry_average  (line 333)  sha256[:16]=5e9943baccbb1bfa
  barter/src/engine/state/position.rs :: impl Position :: fn update_pnl_unrealised  (line 347)  sha256[:16]=f8b9da79ff833cc8
  barter/src/engine/state/position.rs :: impl Position :: fn update_pnl_realised  (line 359)  sha256[:16]=20cf2a754bbd6ed3
  barter/src/engine/state/position.rs :: impl Position :: fn update_from_trade  (line 227)  sha256[:16]=0ad4868c706b48bf
  barter/src/engine/state/position.rs :: struct PositionManager  (line 15)  sha256[:16]=d9894f534e2235e0
  barter/src/engine/state/position.rs :: impl PositionManager :: fn update_from_trade  (line 32)  sha256[:16]=e0d62c34f28709b5
  barter/src/engine/state/connectivity/mod.rs :: enum Health  (line 157)  sha256[:16]=a31a4548958bbea6
  barter/src/engine/state/connectivity/mod.rs :: impl Default for Health :: fn default  (line 187)  sha256[:16]=839096c618d6e970
  barter/src/engine/state/connectivity/mod.rs :: struct ConnectivityState  (line 171)  sha256[:16]=b2d75bbb2728b71f
  barter/src/engine/state/connectivity/mod.rs :: impl ConnectivityState :: fn all_healthy  (line 181)  sha256[:16]=060a333c7dcc7b07
-/
import BarterModel.Generated.Attr
set_option linter.unusedVariables false   -- e.g. the `Ok(x)` binder of a `?` whose value is discarded
namespace BarterModel.Generated.Machines

/-! ## Fixed prelude: the meaning given to the Rust vocabulary of the accepted subset

* `u64` is `Nat`: **overflow at 2^64 is not modelled** (`x + 1`, `x += 1`, `x * y` are exact); `-`, `/`, `%`
  on `u64` are rejected by the translator. `i64` is `Int` (overflow not modelled, `/` is `Int.tdiv`);
  `<u64> as i64` and `Decimal::from(<u64>)` are the inclusions `Nat -> Int`, `Nat -> Rat`.
* `Decimal` is `Rat` (rounding / overflow of rust_decimal not modelled, DESIGN section 3).
* `DateTime<Utc>` and `TimeDelta` are `Int` (milliseconds): `a.signed_duration_since(b)` is `a - b`,
  `.num_milliseconds()` is the identity (sub-millisecond precision not modelled).
* `Result<T, E>` is `Except E T`; `e?` is written out as a `match` returning the error / `none`
  together with the state as it is at that point; `&T` is `T`; `.clone()` is the identity;
  `opt.take()` returns the field's value and writes `none`.
* `fn f(&mut self, a) -> R` is `f (self) (a) : S × R` (`S` alone for `R = ()`).
-/

/-- A Rust panic site (`unreachable!(..)`, `panic!(..)`) as a value: an unspecified inhabitant. Nothing can be
proved about it, so an agreement theorem about a function that contains one only holds if the site is dead
code (`Vec<T>` is `List T`, `.push(x)` appends; type parameters stay parameters with decidable equality). -/
opaque Rust.unreachable {α : Type} [Inhabited α] : α

/-- `Decimal::abs`. -/
def Decimal.abs (x : Rat) : Rat := if x < 0 then -x else x

/-- `Decimal::checked_div`: `None` exactly on a zero divisor (overflow is not modelled). -/
def Decimal.checked_div (x y : Rat) : Option Rat := if y = 0 then none else some (x / y)

/-- `Decimal::MAX` = 2^96 - 1. -/
def Decimal.MAX : Rat := 79228162514264337593543950335

/-- `Decimal::MIN` = -(2^96 - 1). -/
def Decimal.MIN : Rat := -79228162514264337593543950335

/-- `std::cmp::Ordering` (`a.cmp(&b)` on `Decimal` is `Decimal.cmp`, below). -/
inductive Ordering where
  | Less
  | Equal
  | Greater
  deriving DecidableEq, Repr

/-- `Ord::cmp` of `Decimal` (a total order; rust_decimal compares values, not representations). -/
def Decimal.cmp (x y : Rat) : Ordering := if x < y then Ordering.Less else if x = y then Ordering.Equal else Ordering.Greater

/-! ## barter-data/src/error.rs -/

-- restricted to the variant(s) InvalidSequence; not translated (constructing or matching them is rejected): Index, SubscriptionsEmpty, UnsupportedSubKind, InitialSnapshotMissing, InitialSnapshotInvalid, Socket, Unsupported
/-- generated from `enum DataError` (barter-data/src/error.rs:9) -/
inductive DataError where
  | InvalidSequence (prev_last_update_id : Nat) (first_update_id : Nat)
  deriving DecidableEq, Repr

/-! ## barter-data/src/exchange/binance/spot/l2.rs -/

-- restricted to the fields of type `u64`; not translated (no translated function may read them): subscription_id : SubscriptionId, time_exchange : DateTime < Utc >, bids : Vec < BinanceLevel >, asks : Vec < BinanceLevel >
/-- generated from `struct BinanceSpotOrderBookL2Update` (barter-data/src/exchange/binance/spot/l2.rs:297) -/
structure BinanceSpotOrderBookL2Update where
  first_update_id : Nat
  last_update_id : Nat
  deriving DecidableEq, Repr

/-- generated from `struct BinanceSpotOrderBookL2Sequencer` (barter-data/src/exchange/binance/spot/l2.rs:186) -/
structure BinanceSpotOrderBookL2Sequencer where
  updates_processed : Nat
  last_update_id : Nat
  prev_last_update_id : Nat
  deriving DecidableEq, Repr

/-- generated from `impl BinanceSpotOrderBookL2Sequencer :: fn new` (barter-data/src/exchange/binance/spot/l2.rs:194) -/
@[gen_sequencer] def BinanceSpotOrderBookL2Sequencer.new (last_update_id : Nat) : BinanceSpotOrderBookL2Sequencer :=
  { updates_processed := 0, last_update_id := last_update_id, prev_last_update_id := last_update_id : BinanceSpotOrderBookL2Sequencer }

/-- generated from `impl BinanceSpotOrderBookL2Sequencer :: fn is_first_update` (barter-data/src/exchange/binance/spot/l2.rs:234) -/
@[gen_sequencer] def BinanceSpotOrderBookL2Sequencer.is_first_update (self : BinanceSpotOrderBookL2Sequencer) : Bool :=
  (decide (self.updates_processed = 0))

/-- generated from `impl BinanceSpotOrderBookL2Sequencer :: fn validate_first_update` (barter-data/src/exchange/binance/spot/l2.rs:242) -/
@[gen_sequencer] def BinanceSpotOrderBookL2Sequencer.validate_first_update (self : BinanceSpotOrderBookL2Sequencer) (update : BinanceSpotOrderBookL2Update) : Except DataError Unit :=
  let expected_next_id : Nat := (self.last_update_id + 1)
  (if ((update.first_update_id ≤ expected_next_id) ∧ (update.last_update_id ≥ expected_next_id)) then
    (Except.ok ())
  else
    (Except.error (DataError.InvalidSequence self.last_update_id update.first_update_id)))

/-- generated from `impl BinanceSpotOrderBookL2Sequencer :: fn validate_next_update` (barter-data/src/exchange/binance/spot/l2.rs:262) -/
@[gen_sequencer] def BinanceSpotOrderBookL2Sequencer.validate_next_update (self : BinanceSpotOrderBookL2Sequencer) (update : BinanceSpotOrderBookL2Update) : Except DataError Unit :=
  let expected_next_id : Nat := (self.last_update_id + 1)
  (if (update.first_update_id = expected_next_id) then
    (Except.ok ())
  else
    (Except.error (DataError.InvalidSequence self.last_update_id update.first_update_id)))

/-- generated from `impl BinanceSpotOrderBookL2Sequencer :: fn validate_sequence` (barter-data/src/exchange/binance/spot/l2.rs:205) -/
@[gen_sequencer] def BinanceSpotOrderBookL2Sequencer.validate_sequence (self : BinanceSpotOrderBookL2Sequencer) (update : BinanceSpotOrderBookL2Update) : BinanceSpotOrderBookL2Sequencer × Except DataError (Option BinanceSpotOrderBookL2Update) :=
  (if (update.last_update_id ≤ self.last_update_id) then
    (self, (Except.ok none))
  else
    (if ((BinanceSpotOrderBookL2Sequencer.is_first_update self) = true) then
      (match (BinanceSpotOrderBookL2Sequencer.validate_first_update self update) with
      | Except.error err_1 => (self, (Except.error err_1))
      | Except.ok _ =>
        let self : BinanceSpotOrderBookL2Sequencer := { self with updates_processed := (self.updates_processed + 1) }
        let self : BinanceSpotOrderBookL2Sequencer := { self with prev_last_update_id := self.last_update_id }
        let self : BinanceSpotOrderBookL2Sequencer := { self with last_update_id := update.last_update_id }
        (self, (Except.ok (some update))))
    else
      (match (BinanceSpotOrderBookL2Sequencer.validate_next_update self update) with
      | Except.error err_2 => (self, (Except.error err_2))
      | Except.ok _ =>
        let self : BinanceSpotOrderBookL2Sequencer := { self with updates_processed := (self.updates_processed + 1) }
        let self : BinanceSpotOrderBookL2Sequencer := { self with prev_last_update_id := self.last_update_id }
        let self : BinanceSpotOrderBookL2Sequencer := { self with last_update_id := update.last_update_id }
        (self, (Except.ok (some update))))))

/-! ## barter-data/src/exchange/binance/futures/l2.rs -/

-- restricted to the fields of type `u64`; not translated (no translated function may read them): subscription_id : SubscriptionId, time_exchange : DateTime < Utc >, time_engine : DateTime < Utc >, bids : Vec < BinanceLevel >, asks : Vec < BinanceLevel >
/-- generated from `struct BinanceFuturesOrderBookL2Update` (barter-data/src/exchange/binance/futures/l2.rs:306) -/
structure BinanceFuturesOrderBookL2Update where
  first_update_id : Nat
  last_update_id : Nat
  prev_last_update_id : Nat
  deriving DecidableEq, Repr

/-- generated from `struct BinanceFuturesUsdOrderBookL2Sequencer` (barter-data/src/exchange/binance/futures/l2.rs:195) -/
structure BinanceFuturesUsdOrderBookL2Sequencer where
  updates_processed : Nat
  last_update_id : Nat
  deriving DecidableEq, Repr

/-- generated from `impl BinanceFuturesUsdOrderBookL2Sequencer :: fn new` (barter-data/src/exchange/binance/futures/l2.rs:202) -/
@[gen_sequencer] def BinanceFuturesUsdOrderBookL2Sequencer.new (last_update_id : Nat) : BinanceFuturesUsdOrderBookL2Sequencer :=
  { updates_processed := 0, last_update_id := last_update_id : BinanceFuturesUsdOrderBookL2Sequencer }

/-- generated from `impl BinanceFuturesUsdOrderBookL2Sequencer :: fn is_first_update` (barter-data/src/exchange/binance/futures/l2.rs:240) -/
@[gen_sequencer] def BinanceFuturesUsdOrderBookL2Sequencer.is_first_update (self : BinanceFuturesUsdOrderBookL2Sequencer) : Bool :=
  (decide (self.updates_processed = 0))

/-- generated from `impl BinanceFuturesUsdOrderBookL2Sequencer :: fn validate_first_update` (barter-data/src/exchange/binance/futures/l2.rs:248) -/
@[gen_sequencer] def BinanceFuturesUsdOrderBookL2Sequencer.validate_first_update (self : BinanceFuturesUsdOrderBookL2Sequencer) (update : BinanceFuturesOrderBookL2Update) : Except DataError Unit :=
  (if ((update.first_update_id ≤ self.last_update_id) ∧ (update.last_update_id ≥ self.last_update_id)) then
    (Except.ok ())
  else
    (Except.error (DataError.InvalidSequence self.last_update_id update.first_update_id)))

/-- generated from `impl BinanceFuturesUsdOrderBookL2Sequencer :: fn validate_next_update` (barter-data/src/exchange/binance/futures/l2.rs:269) -/
@[gen_sequencer] def BinanceFuturesUsdOrderBookL2Sequencer.validate_next_update (self : BinanceFuturesUsdOrderBookL2Sequencer) (update : BinanceFuturesOrderBookL2Update) : Except DataError Unit :=
  (if (update.prev_last_update_id = self.last_update_id) then
    (Except.ok ())
  else
    (Except.error (DataError.InvalidSequence self.last_update_id update.first_update_id)))

/-- generated from `impl BinanceFuturesUsdOrderBookL2Sequencer :: fn validate_sequence` (barter-data/src/exchange/binance/futures/l2.rs:212) -/
@[gen_sequencer] def BinanceFuturesUsdOrderBookL2Sequencer.validate_sequence (self : BinanceFuturesUsdOrderBookL2Sequencer) (update : BinanceFuturesOrderBookL2Update) : BinanceFuturesUsdOrderBookL2Sequencer × Except DataError (Option BinanceFuturesOrderBookL2Update) :=
  (if (update.last_update_id < self.last_update_id) then
    (self, (Except.ok none))
  else
    (if ((BinanceFuturesUsdOrderBookL2Sequencer.is_first_update self) = true) then
      (match (BinanceFuturesUsdOrderBookL2Sequencer.validate_first_update self update) with
      | Except.error err_1 => (self, (Except.error err_1))
      | Except.ok _ =>
        let self : BinanceFuturesUsdOrderBookL2Sequencer := { self with updates_processed := (self.updates_processed + 1) }
        let self : BinanceFuturesUsdOrderBookL2Sequencer := { self with last_update_id := update.last_update_id }
        (self, (Except.ok (some update))))
    else
      (match (BinanceFuturesUsdOrderBookL2Sequencer.validate_next_update self update) with
      | Except.error err_2 => (self, (Except.error err_2))
      | Except.ok _ =>
        let self : BinanceFuturesUsdOrderBookL2Sequencer := { self with updates_processed := (self.updates_processed + 1) }
        let self : BinanceFuturesUsdOrderBookL2Sequencer := { self with last_update_id := update.last_update_id }
        (self, (Except.ok (some update))))))

/-! ## barter/src/lib.rs -/

/-- generated from `struct Timed` (barter/src/lib.rs:108) -/
structure Timed (T : Type) where
  value : T
  time : Int
  deriving DecidableEq, Repr

/-! ## barter/src/statistic/metric/drawdown/mod.rs -/

/-- generated from `struct Drawdown` (barter/src/statistic/metric/drawdown/mod.rs:21) -/
structure Drawdown where
  value : Rat
  time_start : Int
  time_end : Int
  deriving DecidableEq, Repr

/-- generated from `impl Drawdown :: fn duration` (barter/src/statistic/metric/drawdown/mod.rs:29) -/
@[gen_drawdown] def Drawdown.duration (self : Drawdown) : Int :=
  (self.time_end - self.time_start)

/-- generated from `struct DrawdownGenerator` (barter/src/statistic/metric/drawdown/mod.rs:38) -/
structure DrawdownGenerator where
  peak : Option Rat
  drawdown_max : Rat
  time_peak : Option Int
  time_now : Int
  deriving DecidableEq, Repr

/-- generated from `impl DrawdownGenerator :: fn init` (barter/src/statistic/metric/drawdown/mod.rs:47) -/
@[gen_drawdown] def DrawdownGenerator.init (point : Timed Rat) : DrawdownGenerator :=
  { peak := (some point.value), drawdown_max := 0, time_peak := (some point.time), time_now := point.time : DrawdownGenerator }

/-- generated from `impl DrawdownGenerator :: fn generate` (barter/src/statistic/metric/drawdown/mod.rs:97) -/
@[gen_drawdown] def DrawdownGenerator.generate (self : DrawdownGenerator) : DrawdownGenerator × Option Drawdown :=
  (match self.time_peak with
  | none => (self, none)
  | some time_peak =>
    (self, (if (self.drawdown_max ≠ 0) then some ({ value := self.drawdown_max, time_start := time_peak, time_end := self.time_now : Drawdown }) else none)))

/-- generated from `impl DrawdownGenerator :: fn update` (barter/src/statistic/metric/drawdown/mod.rs:60) -/
@[gen_drawdown] def DrawdownGenerator.update (self : DrawdownGenerator) (point : Timed Rat) : DrawdownGenerator × Option Drawdown :=
  let self : DrawdownGenerator := { self with time_now := point.time }
  (match self.peak with
  | none =>
    let self : DrawdownGenerator := { self with peak := (some point.value) }
    let self : DrawdownGenerator := { self with time_peak := (some point.time) }
    (self, none)
  | some peak =>
    (if (point.value > peak) then
      let call_1 := DrawdownGenerator.generate self
      let self : DrawdownGenerator := call_1.1
      let ended_drawdown : Option Drawdown := call_1.2
      let self : DrawdownGenerator := { self with peak := (some point.value) }
      let self : DrawdownGenerator := { self with time_peak := (some point.time) }
      let self : DrawdownGenerator := { self with drawdown_max := 0 }
      (self, ended_drawdown)
    else
      let drawdown_current : Option Rat := (Decimal.checked_div (peak - point.value) peak)
      (match drawdown_current with
      | some drawdown_current_1 =>
        (if (drawdown_current_1 > self.drawdown_max) then
          let self : DrawdownGenerator := { self with drawdown_max := drawdown_current_1 }
          (self, none)
        else
          (self, none))
      | none =>
        (self, none))))

/-! ## barter/src/statistic/metric/drawdown/max.rs -/

/-- generated from `struct MaxDrawdown` (barter/src/statistic/metric/drawdown/max.rs:13) -/
structure MaxDrawdown where
  f0 : Drawdown
  deriving DecidableEq, Repr

/-- generated from `struct MaxDrawdownGenerator` (barter/src/statistic/metric/drawdown/max.rs:17) -/
structure MaxDrawdownGenerator where
  max : Option MaxDrawdown
  deriving DecidableEq, Repr

/-- generated from `impl MaxDrawdownGenerator :: fn init` (barter/src/statistic/metric/drawdown/max.rs:23) -/
@[gen_drawdown] def MaxDrawdownGenerator.init (drawdown : Drawdown) : MaxDrawdownGenerator :=
  { max := (some (MaxDrawdown.mk drawdown)) : MaxDrawdownGenerator }

/-- generated from `impl MaxDrawdownGenerator :: fn update` (barter/src/statistic/metric/drawdown/max.rs:31) -/
@[gen_drawdown] def MaxDrawdownGenerator.update (self : MaxDrawdownGenerator) (next_drawdown : Drawdown) : MaxDrawdownGenerator :=
  let taken_1 : Option MaxDrawdown := self.max
  let self : MaxDrawdownGenerator := { self with max := none }
  let max : MaxDrawdown := (match taken_1 with
  | some current =>
      (if ((Decimal.abs next_drawdown.value) > (Decimal.abs current.f0.value)) then
        (MaxDrawdown.mk next_drawdown)
      else
        current)
  | none =>
      (MaxDrawdown.mk next_drawdown))
  let self : MaxDrawdownGenerator := { self with max := (some max) }
  self

/-- generated from `impl MaxDrawdownGenerator :: fn generate` (barter/src/statistic/metric/drawdown/max.rs:47) -/
@[gen_drawdown] def MaxDrawdownGenerator.generate (self : MaxDrawdownGenerator) : Option MaxDrawdown :=
  self.max

/-! ## barter/src/statistic/algorithm.rs -/

-- `mod welford_online :: fn calculate_mean` (barter/src/statistic/algorithm.rs:7) generic over `T`: instantiated below at the types it is called with

/-! ## barter/src/statistic/metric/drawdown/mean.rs -/

/-- generated from `struct MeanDrawdown` (barter/src/statistic/metric/drawdown/mean.rs:9) -/
structure MeanDrawdown where
  mean_drawdown : Rat
  mean_drawdown_ms : Int
  deriving DecidableEq, Repr

/-- generated from `struct MeanDrawdownGenerator` (barter/src/statistic/metric/drawdown/mean.rs:16) -/
structure MeanDrawdownGenerator where
  count : Nat
  mean_drawdown : Option MeanDrawdown
  deriving DecidableEq, Repr

/-- generated from `impl MeanDrawdownGenerator :: fn init` (barter/src/statistic/metric/drawdown/mean.rs:23) -/
@[gen_drawdown] def MeanDrawdownGenerator.init (drawdown : Drawdown) : MeanDrawdownGenerator :=
  { count := 1, mean_drawdown := (some ({ mean_drawdown := drawdown.value, mean_drawdown_ms := (Drawdown.duration drawdown) : MeanDrawdown })) : MeanDrawdownGenerator }

/-- instance of the generic `welford_online.calculate_mean` at `Decimal` -/
@[gen_drawdown] def welford_online.calculate_mean_Decimal (prev_mean : Rat) (next_value : Rat) (count : Rat) : Rat :=
  let prev_mean : Rat := (prev_mean + ((next_value - prev_mean) / count))
  prev_mean

/-- instance of the generic `welford_online.calculate_mean` at `i64` -/
@[gen_drawdown] def welford_online.calculate_mean_i64 (prev_mean : Int) (next_value : Int) (count : Int) : Int :=
  let prev_mean : Int := (prev_mean + (Int.tdiv (next_value - prev_mean) count))
  prev_mean

/-- generated from `impl MeanDrawdownGenerator :: fn update` (barter/src/statistic/metric/drawdown/mean.rs:34) -/
@[gen_drawdown] def MeanDrawdownGenerator.update (self : MeanDrawdownGenerator) (next_drawdown : Drawdown) : MeanDrawdownGenerator :=
  let self : MeanDrawdownGenerator := { self with count := (self.count + 1) }
  let taken_1 : Option MeanDrawdown := self.mean_drawdown
  let self : MeanDrawdownGenerator := { self with mean_drawdown := none }
  let mean_drawdown : MeanDrawdown := (match taken_1 with
  | some (⟨mean_drawdown, mean_drawdown_ms⟩) =>
      { mean_drawdown := (welford_online.calculate_mean_Decimal mean_drawdown next_drawdown.value ((self.count : Nat) : Rat)), mean_drawdown_ms := (welford_online.calculate_mean_i64 mean_drawdown_ms (Drawdown.duration next_drawdown) ((self.count : Nat) : Int)) : MeanDrawdown }
  | none =>
      { mean_drawdown := next_drawdown.value, mean_drawdown_ms := (Drawdown.duration next_drawdown) : MeanDrawdown })
  let self : MeanDrawdownGenerator := { self with mean_drawdown := (some mean_drawdown) }
  self

/-- generated from `impl MeanDrawdownGenerator :: fn generate` (barter/src/statistic/metric/drawdown/mean.rs:63) -/
@[gen_drawdown] def MeanDrawdownGenerator.generate (self : MeanDrawdownGenerator) : Option MeanDrawdown :=
  self.mean_drawdown

/-! ## barter-instrument/src/lib.rs -/

/-- generated from `enum Side` (barter-instrument/src/lib.rs:92) -/
inductive Side where
  | Buy
  | Sell
  deriving DecidableEq, Repr

/-! ## barter-instrument/src/asset/mod.rs -/

/-- generated from `struct QuoteAsset` (barter-instrument/src/asset/mod.rs:132) -/
inductive QuoteAsset where
  | mk
  deriving DecidableEq, Repr

/-! ## barter-execution/src/trade.rs -/

-- an identifier type: its values are only stored, cloned and compared; any injective coding would do
/-- generated from `opaque TradeId` (barter-execution/src/trade.rs:11) -/
abbrev TradeId := Nat

/-! ## barter-execution/src/order/id.rs -/

-- an identifier type: its values are only stored, cloned and compared; any injective coding would do
/-- generated from `opaque OrderId` (barter-execution/src/order/id.rs:57) -/
abbrev OrderId := Nat

-- an identifier type: its values are only stored, cloned and compared; any injective coding would do
/-- generated from `opaque StrategyId` (barter-execution/src/order/id.rs:68) -/
abbrev StrategyId := Nat

/-! ## barter-execution/src/trade.rs -/

/-- generated from `struct AssetFees` (barter-execution/src/trade.rs:57) -/
structure AssetFees (AssetKey : Type) where
  asset : AssetKey
  fees : Rat
  deriving DecidableEq, Repr

/-- generated from `impl Default for AssetFees<QuoteAsset> :: fn default` (barter-execution/src/trade.rs:72) -/
@[gen_position_sm] def AssetFees.default  : AssetFees QuoteAsset :=
  { asset := QuoteAsset.mk, fees := 0 : AssetFees QuoteAsset }

/-- generated from `struct Trade` (barter-execution/src/trade.rs:22) -/
structure Trade (AssetKey : Type) (InstrumentKey : Type) where
  id : TradeId
  order_id : OrderId
  instrument : InstrumentKey
  strategy : StrategyId
  time_exchange : Int
  side : Side
  price : Rat
  quantity : Rat
  fees : AssetFees AssetKey
  deriving DecidableEq, Repr

/-! ## barter/src/engine/state/position.rs -/

/-- generated from `fn calculate_price_entry_average` (barter/src/engine/state/position.rs:474) -/
@[gen_position_sm] def calculate_price_entry_average (current_price_entry_average : Rat) (current_quantity_abs : Rat) (trade_price : Rat) (trade_quantity_abs : Rat) : Rat :=
  (if ((current_quantity_abs = 0) ∧ (trade_quantity_abs = 0)) then
    0
  else
    let current_value : Rat := (current_price_entry_average * current_quantity_abs)
    let trade_value : Rat := (trade_price * trade_quantity_abs)
    ((current_value + trade_value) / (current_quantity_abs + trade_quantity_abs)))

/-- generated from `fn approximate_remaining_exit_fees` (barter/src/engine/state/position.rs:517) -/
@[gen_position_sm] def approximate_remaining_exit_fees (quantity_abs : Rat) (quantity_abs_max : Rat) (fees_enter : Rat) : Rat :=
  ((quantity_abs / quantity_abs_max) * fees_enter)

/-- generated from `fn calculate_pnl_unrealised` (barter/src/engine/state/position.rs:492) -/
@[gen_position_sm] def calculate_pnl_unrealised (position_side : Side) (price_entry_average : Rat) (quantity_abs : Rat) (quantity_abs_max : Rat) (fees_enter : Rat) (price : Rat) : Rat :=
  let approx_exit_fees : Rat := (approximate_remaining_exit_fees quantity_abs quantity_abs_max fees_enter)
  let value_quote_current : Rat := (quantity_abs * price)
  let value_quote_entry : Rat := (quantity_abs * price_entry_average)
  (match position_side with
  | Side.Buy =>
      ((value_quote_current - value_quote_entry) - approx_exit_fees)
  | Side.Sell =>
      ((value_quote_entry - value_quote_current) - approx_exit_fees))

/-- generated from `fn calculate_pnl_realised` (barter/src/engine/state/position.rs:527) -/
@[gen_position_sm] def calculate_pnl_realised (position_side : Side) (price_entry_average : Rat) (closed_quantity : Rat) (closed_price : Rat) (closed_fee : Rat) : Rat :=
  let close_quantity : Rat := (Decimal.abs closed_quantity)
  let value_quote_closed : Rat := (close_quantity * closed_price)
  let value_quote_entry : Rat := (close_quantity * price_entry_average)
  (match position_side with
  | Side.Buy =>
      ((value_quote_closed - value_quote_entry) - closed_fee)
  | Side.Sell =>
      ((value_quote_entry - value_quote_closed) - closed_fee))

/-- generated from `struct Position` (barter/src/engine/state/position.rs:166) -/
structure Position (AssetKey : Type) (InstrumentKey : Type) where
  instrument : InstrumentKey
  side : Side
  price_entry_average : Rat
  quantity_abs : Rat
  quantity_abs_max : Rat
  pnl_unrealised : Rat
  pnl_realised : Rat
  fees_enter : AssetFees AssetKey
  fees_exit : AssetFees AssetKey
  time_enter : Int
  time_exchange_update : Int
  trades : List TradeId
  deriving DecidableEq, Repr

/-- generated from `struct PositionExited` (barter/src/engine/state/position.rs:410) -/
structure PositionExited (AssetKey : Type) (InstrumentKey : Type) where
  instrument : InstrumentKey
  side : Side
  price_entry_average : Rat
  quantity_abs_max : Rat
  pnl_realised : Rat
  fees_enter : AssetFees AssetKey
  fees_exit : AssetFees AssetKey
  time_enter : Int
  time_exit : Int
  trades : List TradeId
  deriving DecidableEq, Repr

/-- generated from `impl From for Position :: fn from` (barter/src/engine/state/position.rs:380) -/
@[gen_position_sm] def Position.«from» {InstrumentKey : Type} [DecidableEq InstrumentKey] (trade : Trade QuoteAsset InstrumentKey) : Position QuoteAsset InstrumentKey :=
  let trades : List TradeId := []
  let trades : List TradeId := (trades ++ [trade.id])
  { instrument := trade.instrument, side := trade.side, price_entry_average := trade.price, quantity_abs := (Decimal.abs trade.quantity), quantity_abs_max := (Decimal.abs trade.quantity), pnl_unrealised := 0, pnl_realised := (-trade.fees.fees), fees_enter := trade.fees, fees_exit := (AssetFees.default), time_enter := trade.time_exchange, time_exchange_update := trade.time_exchange, trades := trades : Position QuoteAsset InstrumentKey }

/-- generated from `impl From for PositionExited :: fn from` (barter/src/engine/state/position.rs:447) -/
@[gen_position_sm] def PositionExited.«from» {AssetKey : Type} [DecidableEq AssetKey] {InstrumentKey : Type} [DecidableEq InstrumentKey] (value : Position AssetKey InstrumentKey) : PositionExited AssetKey InstrumentKey :=
  { instrument := value.instrument, side := value.side, price_entry_average := value.price_entry_average, quantity_abs_max := value.quantity_abs_max, pnl_realised := value.pnl_realised, fees_enter := value.fees_enter, fees_exit := value.fees_exit, time_enter := value.time_enter, time_exit := value.time_exchange_update, trades := value.trades : PositionExited AssetKey InstrumentKey }

/-- generated from `impl Position :: fn update_price_entry_average` (barter/src/engine/state/position.rs:333) -/
@[gen_position_sm] def Position.update_price_entry_average {InstrumentKey : Type} [DecidableEq InstrumentKey] (self : Position QuoteAsset InstrumentKey) (trade : Trade QuoteAsset InstrumentKey) : Position QuoteAsset InstrumentKey :=
  let self : Position QuoteAsset InstrumentKey := { self with price_entry_average := (calculate_price_entry_average self.price_entry_average self.quantity_abs trade.price (Decimal.abs trade.quantity)) }
  self

/-- generated from `impl Position :: fn update_pnl_unrealised` (barter/src/engine/state/position.rs:347) -/
@[gen_position_sm] def Position.update_pnl_unrealised {InstrumentKey : Type} [DecidableEq InstrumentKey] (self : Position QuoteAsset InstrumentKey) (price : Rat) : Position QuoteAsset InstrumentKey :=
  let self : Position QuoteAsset InstrumentKey := { self with pnl_unrealised := (calculate_pnl_unrealised self.side self.price_entry_average self.quantity_abs self.quantity_abs_max self.fees_enter.fees price) }
  self

/-- generated from `impl Position :: fn update_pnl_realised` (barter/src/engine/state/position.rs:359) -/
@[gen_position_sm] def Position.update_pnl_realised {InstrumentKey : Type} [DecidableEq InstrumentKey] (self : Position QuoteAsset InstrumentKey) (closed_quantity : Rat) (closed_price : Rat) (closed_fee : Rat) : Position QuoteAsset InstrumentKey :=
  let self : Position QuoteAsset InstrumentKey := { self with pnl_realised := (self.pnl_realised + (calculate_pnl_realised self.side self.price_entry_average closed_quantity closed_price closed_fee)) }
  self

/-- generated from `impl Position :: fn update_from_trade` (barter/src/engine/state/position.rs:227) -/
@[gen_position_sm] def Position.update_from_trade {InstrumentKey : Type} [DecidableEq InstrumentKey] (self : Position QuoteAsset InstrumentKey) (trade : Trade QuoteAsset InstrumentKey) : (Option (Position QuoteAsset InstrumentKey)) × (Option (PositionExited QuoteAsset InstrumentKey)) :=
  (if (self.instrument ≠ trade.instrument) then
    ((some self), none)
  else
    let self : Position QuoteAsset InstrumentKey := { self with trades := (self.trades ++ [trade.id]) }
    (if (((self.side = Side.Buy) ∧ (trade.side = Side.Buy)) ∨ ((self.side = Side.Sell) ∧ (trade.side = Side.Sell))) then
      let self : Position QuoteAsset InstrumentKey := (Position.update_price_entry_average self trade)
      let self : Position QuoteAsset InstrumentKey := { self with quantity_abs := (self.quantity_abs + (Decimal.abs trade.quantity)) }
      (if (self.quantity_abs > self.quantity_abs_max) then
        let self : Position QuoteAsset InstrumentKey := { self with quantity_abs_max := self.quantity_abs }
        let self : Position QuoteAsset InstrumentKey := { self with pnl_realised := (self.pnl_realised - trade.fees.fees) }
        let self : Position QuoteAsset InstrumentKey := { self with fees_enter := { self.fees_enter with fees := (self.fees_enter.fees + trade.fees.fees) } }
        let self : Position QuoteAsset InstrumentKey := { self with time_exchange_update := trade.time_exchange }
        let self : Position QuoteAsset InstrumentKey := (Position.update_pnl_unrealised self trade.price)
        ((some self), none)
      else
        let self : Position QuoteAsset InstrumentKey := { self with pnl_realised := (self.pnl_realised - trade.fees.fees) }
        let self : Position QuoteAsset InstrumentKey := { self with fees_enter := { self.fees_enter with fees := (self.fees_enter.fees + trade.fees.fees) } }
        let self : Position QuoteAsset InstrumentKey := { self with time_exchange_update := trade.time_exchange }
        let self : Position QuoteAsset InstrumentKey := (Position.update_pnl_unrealised self trade.price)
        ((some self), none))
    else
      (if ((((self.side = Side.Buy) ∧ (trade.side = Side.Sell)) ∨ ((self.side = Side.Sell) ∧ (trade.side = Side.Buy))) ∧ (self.quantity_abs > (Decimal.abs trade.quantity))) then
        let self : Position QuoteAsset InstrumentKey := (Position.update_pnl_realised self trade.quantity trade.price trade.fees.fees)
        let self : Position QuoteAsset InstrumentKey := { self with quantity_abs := (self.quantity_abs - (Decimal.abs trade.quantity)) }
        let self : Position QuoteAsset InstrumentKey := { self with fees_exit := { self.fees_exit with fees := (self.fees_exit.fees + trade.fees.fees) } }
        let self : Position QuoteAsset InstrumentKey := { self with time_exchange_update := trade.time_exchange }
        let self : Position QuoteAsset InstrumentKey := (Position.update_pnl_unrealised self trade.price)
        ((some self), none)
      else
        (if ((((self.side = Side.Buy) ∧ (trade.side = Side.Sell)) ∨ ((self.side = Side.Sell) ∧ (trade.side = Side.Buy))) ∧ (self.quantity_abs = (Decimal.abs trade.quantity))) then
          let self : Position QuoteAsset InstrumentKey := { self with quantity_abs := (self.quantity_abs - (Decimal.abs trade.quantity)) }
          let self : Position QuoteAsset InstrumentKey := { self with fees_exit := { self.fees_exit with fees := (self.fees_exit.fees + trade.fees.fees) } }
          let self : Position QuoteAsset InstrumentKey := { self with time_exchange_update := trade.time_exchange }
          let self : Position QuoteAsset InstrumentKey := (Position.update_pnl_realised self trade.quantity trade.price trade.fees.fees)
          let self : Position QuoteAsset InstrumentKey := (Position.update_pnl_unrealised self trade.price)
          (none, (some (PositionExited.«from» self)))
        else
          (if ((((self.side = Side.Buy) ∧ (trade.side = Side.Sell)) ∨ ((self.side = Side.Sell) ∧ (trade.side = Side.Buy))) ∧ (self.quantity_abs < (Decimal.abs trade.quantity))) then
            let next_position_quantity : Rat := ((Decimal.abs trade.quantity) - self.quantity_abs)
            let next_position_fee_enter : Rat := (trade.fees.fees * (next_position_quantity / (Decimal.abs trade.quantity)))
            let next_position_trade : Trade QuoteAsset InstrumentKey := { id := trade.id, order_id := trade.order_id, instrument := trade.instrument, strategy := trade.strategy, time_exchange := trade.time_exchange, side := trade.side, price := trade.price, quantity := next_position_quantity, fees := { asset := trade.fees.asset, fees := next_position_fee_enter : AssetFees QuoteAsset } : Trade QuoteAsset InstrumentKey }
            let fee_exit : Rat := (trade.fees.fees * (self.quantity_abs / (Decimal.abs trade.quantity)))
            let self : Position QuoteAsset InstrumentKey := { self with fees_exit := { self.fees_exit with fees := (self.fees_exit.fees + fee_exit) } }
            let self : Position QuoteAsset InstrumentKey := { self with time_exchange_update := trade.time_exchange }
            let self : Position QuoteAsset InstrumentKey := (Position.update_pnl_realised self self.quantity_abs trade.price fee_exit)
            let self : Position QuoteAsset InstrumentKey := { self with quantity_abs := 0 }
            let self : Position QuoteAsset InstrumentKey := (Position.update_pnl_unrealised self trade.price)
            ((some (Position.«from» next_position_trade)), (some (PositionExited.«from» self)))
          else
            Rust.unreachable)))))

/-- generated from `struct PositionManager` (barter/src/engine/state/position.rs:15) -/
structure PositionManager (InstrumentKey : Type) where
  current : Option (Position QuoteAsset InstrumentKey)
  deriving DecidableEq, Repr

/-- generated from `impl PositionManager :: fn update_from_trade` (barter/src/engine/state/position.rs:32) -/
@[gen_position_sm] def PositionManager.update_from_trade {InstrumentKey : Type} [DecidableEq InstrumentKey] (self : PositionManager InstrumentKey) (trade : Trade QuoteAsset InstrumentKey) : (PositionManager InstrumentKey) × Option (PositionExited QuoteAsset InstrumentKey) :=
  let taken_1 : Option (Position QuoteAsset InstrumentKey) := self.current
  let self : PositionManager InstrumentKey := { self with current := none }
  (match (match taken_1 with
  | some position =>
      (Position.update_from_trade position trade)
  | none =>
      ((some (Position.«from» trade)), none)) with
  | (current, closed) =>
    let self : PositionManager InstrumentKey := { self with current := current }
    (self, closed))

/-! ## barter/src/engine/state/connectivity/mod.rs -/

/-- generated from `enum Health` (barter/src/engine/state/connectivity/mod.rs:157) -/
inductive Health where
  | Healthy
  | Reconnecting
  deriving DecidableEq, Repr

/-- generated from `impl Default for Health :: fn default` (barter/src/engine/state/connectivity/mod.rs:187) -/
@[gen_connectivity] def Health.default  : Health :=
  Health.Reconnecting

/-- generated from `struct ConnectivityState` (barter/src/engine/state/connectivity/mod.rs:171) -/
structure ConnectivityState where
  market_data : Health
  account : Health
  deriving DecidableEq, Repr

/-- generated from `impl ConnectivityState :: fn all_healthy` (barter/src/engine/state/connectivity/mod.rs:181) -/
@[gen_connectivity] def ConnectivityState.all_healthy (self : ConnectivityState) : Bool :=
  (decide ((self.market_data = Health.Healthy) ∧ (self.account = Health.Healthy)))

end BarterModel.Generated.Machines
